"""Regenerate MANIFEST.json from props.PLANS (development helper; MANIFEST.json is committed)."""
import json, os, sys
sys.path.insert(0, os.path.dirname(os.path.abspath(__file__)))
import props
ALL = [json.loads(l)['id'] for l in open('properties.jsonl')]
checks = []
for pid in ALL:
    if pid not in props.PLANS:
        continue
    p = props.PLANS[pid]
    checks.append(dict(
        property_id=pid, quick_cmd=f"./vcheck {pid} --tier quick", thorough_cmd=f"./vcheck {pid} --tier thorough",
        evidence_file=f"evidence/{pid}.json", replay_cmd_template="./vcheck --replay {path}", engine="pyvc+bcheck",
        level_claimed=dict(category=p.level, text=p.level_text or p.explanation, design_ref=f"DESIGN.md §6-{pid}"),
        level_note=p.level_note or "trusted: own VC generator pyvc, z3/cvc5, float-as-real, object schema, assumed library contracts listed in the evidence; bounded parts are labelled bounded and not counted as proved",
        technique=p.technique))
na = [dict(property_id=pid, reason=props.NOT_APPLICABLE.get(pid, "no contract within reach yet: check not built in this round"))
      for pid in ALL if pid not in props.PLANS]
m = dict(version=1, setup_cmd="./setup.sh",
         hooks=dict(guard="COMA_VERIF", enable="none needed: contracts are sidecar files under /verif/specs, the real source is re-read with ast on every run; no source hooks",
                    baseline_off_cmd="cd /repo && /venv/bin/python -m pytest -ra -q -p no:cacheprovider --timeout=900 --continue-on-collection-errors",
                    source_commits=props.FIX_COMMITS, add_only=True),
         engines=[dict(name="pyvc+bcheck", path="pyvc/", serves_properties=[c['property_id'] for c in checks],
                       kind_free_text="contract-based deductive verification: own VC generator (symbolic execution of the real Python AST against sidecar contracts, loop invariants, ghost state) discharged by z3/cvc5; bounded run-time contract monitors on the real functions as labelled stand-in")],
         checks=checks, not_applicable=na,
         notes="exit codes: 0 held, 1 violation (VIOLATION line + replay file), 2 undecided (obligation no longer discharges and no failing input found), 3 checker error")
json.dump(m, open('MANIFEST.json', 'w'), indent=1)
import jsonschema
jsonschema.validate(m, json.load(open('/root/.vp/MANIFEST.schema.json')))
print('MANIFEST ok:', len(checks), 'checks,', len(na), 'not applicable')
