#!/bin/sh
# MANIFEST.setup_cmd: build the interpreter the checks use (offline, from files on disk only).
# /verif/.venv = python 3.12 of /venv + z3-solver, cvc5, jsonschema from the offline wheelhouse,
# plus a .pth that adds /venv's site-packages (pandas, numpy, scipy, p_tqdm: the repo's own deps).
set -e
cd "$(dirname "$0")"
if [ ! -x .venv/bin/python ] || ! .venv/bin/python -c "import z3, jsonschema, pandas" 2>/dev/null; then
  rm -rf .venv
  /venv/bin/python -m venv .venv
  PIP_NO_INDEX=1 .venv/bin/pip install -q --no-index --find-links /opt/veriftools/wheels z3-solver cvc5 jsonschema
  echo "import site; site.addsitedir('/venv/lib/python3.12/site-packages')" \
    > .venv/lib/python3.12/site-packages/_repo_deps.pth
fi
.venv/bin/python -c "import z3, cvc5, jsonschema, pandas, numpy, scipy, p_tqdm; print('setup ok: z3', z3.get_version_string())"
