"""Field layout of the repository's classes as the verifier sees them (field -> kind).

This is the *type invariant of inputs* assumed by every contract: an object of class C has the listed
fields with values of the listed kinds.  It is derived from the constructors in /repo (every field is
assigned in __init__ / is a dataclass field); `pyvc` checks each constructor call against it (a value
that does not fit its schema kind is a hard error), so a drift between schema and code is noticed.
Coordinates are REAL because CMAP positions are floats at run time (assumption float-as-real).
"""
from pyvc.kinds import *

PWS = OBJ('PositionWithSiteId')
PAIR = OBJ('AlignedPair', 'ScoredAlignedPair')
NAP = OBJ('NotAlignedQueryPosition', 'NotAlignedReferencePosition')
UNSCORED = OBJ('AlignedPair', 'NotAlignedQueryPosition', 'NotAlignedReferencePosition')
SCORED = OBJ('ScoredAlignedPair', 'ScoredNotAlignedPosition')
SEG = OBJ('AlignmentSegment', 'EmptyAlignmentSegment')
PEAK = OBJ('Peak')
OMAP = OBJ('OpticalMap')

SCHEMA = {
    'PositionWithSiteId': {'siteId': INT, 'position': REAL},
    'OpticalMap': {'moleculeId': INT, 'length': REAL, 'positions': LIST(REAL), 'shift': INT},
    'Peak': {'position': REAL, 'height': REAL, 'leftProminenceBasePosition': REAL,
             'rightProminenceBasePosition': REAL, 'score': REAL},
    'AlignedPair': {'reference': PWS, 'query': PWS, 'queryShift': REAL, 'source': INT},
    'ScoredAlignmentPosition': {'score': REAL},
    'NotAlignedQueryPosition': {'query': PWS, 'referenceStart': REAL},
    'NotAlignedReferencePosition': {'reference': PWS},
    'ScoredNotAlignedPosition': {'position': NAP},
    'AlignmentSegment': {'positions': LIST(SCORED), 'segmentScore': REAL, 'alignedPositions': LIST(OBJ('ScoredAlignedPair')),
                         'peak': PEAK, 'allPeakPositions': LIST(SCORED)},
    '_AlignmentSegmentBuilder': {'minScore': REAL, 'breakSegmentThreshold': REAL, 'positions': LIST(SCORED),
                                 'peak': PEAK, 'currentSegmentStart': INT, 'extendedSegmentEndPosition': INT,
                                 'extendedSegmentScore': REAL, 'currentSegment': SEG, 'resultSegments': LIST(SEG)},
    'AlignmentSegmentsFactory': {'minScore': REAL, 'breakSegmentThreshold': REAL},
    'AlignmentPositionScorer': {'perfectMatchScore': REAL, 'distancePenaltyMultiplier': REAL, 'unmatchedPenalty': REAL},
    'AlignerEngine': {'maxDistance': REAL, 'iteration': INT},
    'SequentialityScorer': {'segmentJoinMultiplier': REAL, 'sequentialityScore': INT},
    'SegmentChainer': {'sequentialityScorer': OBJ('SequentialityScorer')},
    '_SegmentPair': {'leftSegment': SEG, 'rightSegment': SEG},
    '_SegmentPairWithConflict': {'leftConflictingSubsegment': SEG, 'rightConflictingSubsegment': SEG},
    '_ConflictingSegmentCharacteristics': {'positions': LIST(PWS), 'scores': LIST(REAL), 'indexes': LIST(INT)},
    'PeaksSelector': {'count': INT},
    'BionanoAlignment': {'alignmentId': INT, 'queryId': INT, 'referenceId': INT, 'queryStartPosition': INT, 'queryEndPosition': INT,
                         'referenceStartPosition': INT, 'referenceEndPosition': INT, 'reverseStrand': BOOL, 'confidence': REAL,
                         'cigarString': STR, 'queryLength': INT, 'referenceLength': INT, 'alignedPairs': LIST(OBJ('BenchmarkAlignedPair'))},
    'BenchmarkAlignmentPosition': {'siteId': INT, 'position': REAL},
    'BenchmarkAlignedPair': {'reference': OBJ('BenchmarkAlignmentPosition'), 'query': OBJ('BenchmarkAlignmentPosition')},
    'BenchmarkAlignedPairWithDistance': {'distance': REAL},
    'AlignmentRowComparison': {'type': ENUM('AlignmentRowComparisonResultType'), 'identity': REAL, 'alignment1Coverage': REAL,
                               'alignment2Coverage': REAL, 'alignment1': OBJ('BionanoAlignment'), 'alignment2': OBJ('BionanoAlignment'),
                               'alignment1ExclusivePairs': LIST(OBJ('BenchmarkAlignedPair', 'BenchmarkAlignedPairWithDistance')),
                               'alignment2ExclusivePairs': LIST(OBJ('BenchmarkAlignedPair', 'BenchmarkAlignedPairWithDistance'))},
    'AlignmentRowComparer': {'combineMultipleQuerySources': BOOL},
    'AlignmentComparison': {'avgOverlappingAlignment1Coverage': REAL, 'avgOverlappingAlignment2Coverage': REAL, 'avgOverlappingIdentity': REAL,
                            'overlapping': INT, 'nonOverlapping': INT, 'firstOnly': INT, 'secondOnly': INT,
                            'rows': LIST(OBJ('AlignmentRowComparison'))},
    'InitialAlignment': {},
    'EmptyInitialAlignment': {},
    'SelectedPeak': {'primaryCorrelation': OBJ('InitialAlignment', 'EmptyInitialAlignment'), 'peak': PEAK},
    'CorrelationResult': {'peaks': LIST(PEAK), 'query': OMAP, 'reference': OMAP, 'reverseStrand': BOOL,
                          'resolution': INT, 'blur': INT, 'correlation': LIST(REAL), 'peakBaseLevel': OPT(REAL), 'correlationStart': REAL,
                          'correlationEnd': OPT(REAL)},
    'AlignmentResultRow': {'queryId': INT, 'referenceId': INT, 'queryStartPosition': REAL, 'queryEndPosition': REAL,
                           'referenceStartPosition': REAL, 'referenceEndPosition': REAL, 'reverseStrand': BOOL,
                           'confidence': REAL, 'queryLength': REAL, 'referenceLength': REAL, 'segments': LIST(SEG),
                           'alignedRest': BOOL,
                           # ghost mirror of the read-only property `alignedPairs` (see specs/hitenum.py)
                           'alignedPairs': LIST(PAIR)},
    'AlignmentSegmentsWithResolvedConflicts': {'segments': LIST(SEG)},
    'MultipleAlignmentResultRowsMessage': {'messages': LIST(OBJ('AlignmentResultRowMessage'))},
    'InitialAlignmentMessage': {'data': OBJ('InitialAlignment', 'EmptyInitialAlignment', 'CorrelationResult')},
    'CorrelationResultMessage': {'initialAlignment': OBJ('InitialAlignment', 'EmptyInitialAlignment'), 'refinedAlignment': OBJ('CorrelationResult'), 'index': INT},
    'AlignmentResultRowMessage': {'reference': OMAP, 'query': OMAP, 'alignment': OBJ('AlignmentResultRow'),
                                  'correlation': OBJ('InitialAlignment', 'EmptyInitialAlignment'), 'index': INT},
    '_WorkflowCoordinator': {'peaksSelector': OBJ('PeaksSelector'), 'dispatcher': OBJ('Dispatcher'), 'aligner': OBJ('Aligner'), 'args': OBJ('Args'),
                             'primaryGenerator': OBJ('SequenceGenerator'), 'secondaryGenerator': OBJ('SequenceGenerator')},
    '_MultiPassWorkflowCoordinator': {'xmapReader': OBJ('XmapReader')},
    'Aligner': {'scorer': OBJ('AlignmentPositionScorer'), 'segmentsFactory': OBJ('AlignmentSegmentsFactory'), 'alignmentEngine': OBJ('AlignerEngine'),
                'segmentConflictResolver': OBJ('AlignmentSegmentConflictResolver')},
    'AlignmentSegmentConflictResolver': {'segmentChainer': OBJ('SegmentChainer')},
    'WorkflowCoordinatorFactory': {'args': OBJ('Args'), 'dispatcher': OBJ('Dispatcher'), 'xmapReader': OBJ('XmapReader')},
    'Args': {'primaryResolution': INT, 'primaryBlur': INT, 'secondaryResolution': INT, 'secondaryBlur': INT, 'secondaryMargin': INT,
             'minPeakDistance': INT, 'maxPairDistance': REAL, 'peakHeightThreshold': REAL, 'perfectMatchScore': REAL, 'distancePenaltyMultiplier': REAL,
             'unmatchedPenalty': REAL, 'minScore': REAL, 'breakSegmentThreshold': REAL, 'maxDifference': REAL, 'peaksCount': INT, 'outputMode': STR,
             'segmentJoinMultiplier': REAL, 'sequentialityScore': INT, 'numberOfCpus': OPT(INT), 'disableProgressBar': BOOL,
             'referenceFile': OBJ('TextIO'), 'queryFile': OBJ('TextIO'), 'outputFile': OBJ('TextIO'), 'referenceIds': OPT(LIST(INT)), 'queryIds': OPT(LIST(INT))},
    'SequenceGenerator': {'resolution': INT, 'blurRadius': INT},
    'Program': {'args': OBJ('Args'), 'referenceMaps': LIST(OMAP), 'queryMaps': LIST(OMAP), 'xmapReader': OBJ('XmapReader'), 'dispatcher': OBJ('Dispatcher'),
                'workflowCoordinator': OBJ('_WorkflowCoordinator', '_MultiPassWorkflowCoordinator')},
    'TextIO': {'name': STR},
    'BionanoFileReader': {'headersLinePrefix': STR},
    'CmapReader': {'reader': OPT(OBJ('BionanoFileReader'))},
    'AlignmentResults': {'referenceFilePath': STR, 'queryFilePath': STR, 'rows': LIST(OBJ('AlignmentResultRow'))},
}


# ------------------------------------------------------------------ class invariants (immutable classes)
# Each invariant is an obligation of the class's __init__ (specs/segments_factory.py: segment_init, empty_segment_init) and is then available,
# as a type invariant, for every object of the class (and of its subclasses).
def _inv_segment(e, o):
    import z3
    P = o.positions
    T = z3.Int('ciT')
    el = P[T - P.off]
    return z3.ForAll([T], z3.Implies(z3.And(P.off <= T, T < P.off + P.len, el.isa('ScoredAlignedPair')), o.alignedPositions.len >= 1),
                     patterns=[P.raw(T - P.off).t])


def _inv_empty_segment(e, o):
    import z3
    return z3.And(o.positions.len == 0, o.alignedPositions.len == 0, o.segmentScore == 0)


def _inv_optical_map(e, o):
    """a map has at least one label, its label coordinates ascend and are not negative (the CMAP reader skips label-less molecules and sorts the coordinates - bounded,
    C17; every OpticalMap(...) constructed in verified code - trim, the second-pass fragments - is an obligation at that constructor call)"""
    import z3
    from pyvc.kinds import MP
    P = o.positions
    arr = P.v.arrs[0]
    T, U = z3.Int('ciT'), z3.Int('ciU')
    return z3.And(P.len >= 1, z3.Select(arr, P.off) >= 0, z3.ForAll([T, U], z3.Implies(z3.And(P.off <= T, T <= U, U < P.off + P.len), z3.Select(arr, T) <= z3.Select(arr, U)),
                                        patterns=[MP(z3.Select(arr, T), z3.Select(arr, U))]))


# (invariant, triggers): the axiom is instantiated for an object only where one of the trigger terms (a field the invariant constrains) occurs
CLASS_INVARIANTS = {'AlignmentSegment': (_inv_segment, lambda e, o: [o.alignedPositions.len]),
                    'EmptyAlignmentSegment': (_inv_empty_segment, lambda e, o: [o.positions.len, o.alignedPositions.len, o.segmentScore]),
                    'OpticalMap': (_inv_optical_map, lambda e, o: [o.positions.len])}
# classes without an __init__ of their own (dataclasses): the invariant is an obligation at every constructor call in verified code
CONSTRUCTOR_SITE_INVARIANTS = {'OpticalMap'}
