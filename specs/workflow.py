"""Contracts for the per-query glue of src/workflow_coordinator.py (C07 exception-freedom, C05 selection)."""
import z3
from pyvc.kinds import *
from pyvc.dsl import FunctionSpec, Loop, forall, rng

F = 'src/workflow_coordinator.py'
WC = OBJ('_WorkflowCoordinator', '_MultiPassWorkflowCoordinator')
CORR = OBJ('InitialAlignment', 'EmptyInitialAlignment')
ROW = OBJ('AlignmentResultRow')
OMAP = OBJ('OpticalMap')
SP = OBJ('SelectedPeak')
MSG = OBJ('AlignmentResultRowMessage')

def _gpc_log(which):
    def h(L):
        e = L._e
        a, kw = L.callargs, L.callkwargs
        # (receiver is not in callargs: reference, generator, minPeakDistance, peaksCount[, reverseStrand])
        L.set('ref' + which, a[0].t)
        L.set('gen' + which, a[1].t)
        L.set('mpd' + which, e.num(a[2]))
        L.set('cnt' + which, e.num(a[3]))
        extra = sorted(k for k in kw if k != 'reverseStrand')
        L.set('plain' + which, z3.BoolVal(len(a) == 4 and not extra))
        rs = kw.get('reverseStrand')
        L.set('rev' + which, e.truth(L._st, rs) if rs is not None else z3.BoolVal(False))
        L.set('res' + which, L.result.ref)
    return h


def _config_primary(C):
    me = C.self
    return [('primary_generator_and_peak_count_are_usable', z3.And(me.primaryGenerator.resolution >= 1, me.primaryGenerator.blurRadius >= 0, me.args.peaksCount >= 0))]


def _gpc_ensures(C, res):
    k = z3.Int('gpk')
    about = ('every_yielded_correlation_is_about_this_query_and_this_reference_and_has_a_peak', forall(k, z3.Implies(rng(0, k, res.len), z3.And(
        res[k].query.ref == C.queryMap.ref, res[k].reference.ref == C.referenceMap.ref, res[k].peaks.len >= 1)), [res.raw(k).t]))
    if not C.proving:
        return [about]
    F_ = C.F
    me = C.self
    k = z3.Int('gpk')
    same = lambda w: z3.And(F_['ref' + w] == C.referenceMap.ref, F_['gen' + w] == me.primaryGenerator.ref, F_['mpd' + w] == me.args.minPeakDistance,
                            F_['cnt' + w] == me.args.peaksCount, F_['plain' + w])
    return [about, ('both_strands_are_seeded_with_the_same_reference_generator_distance_and_count_and_nothing_else', z3.And(same('1'), same('2'))),
            ('first_the_forward_strand_then_the_reverse_strand', z3.And(z3.Not(F_.rev1), F_.rev2)),
            ('yields_the_forward_result_then_the_reverse_result_each_only_if_it_has_peaks', z3.And(
                res.len <= 2, forall(k, z3.Implies(rng(0, k, res.len), z3.Or(res.raw(k).t == F_.res1, res.raw(k).t == F_.res2)), [res.raw(k).t]),
                z3.Implies(res.len == 2, z3.And(res.raw(0).t == F_.res1, res.raw(1).t == F_.res2)))),
            ('every_result_that_has_a_peak_is_passed_on_whatever_its_score', _passed_on(C, res, F_))]


def _passed_on(C, res, F_):
    from pyvc.dsl import ObjView
    has = lambda t: ObjView(C._e, C._st, VObj(t, CORR.classes)).peaks.len >= 1
    p1, p2 = has(F_.res1), has(F_.res2)
    return z3.And(res.len == z3.If(p1, 1, 0) + z3.If(p2, 1, 0),
                  z3.Implies(p1, res.raw(0).t == F_.res1), z3.Implies(z3.And(z3.Not(p1), p2), res.raw(0).t == F_.res2))


_r0 = lambda C: z3.Const('gpc_none', Ref)
getPrimaryCorrelations = FunctionSpec(
    file=F, qualname='_WorkflowCoordinator.__getPrimaryCorrelations', params=dict(self=WC, referenceMap=OMAP, queryMap=OMAP),
    yields=CORR, requires=_config_primary, ensures=_gpc_ensures, class_invariants=True, serves=('C07', 'C11', 'C06', 'C02'),
    ghost={n + w: (lambda C: z3.Const('gpc_none', Ref)) if n in ('ref', 'gen', 'res') else ((lambda C: z3.IntVal(-1)) if n in ('mpd', 'cnt') else (lambda C: z3.BoolVal(False)))
           for n in ('ref', 'gen', 'mpd', 'cnt', 'plain', 'rev', 'res') for w in ('1', '2')},
    ghost_at={'call:getInitialAlignment#0': _gpc_log('1'), 'call:getInitialAlignment#1': _gpc_log('2')},
    note="seeding of one query against one reference: the forward and the reverse strand are correlated with the SAME reference, generator, minPeakDistance and "
         "peaksCount and no further argument (the strands are treated alike - what C11 needs from this glue); each result is passed on only if it has peaks, "
         "forward first. The correlation itself (getInitialAlignment) is an assumed contract")

def _config_secondary(C):
    me = C.self
    return [('secondary_generator_is_usable', z3.And(me.secondaryGenerator.resolution >= 1, me.secondaryGenerator.blurRadius >= 0))]


def _gsc_log(L):
    a = L.callargs
    L.set('rf_peak', L._e.num(a[0]))
    L.set('rf_gen', a[1].t)
    L.set('rf_margin', L._e.num(a[2]))
    L.set('rf_thr', L._e.num(a[3]))


def _gsc_ensures(C, res):
    pc, sc = res
    sp = C.selectedPeak
    cl = [('the_seed_s_own_primary_correlation_is_refined_and_returned_with_the_result', pc.ref == sp.primaryCorrelation.ref),
          ('the_refined_result_is_about_the_same_maps_and_strand', z3.And(sc.query.ref == sp.primaryCorrelation.query.ref,
                                                                           sc.reference.ref == sp.primaryCorrelation.reference.ref,
                                                                           sc.reverseStrand == sp.primaryCorrelation.reverseStrand))]
    if C.proving:
        F_, me = C.F, C.self
        cl += [('refined_around_the_selected_peak_with_the_secondary_generator_and_the_configured_margin_and_threshold', z3.And(
            F_.rf_peak == sp.peak.position, F_.rf_gen == me.secondaryGenerator.ref, F_.rf_margin == me.args.secondaryMargin,
            F_.rf_thr == me.args.peakHeightThreshold))]
    return cl


getSecondaryCorrelation = FunctionSpec(
    file=F, qualname='_WorkflowCoordinator.__getSecondaryCorrelation', params=dict(self=WC, selectedPeak=SP, index=INT),
    returns=TUPLE(CORR, OBJ('CorrelationResult')), requires=_config_secondary, ensures=_gsc_ensures, class_invariants=True, serves=('C07', 'C06', 'C02'),
    ghost={'rf_peak': lambda C: z3.RealVal(-1), 'rf_gen': lambda C: z3.Const('gsc_none', Ref), 'rf_margin': lambda C: z3.RealVal(-1), 'rf_thr': lambda C: z3.RealVal(-1)},
    ghost_at={'call:refine#0': _gsc_log},
    note="refinement of one selected seed: its OWN primary correlation is refined around the seed's position with the secondary generator and the configured margin "
         "and threshold; the result is about the same maps and strand (InitialAlignment.refine, under contract; its preconditions follow from the map invariant)")


def _gar_ensures(C, res):
    row, msg = res
    sc = C.sc
    return [('the_candidate_row_names_the_maps_and_strand_of_the_refined_correlation', z3.And(
        row.queryId == sc.query.moleculeId, row.referenceId == sc.reference.moleculeId, row.reverseStrand == sc.reverseStrand,
        row.queryLength == sc.query.length, row.referenceLength == sc.reference.length))]


getAlignmentRow = FunctionSpec(
    file=F, qualname='_WorkflowCoordinator.__getAlignmentRow', params=dict(self=WC, ic=CORR, sc=OBJ('CorrelationResult'), index=INT),
    returns=TUPLE(ROW, MSG), trusted=True, ensures=_gar_ensures, serves=('C07',),
    note="ASSUMED at its call site in __align as far as EXCEPTION FREEDOM goes (Aligner.align is under a partial-correctness contract; bounded: C07); its "
         "functional content - the row names the maps and strand of the refined correlation - is proved in the variant #checked")
getAlignmentRowChecked = FunctionSpec(
    file=F, qualname='_WorkflowCoordinator.__getAlignmentRow', variant='checked', params=dict(self=WC, ic=CORR, sc=OBJ('CorrelationResult'), index=INT),
    returns=TUPLE(ROW, MSG), ensures=_gar_ensures, may_raise={'IndexError'}, class_invariants=True, verify_only=True, serves=('C07', 'C02', 'C04'),
    requires=lambda C: [('configuration', z3.And(C.self.aligner.alignmentEngine.maxDistance >= 0, C.self.aligner.scorer.unmatchedPenalty <= 0,
                                                 C.self.aligner.segmentsFactory.minScore > 0))],
    note="(partial correctness) the candidate of one refined seed is Aligner.align on the refined correlation's reference, query, peaks and strand: the row names "
         "those maps and that strand; Aligner.align's preconditions follow from the map invariant and the configuration")

dispatch = FunctionSpec(
    file='src/extensions/dispatcher.py', qualname='Dispatcher.dispatch', params=dict(self=OBJ('Dispatcher'), message=OBJ('MultipleAlignmentResultRowsMessage', 'InitialAlignmentMessage', 'CorrelationResultMessage', 'AlignmentResultRowMessage')),
    returns=NONE, trusted=True, serves=('C07',), note="extension dispatch: no effect on the result")


def _best_ensures(C, res):
    R = C.alignmentResultRows
    k = z3.Int('k')
    return [('none_exactly_when_no_candidate', res.none == (R.len == 0)),
            ('result_is_a_candidate_of_maximal_confidence', z3.Implies(R.len > 0, z3.And(
                forall(k, z3.Implies(rng(0, k, R.len), res.val.confidence >= R[k].confidence), [R.raw(k).t]),
                z3.Exists([k], z3.And(rng(0, k, R.len), res.val.ref == R.raw(k).t)))))]


getBestAlignment = FunctionSpec(
    file=F, qualname='_WorkflowCoordinator.__getBestAlignment', params=dict(alignmentResultRows=LIST(ROW)), returns=OPT(ROW),
    ensures=_best_ensures, serves=('C05', 'C07'),
    note="the candidate of maximal confidence (None for an empty candidate list)")

ALIGNREF = z3.Function('row_reference_index', Ref, z3.IntSort())


def _row_names_its_maps(C, res):
    R = C.referenceMaps
    kk = z3.Int('ark')
    if C.proving:
        named = z3.Exists([kk], z3.And(0 <= kk, kk < R.len, R[kk].moleculeId == res.val.referenceId))
    else:
        w = ALIGNREF(res.val.ref)
        named = z3.And(0 <= w, w < R.len, R[w].moleculeId == res.val.referenceId)
    return ('the_record_names_this_query_and_one_of_the_references', z3.Implies(z3.Not(res.none), z3.And(res.val.queryId == C.queryMap.moleculeId, named)))


def _align_ensures(C, res):
    if not (C.has('F') and C.F.has('bestPrimaryCorrelationPeaks')):
        return [_row_names_its_maps(C, res)]
    Fv = C.F
    seeds, sec, cand = Fv.bestPrimaryCorrelationPeaks, Fv.secondaryCorrelations, Fv.rowsWithMessages
    cl = [_row_names_its_maps(C, res),
          ('every_selected_seed_is_refined_and_aligned_into_one_candidate', z3.And(sec.len == seeds.len, cand.len == seeds.len)),
          ('at_most_peaksCount_seeds', seeds.len <= C.self.peaksSelector.count),
          ('no_record_exactly_when_no_seed_was_selected', res.none == (seeds.len == 0))]
    if Fv.has('alignmentResultRows'):
        rows = Fv.alignmentResultRows
        k = z3.Int('alk')
        cl += [('one_candidate_row_per_seed', rows.len == seeds.len),
               ('the_result_is_a_candidate_of_maximal_confidence', z3.And(
                   forall(k, z3.Implies(rng(0, k, rows.len), res.val.confidence >= rows[k].confidence), [rows.raw(k).t]),
                   z3.Exists([k], z3.And(rng(0, k, rows.len), res.val.ref == rows.raw(k).t))))]
    return cl


align = FunctionSpec(
    file=F, qualname='_WorkflowCoordinator.__align', params=dict(self=WC, referenceMaps=LIST(OMAP), queryMap=OMAP), returns=OPT(ROW),
    requires=lambda C: [('peak_count_nonnegative', C.self.peaksSelector.count >= 0)] + _config_primary(C) + _config_secondary(C),
    ensures=lambda C, res: _align_ensures(C, res), class_invariants=True,
    serves=('C07', 'C05'),
    note="exception-freedom of the per-query glue (in particular the unpacking of zip(*rows) needs at least one candidate row); every selected seed - at most "
         "peaksCount, the highest-scoring ones - is refined and aligned into exactly one candidate, and the result is a candidate of maximal confidence (None "
         "exactly when no seed was selected)",
)

SPECS = [getPrimaryCorrelations, getSecondaryCorrelation, getAlignmentRow, getAlignmentRowChecked, dispatch, getBestAlignment, align]


# ------------------------------------------------------------------ _WorkflowCoordinator.execute (one work item per query, ordered map, filter)
EXQ = z3.Function('row_query_index', z3.ArraySort(z3.IntSort(), Ref), z3.IntSort(), z3.IntSort())


def _exec_ensures(C, res):
    k, k2, kk = z3.Int('exk'), z3.Int('exk2'), z3.Int('exr')
    Q, R = C.queryMaps, C.referenceMaps
    if C.proving:
        q_of = C.note('filter_log')[-1]['idx']           # result row k comes from work item idx(k) = query idx(k)
        ref_named = lambda k: z3.Exists([kk], z3.And(0 <= kk, kk < R.len, R[kk].moleculeId == res[k].referenceId))
    else:
        q_of = lambda k: EXQ(res.v.arrs[0], k)
        ref_named = lambda k: z3.And(0 <= ALIGNREF(res.raw(k).t), ALIGNREF(res.raw(k).t) < R.len, R[ALIGNREF(res.raw(k).t)].moleculeId == res[k].referenceId)
    pat = {} if C.proving else dict(patterns=[res.raw(k).t])
    cl = [('at_most_one_row_per_query', res.len <= Q.len),
          ('every_returned_row_has_at_least_one_pair', forall(k, z3.Implies(rng(0, k, res.len), res[k].alignedPairs.len > 0), [res.raw(k).t])),
          ('every_row_names_one_of_the_queries_and_one_of_the_references', z3.ForAll([k], z3.Implies(z3.And(0 <= k, k < res.len), z3.And(
              0 <= q_of(k), q_of(k) < Q.len, res[k].queryId == Q[q_of(k)].moleculeId, ref_named(k))), **pat)),
          ('rows_come_in_the_order_of_the_queries_each_query_at_most_once', z3.ForAll([k, k2], z3.Implies(z3.And(0 <= k, k < k2, k2 < res.len), q_of(k) < q_of(k2)),
                                                                                   **({} if C.proving else dict(patterns=[MP(q_of(k), q_of(k2))]))))]
    return cl


execute = FunctionSpec(
    file=F, qualname='_WorkflowCoordinator.execute', params=dict(self=WC, referenceMaps=LIST(OMAP), queryMaps=LIST(OMAP)), returns=LIST(ROW),
    requires=lambda C: [('peak_count_nonnegative', C.self.peaksSelector.count >= 0),
                        ('cpus_option_absent_or_positive', z3.Or(C.self.args.numberOfCpus.none, C.self.args.numberOfCpus.val >= 1))] + _config_primary(C) + _config_secondary(C),
    ensures=_exec_ensures, class_invariants=True, serves=('C07', 'C05', 'C09', 'C10', 'C02'),
    note="one work item (referenceMaps, q) per query, mapped in order through __align by p_imap (assumed ordered for every worker count; its precondition - "
         "worker count None or >= 1 - is an obligation here), rows that are None or have no pair are dropped: at most one row per query, each with a pair")

SPECS += [execute]
