"""Contracts for the per-query glue of src/workflow_coordinator.py (C07 exception-freedom, C05 selection)."""
import z3
from pyvc.kinds import *
from pyvc.dsl import FunctionSpec, Loop, forall, rng

F = 'src/workflow_coordinator.py'
WC = OBJ('_WorkflowCoordinator', '_MultiPassWorkflowCoordinator')
CORR = OBJ('InitialAlignment', 'EmptyInitialAlignment')
ROW = OBJ('AlignmentResultRow')
OMAP = OBJ('OpticalMap')
SP = OBJ('SelectedPeak')
MSG = OBJ('AlignmentResultRowMessage')

getInitialAlignment = FunctionSpec(
    file='src/correlation/optical_map.py', qualname='OpticalMap.getInitialAlignment',
    params=dict(self=OMAP, reference=OMAP, sequenceGenerator=OBJ('SequenceGenerator'), minPeakDistance=INT, peaksCount=INT, reverseStrand=BOOL), returns=CORR,
    trusted=True, serves=('C11', 'C06'),
    note="ASSUMED (FFT correlation, normalisation, scipy find_peaks): the primary correlation of a query with one reference on one strand; only its type is used")


def _gpc_log(which):
    def h(L):
        e = L._e
        a, kw = L.callargs, L.callkwargs
        # (receiver is not in callargs: reference, generator, minPeakDistance, peaksCount[, reverseStrand])
        L.set('ref' + which, a[0].t)
        L.set('gen' + which, a[1].t)
        L.set('mpd' + which, e.num(a[2]))
        L.set('cnt' + which, e.num(a[3]))
        extra = sorted(k for k in kw if k != 'reverseStrand')
        L.set('plain' + which, z3.BoolVal(len(a) == 4 and not extra))
        rs = kw.get('reverseStrand')
        L.set('rev' + which, e.truth(L._st, rs) if rs is not None else z3.BoolVal(False))
        L.set('res' + which, L.result.ref)
    return h


def _gpc_ensures(C, res):
    if not C.proving:
        return []
    F_ = C.F
    me = C.self
    k = z3.Int('gpk')
    same = lambda w: z3.And(F_['ref' + w] == C.referenceMap.ref, F_['gen' + w] == me.primaryGenerator.ref, F_['mpd' + w] == me.args.minPeakDistance,
                            F_['cnt' + w] == me.args.peaksCount, F_['plain' + w])
    return [('both_strands_are_seeded_with_the_same_reference_generator_distance_and_count_and_nothing_else', z3.And(same('1'), same('2'))),
            ('first_the_forward_strand_then_the_reverse_strand', z3.And(z3.Not(F_.rev1), F_.rev2)),
            ('yields_the_forward_result_then_the_reverse_result_each_only_if_it_has_peaks', z3.And(
                res.len <= 2, forall(k, z3.Implies(rng(0, k, res.len), z3.Or(res.raw(k).t == F_.res1, res.raw(k).t == F_.res2)), [res.raw(k).t]),
                z3.Implies(res.len == 2, z3.And(res.raw(0).t == F_.res1, res.raw(1).t == F_.res2))))]


_r0 = lambda C: z3.Const('gpc_none', Ref)
getPrimaryCorrelations = FunctionSpec(
    file=F, qualname='_WorkflowCoordinator.__getPrimaryCorrelations', params=dict(self=WC, referenceMap=OMAP, queryMap=OMAP),
    yields=CORR, ensures=_gpc_ensures, serves=('C07', 'C11', 'C06'),
    ghost={n + w: (lambda C: z3.Const('gpc_none', Ref)) if n in ('ref', 'gen', 'res') else ((lambda C: z3.IntVal(-1)) if n in ('mpd', 'cnt') else (lambda C: z3.BoolVal(False)))
           for n in ('ref', 'gen', 'mpd', 'cnt', 'plain', 'rev', 'res') for w in ('1', '2')},
    ghost_at={'call:getInitialAlignment#0': _gpc_log('1'), 'call:getInitialAlignment#1': _gpc_log('2')},
    note="seeding of one query against one reference: the forward and the reverse strand are correlated with the SAME reference, generator, minPeakDistance and "
         "peaksCount and no further argument (the strands are treated alike - what C11 needs from this glue); each result is passed on only if it has peaks, "
         "forward first. The correlation itself (getInitialAlignment) is an assumed contract")

getSecondaryCorrelation = FunctionSpec(
    file=F, qualname='_WorkflowCoordinator.__getSecondaryCorrelation', params=dict(self=WC, selectedPeak=SP, index=INT),
    returns=TUPLE(CORR, OBJ('CorrelationResult')), trusted=True, serves=('C07',),
    note="numerical refinement: outside the verifier; returns a pair")

getAlignmentRow = FunctionSpec(
    file=F, qualname='_WorkflowCoordinator.__getAlignmentRow', params=dict(self=WC, ic=CORR, sc=OBJ('CorrelationResult'), index=INT),
    returns=TUPLE(ROW, MSG), trusted=True, serves=('C07',),
    note="Aligner.align on the refined peaks: returns (row, message)")

dispatch = FunctionSpec(
    file='src/extensions/dispatcher.py', qualname='Dispatcher.dispatch', params=dict(self=OBJ('Dispatcher'), message=OBJ('MultipleAlignmentResultRowsMessage', 'InitialAlignmentMessage', 'CorrelationResultMessage', 'AlignmentResultRowMessage')),
    returns=NONE, trusted=True, serves=('C07',), note="extension dispatch: no effect on the result")


def _best_ensures(C, res):
    R = C.alignmentResultRows
    k = z3.Int('k')
    return [('none_exactly_when_no_candidate', res.none == (R.len == 0)),
            ('result_is_a_candidate_of_maximal_confidence', z3.Implies(R.len > 0, z3.And(
                forall(k, z3.Implies(rng(0, k, R.len), res.val.confidence >= R[k].confidence), [R.raw(k).t]),
                z3.Exists([k], z3.And(rng(0, k, R.len), res.val.ref == R.raw(k).t)))))]


getBestAlignment = FunctionSpec(
    file=F, qualname='_WorkflowCoordinator.__getBestAlignment', params=dict(alignmentResultRows=LIST(ROW)), returns=OPT(ROW),
    ensures=_best_ensures, serves=('C05', 'C07'),
    note="the candidate of maximal confidence (None for an empty candidate list)")

def _align_ensures(C, res):
    if not (C.has('F') and C.F.has('bestPrimaryCorrelationPeaks')):
        return []
    Fv = C.F
    seeds, sec, cand = Fv.bestPrimaryCorrelationPeaks, Fv.secondaryCorrelations, Fv.rowsWithMessages
    cl = [('every_selected_seed_is_refined_and_aligned_into_one_candidate', z3.And(sec.len == seeds.len, cand.len == seeds.len)),
          ('at_most_peaksCount_seeds', seeds.len <= C.self.peaksSelector.count),
          ('no_record_exactly_when_no_seed_was_selected', res.none == (seeds.len == 0))]
    if Fv.has('alignmentResultRows'):
        rows = Fv.alignmentResultRows
        k = z3.Int('alk')
        cl += [('one_candidate_row_per_seed', rows.len == seeds.len),
               ('the_result_is_a_candidate_of_maximal_confidence', z3.And(
                   forall(k, z3.Implies(rng(0, k, rows.len), res.val.confidence >= rows[k].confidence), [rows.raw(k).t]),
                   z3.Exists([k], z3.And(rng(0, k, rows.len), res.val.ref == rows.raw(k).t))))]
    return cl


align = FunctionSpec(
    file=F, qualname='_WorkflowCoordinator.__align', params=dict(self=WC, referenceMaps=LIST(OMAP), queryMap=OMAP), returns=OPT(ROW),
    requires=lambda C: [('peak_count_nonnegative', C.self.peaksSelector.count >= 0)],
    ensures=lambda C, res: _align_ensures(C, res),
    serves=('C07', 'C05'),
    note="exception-freedom of the per-query glue (in particular the unpacking of zip(*rows) needs at least one candidate row); every selected seed - at most "
         "peaksCount, the highest-scoring ones - is refined and aligned into exactly one candidate, and the result is a candidate of maximal confidence (None "
         "exactly when no seed was selected)",
)

SPECS = [getInitialAlignment, getPrimaryCorrelations, getSecondaryCorrelation, getAlignmentRow, dispatch, getBestAlignment, align]


# ------------------------------------------------------------------ _WorkflowCoordinator.execute (one work item per query, ordered map, filter)
def _exec_ensures(C, res):
    k = z3.Int('exk')
    Q = C.queryMaps
    cl = [('at_most_one_row_per_query', res.len <= Q.len),
          ('every_returned_row_has_at_least_one_pair', forall(k, z3.Implies(rng(0, k, res.len), res[k].alignedPairs.len > 0), [res.raw(k).t]))]
    return cl


execute = FunctionSpec(
    file=F, qualname='_WorkflowCoordinator.execute', params=dict(self=WC, referenceMaps=LIST(OMAP), queryMaps=LIST(OMAP)), returns=LIST(ROW),
    requires=lambda C: [('peak_count_nonnegative', C.self.peaksSelector.count >= 0),
                        ('cpus_option_absent_or_positive', z3.Or(C.self.args.numberOfCpus.none, C.self.args.numberOfCpus.val >= 1))],
    ensures=_exec_ensures, serves=('C07', 'C05', 'C09', 'C10'),
    note="one work item (referenceMaps, q) per query, mapped in order through __align by p_imap (assumed ordered for every worker count; its precondition - "
         "worker count None or >= 1 - is an obligation here), rows that are None or have no pair are dropped: at most one row per query, each with a pair")

SPECS += [execute]
