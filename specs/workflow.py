"""Contracts for the per-query glue of src/workflow_coordinator.py (C07 exception-freedom, C05 selection)."""
import z3
from pyvc.kinds import *
from pyvc.dsl import FunctionSpec, Loop, forall, rng

F = 'src/workflow_coordinator.py'
WC = OBJ('_WorkflowCoordinator', '_MultiPassWorkflowCoordinator')
CORR = OBJ('InitialAlignment', 'EmptyInitialAlignment')
ROW = OBJ('AlignmentResultRow')
OMAP = OBJ('OpticalMap')
SP = OBJ('SelectedPeak')
MSG = OBJ('AlignmentResultRowMessage')

getPrimaryCorrelations = FunctionSpec(
    file=F, qualname='_WorkflowCoordinator.__getPrimaryCorrelations', params=dict(self=WC, referenceMap=OMAP, queryMap=OMAP),
    yields=CORR, trusted=True, serves=('C07',),
    note="numerical seeding (FFT correlation, scipy find_peaks): outside the verifier; only the result type is assumed")

getSecondaryCorrelation = FunctionSpec(
    file=F, qualname='_WorkflowCoordinator.__getSecondaryCorrelation', params=dict(self=WC, selectedPeak=SP, index=INT),
    returns=TUPLE(CORR, OBJ('CorrelationResult')), trusted=True, serves=('C07',),
    note="numerical refinement: outside the verifier; returns a pair")

getAlignmentRow = FunctionSpec(
    file=F, qualname='_WorkflowCoordinator.__getAlignmentRow', params=dict(self=WC, ic=CORR, sc=OBJ('CorrelationResult'), index=INT),
    returns=TUPLE(ROW, MSG), trusted=True, serves=('C07',),
    note="Aligner.align on the refined peaks: returns (row, message)")

dispatch = FunctionSpec(
    file='src/extensions/dispatcher.py', qualname='Dispatcher.dispatch', params=dict(self=OBJ('Dispatcher'), message=OBJ('MultipleAlignmentResultRowsMessage')),
    returns=NONE, trusted=True, serves=('C07',), note="extension dispatch: no effect on the result")


def _best_ensures(C, res):
    R = C.alignmentResultRows
    k = z3.Int('k')
    return [('none_exactly_when_no_candidate', res.none == (R.len == 0)),
            ('result_is_a_candidate_of_maximal_confidence', z3.Implies(R.len > 0, z3.And(
                forall(k, z3.Implies(rng(0, k, R.len), res.val.confidence >= R[k].confidence), [R.raw(k).t]),
                z3.Exists([k], z3.And(rng(0, k, R.len), res.val.ref == R.raw(k).t)))))]


getBestAlignment = FunctionSpec(
    file=F, qualname='_WorkflowCoordinator.__getBestAlignment', params=dict(alignmentResultRows=LIST(ROW)), returns=OPT(ROW),
    ensures=_best_ensures, serves=('C05', 'C07'),
    note="the candidate of maximal confidence (None for an empty candidate list)")

def _align_ensures(C, res):
    if not (C.has('F') and C.F.has('bestPrimaryCorrelationPeaks')):
        return []
    Fv = C.F
    seeds, sec, cand = Fv.bestPrimaryCorrelationPeaks, Fv.secondaryCorrelations, Fv.rowsWithMessages
    cl = [('every_selected_seed_is_refined_and_aligned_into_one_candidate', z3.And(sec.len == seeds.len, cand.len == seeds.len)),
          ('at_most_peaksCount_seeds', seeds.len <= C.self.peaksSelector.count),
          ('no_record_exactly_when_no_seed_was_selected', res.none == (seeds.len == 0))]
    if Fv.has('alignmentResultRows'):
        rows = Fv.alignmentResultRows
        k = z3.Int('alk')
        cl += [('one_candidate_row_per_seed', rows.len == seeds.len),
               ('the_result_is_a_candidate_of_maximal_confidence', z3.And(
                   forall(k, z3.Implies(rng(0, k, rows.len), res.val.confidence >= rows[k].confidence), [rows.raw(k).t]),
                   z3.Exists([k], z3.And(rng(0, k, rows.len), res.val.ref == rows.raw(k).t))))]
    return cl


align = FunctionSpec(
    file=F, qualname='_WorkflowCoordinator.__align', params=dict(self=WC, referenceMaps=LIST(OMAP), queryMap=OMAP), returns=OPT(ROW),
    requires=lambda C: [('peak_count_nonnegative', C.self.peaksSelector.count >= 0)],
    ensures=lambda C, res: _align_ensures(C, res),
    serves=('C07', 'C05'),
    note="exception-freedom of the per-query glue (in particular the unpacking of zip(*rows) needs at least one candidate row); every selected seed - at most "
         "peaksCount, the highest-scoring ones - is refined and aligned into exactly one candidate, and the result is a candidate of maximal confidence (None "
         "exactly when no seed was selected)",
)

SPECS = [getPrimaryCorrelations, getSecondaryCorrelation, getAlignmentRow, dispatch, getBestAlignment, align]


# ------------------------------------------------------------------ _WorkflowCoordinator.execute (one work item per query, ordered map, filter)
def _exec_ensures(C, res):
    k = z3.Int('exk')
    Q = C.queryMaps
    cl = [('at_most_one_row_per_query', res.len <= Q.len),
          ('every_returned_row_has_at_least_one_pair', forall(k, z3.Implies(rng(0, k, res.len), res[k].alignedPairs.len > 0), [res.raw(k).t]))]
    return cl


execute = FunctionSpec(
    file=F, qualname='_WorkflowCoordinator.execute', params=dict(self=WC, referenceMaps=LIST(OMAP), queryMaps=LIST(OMAP)), returns=LIST(ROW),
    requires=lambda C: [('peak_count_nonnegative', C.self.peaksSelector.count >= 0),
                        ('cpus_option_absent_or_positive', z3.Or(C.self.args.numberOfCpus.none, C.self.args.numberOfCpus.val >= 1))],
    ensures=_exec_ensures, serves=('C07', 'C05', 'C09', 'C10'),
    note="one work item (referenceMaps, q) per query, mapped in order through __align by p_imap (assumed ordered for every worker count; its precondition - "
         "worker count None or >= 1 - is an obligation here), rows that are None or have no pair are dropped: at most one row per query, each with a pair")

SPECS += [execute]
