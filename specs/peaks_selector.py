"""Contract for PeaksSelector.selectPeaks (C16, C05)."""
import z3
from pyvc.kinds import *
from pyvc.dsl import FunctionSpec, Loop, forall, rng

CORR = OBJ('InitialAlignment', 'EmptyInitialAlignment')
SP = OBJ('SelectedPeak')
SEEDSRC = z3.Function('seed_source_correlation', z3.ArraySort(z3.IntSort(), Ref), z3.IntSort(), z3.IntSort())


def _ensures(C, res):
    X = C.correlations
    cnt = C.self.count
    a, b, k, k2 = z3.Int('a'), z3.Int('b'), z3.Int('k'), z3.Int('k2')
    cl = [('descending_scores', forall([k, k2], z3.Implies(z3.And(0 <= k, k <= k2, k2 < res.len),
                                                            res[k].peak.score >= res[k2].peak.score),
                                       [MP(res.raw(k).t, res.raw(k2).t)])),
          ('at_most_count', res.len <= cnt)]
    if not C.proving:
        # (Skolem form of 'every_seed_is_an_input_peak', proved below with the flattening / sorting witnesses)
        src = lambda k: SEEDSRC(res.v.arrs[0], k)
        cl.append(('every_seed_is_a_peak_of_one_of_the_given_correlations', forall(k, z3.Implies(rng(0, k, res.len), z3.And(
            0 <= src(k), src(k) < X.len, res[k].primaryCorrelation.ref == X.raw(src(k)).t, X[src(k)].peaks.len >= 1)), [res.raw(k).t])))
    e = C._e
    fl, so = C.note('last_flatten'), C.note('last_sorted')
    if C.has('F') and fl is not None and so is not None:
        # witnesses: input peak (a,b) sits at index pinv(pos(a,b)) of the sorted order; result element k comes
        # from flattened index pi(k)
        where = lambda a, b: so['pinv'](fl['pos'](a, b))
        cl.append(('every_seed_is_an_input_peak', forall(k, z3.Implies(rng(0, k, res.len), z3.And(
            0 <= fl['ci'](so['pi'](k)), fl['ci'](so['pi'](k)) < X.len,
            res[k].primaryCorrelation.ref == X.raw(fl['ci'](so['pi'](k))).t,
            res[k].peak.ref == X[fl['ci'](so['pi'](k))].peaks.raw(fl['pi'](so['pi'](k))).t,
            X[fl['ci'](so['pi'](k))].peaks.len >= 1)), [res.raw(k).t])))
        cl.append(('count_is_min_of_count_and_available', res.len == z3.If(cnt < fl['m'], cnt, fl['m'])))
        cl.append(('no_dropped_peak_scores_higher', forall([a, b, k], z3.Implies(
            z3.And(rng(0, a, X.len), rng(0, b, X[a].peaks.len), rng(0, k, res.len)),
            z3.Or(where(a, b) < res.len, res[k].peak.score >= X[a].peaks[b].score)),
            [MP(fl['pos'](a, b), res.raw(k).t)])))
    return cl


selectPeaks = FunctionSpec(
    file='src/correlation/peaks_selector.py', qualname='PeaksSelector.selectPeaks',
    params=dict(self=OBJ('PeaksSelector'), correlations=LIST(CORR)), returns=LIST(SP),
    requires=lambda C: [('count_nonnegative', C.self.count >= 0)],
    ensures=_ensures,
    serves=('C16', 'C05'),
    note="result = first `count` of the score-descending stable order of all peaks of all correlations",
)

SPECS = [selectPeaks]
