"""Contracts for src/program.py: the glue between the readers, the workflow coordinator and the XMAP writer (C09 / C10 / C07 / C17 links).

Program.__readMaps: the references are exactly what the CMAP reader returns for the reference file and the -rId list; the queries are the trimmed
image, one for one and in order, of what it returns for the query file and the -qId list (nothing dropped, nothing added).
Program.run: ONE execute call, on all references and all queries of the program; the result is the de-duplication of exactly its rows, carries the two
input file names, is written once, to the configured output file, and that file is closed unless it is the standard output.
The readers, the writer, file objects and `with <file>:` are library / assumed contracts (pandas); the coordinator is called through its verified contract.
"""
import z3
from pyvc.kinds import *
from pyvc.dsl import FunctionSpec, Loop, forall, rng
from specs.common import same_list
from specs.schema import OMAP
from specs.result_row import ROW

F = 'src/program.py'
PROG = OBJ('Program')
FILE = OBJ('TextIO')
RES = OBJ('AlignmentResults')
IDS = OPT(LIST(INT))

# ------------------------------------------------------------------ assumed: readers and writer (pandas)
readReferences = FunctionSpec(
    file='src/parsers/cmap_reader.py', qualname='CmapReader.readReferences', params=dict(self=OBJ('CmapReader'), file=FILE, chromosomes=IDS),
    returns=LIST(OMAP), trusted=True, serves=('C17',), note="ASSUMED (pandas): some list of maps; what it contains is the bounded part of C17")
readQueries = FunctionSpec(
    file='src/parsers/cmap_reader.py', qualname='CmapReader.readQueries', params=dict(self=OBJ('CmapReader'), file=FILE, moleculeIds=IDS),
    returns=LIST(OMAP), trusted=True, serves=('C17',), note="ASSUMED (pandas): some list of maps; what it contains is the bounded part of C17")
writeAlignments = FunctionSpec(
    file='src/parsers/xmap_reader.py', qualname='XmapReader.writeAlignments', params=dict(self=OBJ('XmapReader'), file=FILE, alignmentResults=RES, args=OBJ('Args')),
    returns=NONE, trusted=True, serves=('C18', 'C02'), note="ASSUMED (pandas): writes the records; the text is the bounded part of C02 / C18; the verified caller logs the call")


# ------------------------------------------------------------------ Program.__readMaps
def _log_read(which):
    def h(L):
        L.set('g' + which, L._st.lst(L.result.v) if hasattr(L.result, 'v') else L.result)
        L.set('g' + which + '_file', L.callargs[0].t)
        L.set('n' + which, L['n' + which] + 1)
        inside = L.note('with_files', ())
        L.set('g' + which + '_with', inside[-1] if inside else z3.Const('g_nofile', Ref))
        ids = L.callargs[1]
        if not isinstance(ids, VOpt):
            raise TypeError("id filter argument of an unexpected shape")          # contract no longer fits the code -> left-subset
        L.set('g' + which + '_ids_given', z3.Not(ids.none))
        L.set('g' + which + '_ids', L._st.lst(ids.val))
    return h


def _read_ensures(C, res):
    Fv = C.F
    k = z3.Int('k')
    me = C.self
    Q, R = me.queryMaps, Fv.gqry
    a = C.self.args
    return [('each_file_is_read_once', z3.And(Fv.nref == 1, Fv.nqry == 1)),
            ('references_are_read_from_the_reference_file_with_the_reference_id_filter',
             z3.And(Fv.gref_file == a.referenceFile.ref, Fv.gref_with == a.referenceFile.ref, Fv.gref_ids_given == z3.Not(a.referenceIds.none),
                    z3.Implies(z3.Not(a.referenceIds.none), same_list(Fv.gref_ids, a.referenceIds.val)), same_list(me.referenceMaps, Fv.gref))),
            ('queries_are_read_from_the_query_file_with_the_query_id_filter', z3.And(Fv.gqry_file == a.queryFile.ref, Fv.gqry_with == a.queryFile.ref, Fv.gqry_ids_given == z3.Not(a.queryIds.none),
                                                                                     z3.Implies(z3.Not(a.queryIds.none), same_list(Fv.gqry_ids, a.queryIds.val)))),
            ('one_query_per_molecule_read_in_order', Q.len == R.len),
            ('every_query_is_the_trimmed_molecule_read', forall(k, z3.Implies(rng(0, k, Q.len), z3.And(
                Q[k].moleculeId == R[k].moleculeId, Q[k].positions.len == R[k].positions.len,
                z3.Implies(R[k].positions.len > 0, z3.And(Q[k].positions[0] == 0, Q[k].length == R[k].positions[R[k].positions.len - 1] - R[k].positions[0] + 1)))),
                [Q.raw(k).t]))]


_el = lambda C: C._e.fresh_list(OMAP, 'gmaps', n=z3.IntVal(0))
_nref = lambda C: z3.Const('g_nofile', Ref)
readMaps = FunctionSpec(
    file=F, qualname='Program.__readMaps', params=dict(self=PROG), returns=NONE, ensures=_read_ensures,
    modifies={'self': ['referenceMaps', 'queryMaps']},
    ghost={'gref': _el, 'gqry': _el, 'gref_file': _nref, 'gqry_file': _nref, 'gref_with': _nref, 'gqry_with': _nref, 'nref': lambda C: z3.IntVal(0), 'nqry': lambda C: z3.IntVal(0),
           'gref_ids_given': lambda C: z3.BoolVal(False), 'gqry_ids_given': lambda C: z3.BoolVal(False),
           'gref_ids': lambda C: C._e.fresh_list(INT, 'gids', n=z3.IntVal(0)), 'gqry_ids': lambda C: C._e.fresh_list(INT, 'gids', n=z3.IntVal(0))},
    ghost_at={'call:readReferences#0': _log_read('ref'), 'call:readQueries#0': _log_read('qry')},
    serves=('C17', 'C10', 'C06'), canary='one_query_per_molecule_read_in_order',
    note="references = what the reader returns for (reference file, -rId); queries = the trimmed image, one for one and in order, of what it returns for "
         "(query file, -qId), each read inside the `with` block of its OWN file (the block closes that file afterwards); `with <file>:` is executed as its body (ASSUMED: a file's context manager only closes it)")


# ------------------------------------------------------------------ Program.run
def _log_exec(L):
    L.set('grefs', L._st.lst(L.callargs[0]))
    L.set('gqueries', L._st.lst(L.callargs[1]))
    L.set('grows', L._st.lst(L.result.v) if hasattr(L.result, 'v') else L.result)
    L.set('nexec', L.nexec + 1)


def _log_write(L):
    L.set('gwfile', L.callargs[0].t)
    L.set('gwres', L.callargs[1].t)
    L.set('nwrite', L.nwrite + 1)


def _log_filter(L):
    L.set('gfarg', L._st.lst(L.callargs[0]))
    L.set('gfres', L._st.lst(L.result.v) if hasattr(L.result, 'v') else L.result)


def _run_requires(C):
    """what the coordinator's own contract asks of its configuration (established by WorkflowCoordinatorFactory.create from valid options)"""
    from specs import multipass, workflow
    from pyvc.engine import cls_of
    e = C._e
    w = C.self.workflowCoordinator

    class _W:
        pass
    out = []
    for cname, req in (('_MultiPassWorkflowCoordinator', multipass.execute.requires), ('_WorkflowCoordinator', workflow.execute.requires)):
        W = _W()
        W.self, W._e = w.as_(cname), e
        exact = cls_of(w.ref) == e.cls_id(cname)
        out += [(f'coordinator_configuration::{cname}::{n}', z3.Implies(exact, t)) for n, t in req(W)]
    return out


def _run_ensures(C, res):
    Fv = C.F
    me = C.self
    a = me.args
    return [('one_alignment_run', Fv.nexec == 1),
            ('on_all_references_and_all_queries_of_the_program', z3.And(same_list(Fv.grefs, me.referenceMaps), same_list(Fv.gqueries, me.queryMaps))),
            ('result_is_the_de_duplication_of_exactly_the_rows_of_that_run', z3.And(same_list(Fv.gfarg, Fv.grows), same_list(res.rows, Fv.gfres))),
            ('result_names_the_two_input_files', z3.And(res.referenceFilePath.ref == a.referenceFile.name.ref, res.queryFilePath.ref == a.queryFile.name.ref)),
            ('written_once_to_the_configured_output_file', z3.And(Fv.nwrite == 1, Fv.gwfile == a.outputFile.ref, Fv.gwres == res.ref))]


_rows = lambda C: C._e.fresh_list(ROW, 'grows', n=z3.IntVal(0))
run = FunctionSpec(
    file=F, qualname='Program.run', params=dict(self=PROG), returns=RES, requires=_run_requires, ensures=_run_ensures,
    may_raise={'IndexError'}, keep_own_safety=True,
    ghost={'grefs': _el, 'gqueries': _el, 'grows': _rows, 'gfarg': _rows, 'gfres': _rows, 'nexec': lambda C: z3.IntVal(0), 'nwrite': lambda C: z3.IntVal(0),
           'gwfile': _nref, 'gwres': _nref},
    ghost_at={'call:execute#0': _log_exec, 'call:writeAlignments#0': _log_write,
              'AlignmentResults.create:call:filterOutSubsequentAlignmentsForSingleQuery#0': _log_filter},
    inline={'AlignmentResults.create'},
    serves=('C09', 'C10', 'C05', 'C07'), canary='one_alignment_run',
    note="one execute call on all maps of the program (through the coordinator's verified contract), the result is the de-duplication of exactly its rows, "
         "written once to the configured output file; partial correctness as far as the coordinator's contract is (row-level join)")

SPECS = [readReferences, readQueries, writeAlignments, readMaps, run]
