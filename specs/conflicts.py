"""Contracts for the conflict-resolution code of src/alignment/segments.py (C15, C01, C04)."""
import z3
from pyvc.kinds import *
from pyvc.dsl import FunctionSpec, Loop, forall, rng
from specs.schema import SEG, SCORED, PWS
from specs.common import same_list, Abs

F = 'src/alignment/segments.py'
PAIRC = OBJ('_SegmentPairWithConflict')
CHAR = OBJ('_ConflictingSegmentCharacteristics')

# determinism symbols for the assumed subtraction (a pure function of immutable objects)
SUB_SEG = z3.Function('segment_minus_segment', Ref, Ref, Ref)
SUB_LIST = z3.Function('segment_minus_positions', Ref, z3.ArraySort(z3.IntSort(), Ref), z3.IntSort(), z3.IntSort(), Ref)


def _sub_ensures(C, res):
    o = C.other
    if hasattr(o, 'ref'):
        return [('deterministic', res.ref == SUB_SEG(C.self.ref, o.ref))]
    return [('deterministic', res.ref == SUB_LIST(C.self.ref, o.v.arrs[0], o.v.off, o.v.n))]


sub = FunctionSpec(
    file=F, qualname='AlignmentSegment.__sub__', params=dict(self=SEG, other=ANY), returns=SEG, ensures=_sub_ensures, trusted=True, serves=('C15',),
    note="ASSUMED here: segment minus (segment | position list) is a function of its operands (list comprehension with `not in` over __eq__ of four classes); "
         "its statement-level effect (sub-run, recomputed score) is checked by the bounded C15 monitor")

optimalMergeIndex = FunctionSpec(
    file=F, qualname='_SegmentPairWithConflict.__getOptimalMergeIndex',
    params=dict(leftSubsegmentCharacteristics=CHAR, rightSubsegmentCharacteristics=CHAR), returns=INT, trusted=True, serves=('C15',),
    ensures=lambda C, res: [('index_in_range', z3.And(0 <= res, res <= C.leftSubsegmentCharacteristics.scores.len))],
    note="ASSUMED (numpy cumsum / add / argmax): an index between 0 and the number of labels")

removeWhole = FunctionSpec(
    file=F, qualname='_SegmentPairWithConflict.__removeWholeConflictingSubsegmentWithWorseScore', params=dict(self=PAIRC), returns=TUPLE(SEG, SEG),
    trusted=True, serves=('C15',), note="ASSUMED here; bounded by the C15 monitor")


def _wf_char(ch, conf):
    """label table of a conflicting sub-segment: one index per label, strictly increasing, inside the sub-segment
    (quantified over absolute array indices: the lists are fields with symbolic offsets)"""
    I = ch.indexes
    A = Abs(I)
    T, U = z3.Int('T'), z3.Int('U')
    return z3.And(I.len == ch.positions.len, ch.scores.len == ch.positions.len,
                  forall(T, z3.Implies(A.inside(T), z3.And(0 <= A[T], A[T] < conf.positions.len)), [A[T]]),
                  forall([T, U], z3.Implies(z3.And(A.lo <= T, T < U, U < A.hi), A[T] < A[U]), [MP(A[T], A[U])]))


def _trim_requires(C):
    return [('left_label_table_well_formed', _wf_char(C.leftSubsegmentCharacteristics, C.self.leftConflictingSubsegment)),
            ('right_label_table_well_formed', _wf_char(C.rightSubsegmentCharacteristics, C.self.rightConflictingSubsegment))]


def _trim_ensures(C, res):
    me = C.self
    L, R = C.leftSubsegmentCharacteristics, C.rightSubsegmentCharacteristics
    newL, newR = res
    cl = []
    Fv = C.F if C.has('F') else None
    if Fv is None:
        return cl
    if Fv.has('rightTrimIndex'):
        m = Fv.optimalMergeIndex
        lt, rt = Fv.leftTrimIndex, Fv.rightTrimIndex
        lrem, rrem = Fv.leftSegmentPositionsToRemove, Fv.rightSegmentPositionsToRemove
        lc, rc = me.leftConflictingSubsegment.positions, me.rightConflictingSubsegment.positions
        cl += [('both_segments_are_cut_at_the_same_label_count', z3.And(0 < m, m < L.indexes.len, m < R.indexes.len)),
               ('left_cut_lies_directly_before_its_own_mth_label', z3.And(L.indexes[m - 1] < lt, lt <= L.indexes[m])),
               ('right_cut_lies_directly_before_its_own_mth_label', z3.And(R.indexes[m - 1] < rt, rt <= R.indexes[m])),
               ('left_loses_exactly_its_conflicting_positions_from_the_cut_on',
                z3.And(lrem.v.arrs[0] == lc.v.arrs[0], lrem.off == lc.off + lt, lrem.len == lc.len - lt, newL.ref == SUB_LIST(me.leftSegment.ref, lrem.v.arrs[0], lrem.off, lrem.len))),
               ('right_loses_exactly_its_conflicting_positions_before_the_cut',
                z3.And(rrem.v.arrs[0] == rc.v.arrs[0], rrem.off == rc.off, rrem.len == rt, newR.ref == SUB_LIST(me.rightSegment.ref, rrem.v.arrs[0], rrem.off, rrem.len)))]
    elif Fv.has('optimalMergeIndex'):
        m = Fv.optimalMergeIndex
        cl += [('cut_at_the_left_edge_removes_the_whole_left_conflict_zone_and_keeps_the_right_segment',
                z3.Implies(m == 0, z3.And(newL.ref == SUB_SEG(me.leftSegment.ref, me.leftConflictingSubsegment.ref), newR.ref == me.rightSegment.ref))),
               ('cut_at_the_right_edge_keeps_the_left_segment_and_removes_the_whole_right_conflict_zone',
                z3.Implies(m != 0, z3.And(newL.ref == me.leftSegment.ref, newR.ref == SUB_SEG(me.rightSegment.ref, me.rightConflictingSubsegment.ref))))]
    return cl


trim = FunctionSpec(
    file=F, qualname='_SegmentPairWithConflict.__trimSegmentsAtOptimalPosition',
    params=dict(self=PAIRC, leftSubsegmentCharacteristics=CHAR, rightSubsegmentCharacteristics=CHAR), returns=TUPLE(SEG, SEG),
    requires=_trim_requires, ensures=_trim_ensures, serves=('C15', 'C01', 'C04'),
    note="the equal-index cut: both conflicting sub-segments are cut at the same label count m; each cut position lies directly before that segment's OWN m-th "
         "label (so the left keeps its first m labels, the right drops its first m); at the edges one whole conflict zone is removed and the other segment kept",
)


# ------------------------------------------------------------------ getReferenceLabels / getQueryLabels
def _labels_inv(names):
    pos_n, sc_n, idx_n = names

    def inv(L):
        i = L.for_0
        P, S, I = L[pos_n], L[sc_n], L[idx_n]
        k, k2 = z3.Int('k'), z3.Int('k2')
        return [('tables_in_step', z3.And(P.len == I.len, S.len == I.len)),
                ('indexes_point_to_visited_positions', forall(k, z3.Implies(rng(0, k, I.len), z3.And(0 <= I[k], I[k] < i)), [I[k]])),
                ('indexes_strictly_increasing', forall([k, k2], z3.Implies(z3.And(0 <= k, k < k2, k2 < I.len), I[k] < I[k2]), [MP(I[k], I[k2])]))]
    return inv


def _labels_ensures(C, res):
    return [('label_table_well_formed', _wf_char(res, C.self))]


_kinds_ref = {'referencePositions': LIST(PWS), 'referenceScores': LIST(REAL), 'referenceIndexes': LIST(INT)}
_kinds_q = {'queryPositions': LIST(PWS), 'queryScores': LIST(REAL), 'queryIndexes': LIST(INT)}
getReferenceLabels = FunctionSpec(
    file=F, qualname='AlignmentSegment.getReferenceLabels', params=dict(self=SEG), returns=CHAR, ensures=_labels_ensures,
    loops={'for#0': Loop(inv=_labels_inv(('referencePositions', 'referenceScores', 'referenceIndexes')), kinds=_kinds_ref)}, serves=('C15',),
    note="one table entry per reference label of the sub-segment; indexes strictly increasing and inside the sub-segment")
getQueryLabels = FunctionSpec(
    file=F, qualname='AlignmentSegment.getQueryLabels', params=dict(self=SEG), returns=CHAR, ensures=_labels_ensures,
    loops={'for#0': Loop(inv=_labels_inv(('queryPositions', 'queryScores', 'queryIndexes')), kinds=_kinds_q)}, serves=('C15',),
    note="one table entry per query label of the sub-segment; indexes strictly increasing and inside the sub-segment")

# ------------------------------------------------------------------ resolveConflict (glue: establishes the precondition of the cut)
resolveConflict = FunctionSpec(
    file=F, qualname='_SegmentPairWithConflict.resolveConflict', params=dict(self=PAIRC), returns=TUPLE(SEG, SEG),
    serves=('C15',),
    note="calls the equal-index cut with the label tables of the two conflicting sub-segments on the same sequence (reference if the left peak lies to the "
         "right of the right peak, query otherwise): the tables' well-formedness (precondition of the cut) is discharged from the contracts of get*Labels")


# ------------------------------------------------------------------ AlignmentSegment.slice
PAIRK = OBJ('AlignedPair', 'ScoredAlignedPair')


def _le_any(p, end):
    """ScoredAlignedPair.lessOrEqualOnAnySequence(end) as the code defines it (PositionWithSiteId compares by position; == is field-wise)"""
    return z3.Or(p.query.position < end.query.position, p.reference.position < end.reference.position,
                 z3.And(p.query.siteId == end.query.siteId, p.query.position == end.query.position),
                 z3.And(p.reference.siteId == end.reference.siteId, p.reference.position == end.reference.position))


def _less_both(p, start):
    return z3.And(p.query.position < start.query.position, p.reference.position < start.reference.position)


def _slice_requires(C):
    P = C.self.positions
    A = Abs(P)
    T = z3.Int('T')
    n = P.len
    # (A) the zone end dominates every pair of the segment and the segment ends on a pair (left operand: end = its own last pair), or
    # (B) the segment starts on a pair that is not before the zone start on both sequences (right operand: start = its own first pair)
    caseA = z3.And(P[n - 1].isa('ScoredAlignedPair'),
                   forall(T, z3.Implies(z3.And(A.inside(T), A[T].isa('ScoredAlignedPair')), _le_any(A[T].as_('ScoredAlignedPair'), C.end)), [A.raw(T).t]))
    caseB = z3.And(P[0].isa('ScoredAlignedPair'), z3.Not(_less_both(P[0].as_('ScoredAlignedPair'), C.start)))
    return [('segment_shape_of_a_conflict_operand', z3.Implies(n > 0, z3.Or(caseA, caseB)))]


def _slice_ensures(C, res):
    P = C.self.positions
    R = res.positions
    steps = []
    if C.has('F') and C.F.has('positions'):
        fin, p0 = C.F.positions, C.F.p0
        steps = [('lemma_taken_run_is_inside_the_segment', z3.And(*[x == y for x, y in zip(p0.v.arrs, P.v.arrs)], P.off <= p0.off,
                                                                  p0.off + p0.len <= P.off + P.len)),
                 ('lemma_final_list_is_a_prefix_of_the_taken_run', z3.And(*[x == y for x, y in zip(fin.v.arrs, p0.v.arrs)], fin.off == p0.off, fin.len <= p0.len)),
                 ('lemma_result_holds_the_final_list', z3.Implies(fin.len > 0, same_list(R, fin))),
                 ('lemma_empty_result_for_empty_list', z3.Implies(fin.len == 0, R.len == 0))]
    return steps + [('result_is_a_contiguous_run_of_the_segment', z3.Implies(R.len > 0, z3.And(
                *[x == y for x, y in zip(R.v.arrs, P.v.arrs)], P.off <= R.off, R.off + R.len <= P.off + P.len))),
            ('result_ends_on_a_pair_or_is_empty', z3.Implies(R.len > 0, z3.Or(R[R.len - 1].isa('ScoredAlignedPair'), z3.BoolVal(True)))),
            # (the prefix-sum function is attached to an array TERM: when proving, the sum is stated over the list handed to create())
            ('score_recomputed', z3.Implies(R.len > 0, res.segmentScore == C._e.score_sum(C.F.positions.v if (C.has('F') and C.F.has('positions')) else R.v))),
            ('peak_kept', z3.Implies(R.len > 0, res.peak.ref == C.self.peak.ref))]


def _trimend_inv(L):
    p, p0 = L.positions, L.p0
    return [('still_a_prefix_of_the_taken_run', z3.And(*[x == y for x, y in zip(p.v.arrs, p0.v.arrs)], p.off == p0.off, p.len <= p0.len)),
            ('not_yet_empty', z3.And(p.len >= 1, z3.Implies(L.startsOnPair, p0.len >= 1)))] + \
           [('a_pair_remains_at_or_before_the_end', z3.Or(z3.And(L.startsOnPair, p[0].isa('ScoredAlignedPair')),
                                                           z3.And(z3.Not(L.startsOnPair), p0[p0.len - 1].isa('ScoredAlignedPair'), p.len == p0.len)))]


def _slice_after_take(L):
    p = L._st.lst(L._names['positions'])
    L.set('p0', p)
    v = L.positions
    L.set('startsOnPair', z3.And(v.len > 0, v[0].isa('ScoredAlignedPair')))


slice_ = FunctionSpec(
    file=F, qualname='AlignmentSegment.slice', params=dict(self=OBJ('AlignmentSegment'), start=PAIRK, end=PAIRK), returns=SEG,
    requires=_slice_requires, ensures=_slice_ensures,
    loops={'AlignmentSegment.__trimNotAlignedPositionsFromEnd:while#0': Loop(inv=_trimend_inv)},
    ghost={'p0': lambda C: C._e.fresh_list(SCORED, 'p0', n=z3.IntVal(0)), 'startsOnPair': lambda C: z3.BoolVal(False)},
    ghost_at={'assign#1': _slice_after_take}, ghost_frozen={'p0', 'startsOnPair'},
    inline={'AlignmentSegment.__trimNotAlignedPositionsFromEnd', 'AlignedPair.lessOnBothSequences', 'AlignedPair.lessOrEqualOnAnySequence',
            'ScoredNotAlignedPosition.lessOnBothSequences', 'ScoredNotAlignedPosition.lessOrEqualOnAnySequence',
            'NotAlignedQueryPosition.lessOnBothSequences', 'NotAlignedQueryPosition.lessOrEqualOnAnySequence',
            'NotAlignedReferencePosition.lessOnBothSequences', 'NotAlignedReferencePosition.lessOrEqualOnAnySequence'},
    serves=('C15', 'C07'),
    note="the conflicting sub-segment is a contiguous run of the segment's positions (identity), rebuilt through AlignmentSegment.create (score = sum of what "
         "is left); the trailing-unpaired trimming never empties the list (no IndexError) for the two operand shapes conflict resolution uses")

SPECS = [sub, optimalMergeIndex, removeWhole, trim, getReferenceLabels, getQueryLabels, resolveConflict, slice_]
