"""Contracts for the conflict-resolution code of src/alignment/segments.py (C15, C01, C04)."""
import z3
from pyvc.kinds import *
from pyvc.dsl import FunctionSpec, Loop, forall, rng
from specs.schema import SEG, SCORED, PWS
from specs.common import same_list, Abs, is_cls, subseq, skolem_index, SUBF, SUBG, derived

F = 'src/alignment/segments.py'
PAIRC = OBJ('_SegmentPairWithConflict')
CHAR = OBJ('_ConflictingSegmentCharacteristics')

# ------------------------------------------------------------------ AlignmentSegment.__sub__ (two argument shapes = two contract variants)
# MINUS_P(res, seg, arr, off, n): "res keeps exactly the positions of seg that are not `in` the list arr[off:off+n]" - DEFINED by the two completeness
# clauses that are proved when __sub__ is verified; opaque everywhere else (hide / reveal)
MINUS_P = z3.Function('keeps_exactly_the_positions_not_in', Ref, Ref, z3.ArraySort(z3.IntSort(), Ref), z3.IntSort(), z3.IntSort(), z3.BoolSort())

def _sub_ensures(which):
    def ens(C, res):
        e, st = C._e, C._st
        me = C.self
        P, R = me.positions, res.positions
        other = C.other.positions if which == 'segment' else C.other
        if C.proving:
            flt = C.note('filter_log')[-1]
            f, g = flt['idx'], flt['inv']
            kept = C.F.positions if C.has('F') and C.F.has('positions') else R
        else:
            f, g = skolem_index(res.ref, me.ref), (lambda k: SUBG(res.ref, me.ref, k))
            kept = R
        k = z3.Int('sbk')
        a = Abs(P)
        T = z3.Int('sbT')
        x = P.raw(T - P.off)
        member = e.contains(st, other.v, x)                       # `x in other` as Python defines it: identity or the classes' __eq__
        if not C.proving:
            # callers see the two completeness clauses as one opaque fact (they only pass it on): MINUS_P is defined by those clauses,
            # which are proved in full when __sub__ itself is verified
            return [('result_is_the_segment_itself_rebuilt_from_a_subsequence', derived(e, res, me)),
                    ('keeps_exactly_the_positions_not_in_the_subtrahend', MINUS_P(res.ref, me.ref, other.v.arrs[0], other.off, other.len))]
        return [('nonempty_result_is_a_plain_segment_with_a_subsequence_of_the_positions', z3.Implies(R.len > 0, z3.And(
                    is_cls(e, res, 'AlignmentSegment'), subseq(R, P, f, C.proving)))),
                ('empty_result_is_the_empty_segment', z3.Implies(R.len == 0, z3.And(is_cls(e, res, 'EmptyAlignmentSegment'), res.segmentScore == 0))),
                ('score_recomputed_as_the_sum_of_what_is_left', z3.Implies(R.len > 0, res.segmentScore == e.score_sum(kept.v))),
                ('peak_kept', z3.Implies(R.len > 0, res.peak.ref == me.peak.ref)),
                ('every_position_not_in_the_subtrahend_is_kept',
                 z3.ForAll([T], z3.Implies(z3.And(a.inside(T), z3.Not(member)),
                                           z3.And(0 <= g(T - P.off), g(T - P.off) < R.len, f(g(T - P.off)) == T - P.off)),
                           patterns=[z3.Select(P.v.arrs[0], T)])),
                ('no_kept_position_is_in_the_subtrahend',
                 z3.ForAll([T], z3.Implies(z3.And(a.inside(T), member),
                                           z3.Not(z3.Exists([k], z3.And(0 <= k, k < R.len, f(k) == T - P.off)))),
                           patterns=[z3.Select(P.v.arrs[0], T)]))]
    return ens


_sub_note = ("segment minus (segment | position list): the result's positions are a sub-sequence of the segment's positions (same objects, same order), exactly "
             "those that are not `in` the subtrahend (identity or the classes' __eq__), rebuilt through AlignmentSegment.create (score = sum of what is left, "
             "peak kept; the empty segment if nothing is left)")
sub_seg = FunctionSpec(
    file=F, qualname='AlignmentSegment.__sub__', variant='segment', params=dict(self=SEG, other=SEG), returns=SEG, ensures=_sub_ensures('segment'),
    serves=('C15', 'C01', 'C08'), note=_sub_note)
sub_list = FunctionSpec(
    file=F, qualname='AlignmentSegment.__sub__', variant='positions', params=dict(self=SEG, other=LIST(SCORED)), returns=SEG, ensures=_sub_ensures('positions'),
    serves=('C15', 'C01', 'C08'), note=_sub_note)

optimalMergeIndex = FunctionSpec(
    file=F, qualname='_SegmentPairWithConflict.__getOptimalMergeIndex',
    params=dict(leftSubsegmentCharacteristics=CHAR, rightSubsegmentCharacteristics=CHAR), returns=INT, trusted=True, serves=('C15',),
    ensures=lambda C, res: [('index_in_range', z3.And(0 <= res, res <= C.leftSubsegmentCharacteristics.scores.len))],
    note="ASSUMED (numpy cumsum / add / argmax): an index between 0 and the number of labels")



def _wf_char(ch, conf):
    """label table of a conflicting sub-segment: one index per label, strictly increasing, inside the sub-segment
    (quantified over absolute array indices: the lists are fields with symbolic offsets)"""
    I = ch.indexes
    A = Abs(I)
    T, U = z3.Int('T'), z3.Int('U')
    return z3.And(I.len == ch.positions.len, ch.scores.len == ch.positions.len,
                  forall(T, z3.Implies(A.inside(T), z3.And(0 <= A[T], A[T] < conf.positions.len)), [A[T]]),
                  forall([T, U], z3.Implies(z3.And(A.lo <= T, T < U, U < A.hi), A[T] < A[U]), [MP(A[T], A[U])]))


def _trim_requires(C):
    return [('left_label_table_well_formed', _wf_char(C.leftSubsegmentCharacteristics, C.self.leftConflictingSubsegment)),
            ('right_label_table_well_formed', _wf_char(C.rightSubsegmentCharacteristics, C.self.rightConflictingSubsegment))]


def _minus(e, st, new, seg, removed, f=None, g=None):
    """`new` keeps exactly the positions of `seg` that are not `in` the list view `removed`: the opaque fact established by __sub__"""
    return MINUS_P(new.ref, seg.ref, removed.v.arrs[0], removed.off, removed.len)


def _pair_results(C, res):
    """what every resolution of a pair guarantees (all branches; also what callers may assume)"""
    e = C._e
    me = C.self
    newL, newR = res
    return [('left_result_never_adds_moves_or_rescores_positions_of_the_left_segment', derived(e, newL, me.leftSegment, proving=C.proving)),
            ('right_result_never_adds_moves_or_rescores_positions_of_the_right_segment', derived(e, newR, me.rightSegment, proving=C.proving))]


def _trim_ensures(C, res):
    me = C.self
    e, st = C._e, C._st
    L, R = C.leftSubsegmentCharacteristics, C.rightSubsegmentCharacteristics
    newL, newR = res
    cl = _pair_results(C, res)
    Fv = C.F if C.has('F') else None
    if Fv is None:
        return cl
    fL, gL = skolem_index(newL.ref, me.leftSegment.ref), (lambda k: SUBG(newL.ref, me.leftSegment.ref, k))
    fR, gR = skolem_index(newR.ref, me.rightSegment.ref), (lambda k: SUBG(newR.ref, me.rightSegment.ref, k))
    if Fv.has('rightTrimIndex'):
        m = Fv.optimalMergeIndex
        lt, rt = Fv.leftTrimIndex, Fv.rightTrimIndex
        lrem, rrem = Fv.leftSegmentPositionsToRemove, Fv.rightSegmentPositionsToRemove
        lc, rc = me.leftConflictingSubsegment.positions, me.rightConflictingSubsegment.positions
        cl += [('both_segments_are_cut_at_the_same_label_count', z3.And(0 < m, m < L.indexes.len, m < R.indexes.len)),
               ('left_cut_lies_directly_before_its_own_mth_label', z3.And(L.indexes[m - 1] < lt, lt <= L.indexes[m])),
               ('right_cut_lies_directly_before_its_own_mth_label', z3.And(R.indexes[m - 1] < rt, rt <= R.indexes[m])),
               ('left_loses_exactly_its_conflicting_positions_from_the_cut_on',
                z3.And(lrem.v.arrs[0] == lc.v.arrs[0], lrem.off == lc.off + lt, lrem.len == lc.len - lt, _minus(e, st, newL, me.leftSegment, lrem, fL, gL))),
               ('right_loses_exactly_its_conflicting_positions_before_the_cut',
                z3.And(rrem.v.arrs[0] == rc.v.arrs[0], rrem.off == rc.off, rrem.len == rt, _minus(e, st, newR, me.rightSegment, rrem, fR, gR)))]
    elif Fv.has('optimalMergeIndex'):
        m = Fv.optimalMergeIndex
        cl += [('cut_at_the_left_edge_removes_the_whole_left_conflict_zone_and_keeps_the_right_segment',
                z3.Implies(m == 0, z3.And(_minus(e, st, newL, me.leftSegment, me.leftConflictingSubsegment.positions, fL, gL), newR.ref == me.rightSegment.ref))),
               ('cut_at_the_right_edge_keeps_the_left_segment_and_removes_the_whole_right_conflict_zone',
                z3.Implies(m != 0, z3.And(newL.ref == me.leftSegment.ref,
                                          _minus(e, st, newR, me.rightSegment, me.rightConflictingSubsegment.positions, fR, gR))))]
    return cl


def _removeWhole_ensures(C, res):
    e, st = C._e, C._st
    me = C.self
    newL, newR = res
    fL, gL = skolem_index(newL.ref, me.leftSegment.ref), (lambda k: SUBG(newL.ref, me.leftSegment.ref, k))
    fR, gR = skolem_index(newR.ref, me.rightSegment.ref), (lambda k: SUBG(newR.ref, me.rightSegment.ref, k))
    lbetter = me.leftConflictingSubsegment.segmentScore > me.rightConflictingSubsegment.segmentScore
    return _pair_results(C, res) + [
        ('the_conflict_zone_with_the_strictly_better_score_is_kept_whole_and_the_other_removed_whole',
         z3.And(z3.Implies(lbetter, z3.And(newL.ref == me.leftSegment.ref,
                                           _minus(e, st, newR, me.rightSegment, me.rightConflictingSubsegment.positions, fR, gR))),
                z3.Implies(z3.Not(lbetter), z3.And(newR.ref == me.rightSegment.ref,
                                                   _minus(e, st, newL, me.leftSegment, me.leftConflictingSubsegment.positions, fL, gL)))))]


removeWhole = FunctionSpec(
    file=F, qualname='_SegmentPairWithConflict.__removeWholeConflictingSubsegmentWithWorseScore', params=dict(self=PAIRC), returns=TUPLE(SEG, SEG),
    ensures=_removeWhole_ensures, serves=('C15', 'C01'),
    note="label tables of different length: the whole conflict zone of the side with the worse (or equal: the left) zone score is removed, the other segment "
         "is returned unchanged")

# the same function once more with the subtraction opaque: the geometry of the cut does not need what __sub__ guarantees, and without those quantified
# facts a wrong cut is REFUTED by the solver (a counter-model) instead of going `unknown`
sub_opaque = FunctionSpec(
    file=F, qualname='AlignmentSegment.__sub__', variant='opaque', params=dict(self=SEG, other=ANY), returns=SEG, trusted=True, serves=('C15',),
    note="no claim about the result (used only where the caller's obligations do not depend on it: the geometry variant of the cut)")


def _trim_geometry_ensures(C, res):
    return [c for c in _trim_ensures(C, res) if c[0] in ('both_segments_are_cut_at_the_same_label_count', 'left_cut_lies_directly_before_its_own_mth_label',
                                                         'right_cut_lies_directly_before_its_own_mth_label')]


trim_geometry = FunctionSpec(
    file=F, qualname='_SegmentPairWithConflict.__trimSegmentsAtOptimalPosition', variant='geometry',
    params=dict(self=PAIRC, leftSubsegmentCharacteristics=CHAR, rightSubsegmentCharacteristics=CHAR), returns=TUPLE(SEG, SEG),
    requires=_trim_requires, ensures=_trim_geometry_ensures, use_variant={'AlignmentSegment.__sub__': 'opaque'}, serves=('C15', 'C01', 'C04'),
    note="the geometry of the equal-index cut alone (same label count m on both sides, each cut directly before that segment's OWN m-th label), verified with the "
         "subtraction opaque so that a wrong cut index yields a counter-model")

trim = FunctionSpec(
    file=F, qualname='_SegmentPairWithConflict.__trimSegmentsAtOptimalPosition',
    params=dict(self=PAIRC, leftSubsegmentCharacteristics=CHAR, rightSubsegmentCharacteristics=CHAR), returns=TUPLE(SEG, SEG),
    requires=_trim_requires, ensures=_trim_ensures, serves=('C15', 'C01', 'C04'),
    note="the equal-index cut: both conflicting sub-segments are cut at the same label count m; each cut position lies directly before that segment's OWN m-th "
         "label (so the left keeps its first m labels, the right drops its first m); at the edges one whole conflict zone is removed and the other segment kept",
)


# ------------------------------------------------------------------ getReferenceLabels / getQueryLabels
def _labels_inv(names):
    pos_n, sc_n, idx_n = names

    def inv(L):
        i = L.for_0
        P, S, I = L[pos_n], L[sc_n], L[idx_n]
        k, k2 = z3.Int('k'), z3.Int('k2')
        return [('tables_in_step', z3.And(P.len == I.len, S.len == I.len)),
                ('indexes_point_to_visited_positions', forall(k, z3.Implies(rng(0, k, I.len), z3.And(0 <= I[k], I[k] < i)), [I[k]])),
                ('indexes_strictly_increasing', forall([k, k2], z3.Implies(z3.And(0 <= k, k < k2, k2 < I.len), I[k] < I[k2]), [MP(I[k], I[k2])]))]
    return inv


def _labels_ensures(C, res):
    return [('label_table_well_formed', _wf_char(res, C.self))]


_kinds_ref = {'referencePositions': LIST(PWS), 'referenceScores': LIST(REAL), 'referenceIndexes': LIST(INT)}
_kinds_q = {'queryPositions': LIST(PWS), 'queryScores': LIST(REAL), 'queryIndexes': LIST(INT)}
getReferenceLabels = FunctionSpec(
    file=F, qualname='AlignmentSegment.getReferenceLabels', params=dict(self=SEG), returns=CHAR, ensures=_labels_ensures,
    loops={'for#0': Loop(inv=_labels_inv(('referencePositions', 'referenceScores', 'referenceIndexes')), kinds=_kinds_ref)}, serves=('C15',),
    note="one table entry per reference label of the sub-segment; indexes strictly increasing and inside the sub-segment")
getQueryLabels = FunctionSpec(
    file=F, qualname='AlignmentSegment.getQueryLabels', params=dict(self=SEG), returns=CHAR, ensures=_labels_ensures,
    loops={'for#0': Loop(inv=_labels_inv(('queryPositions', 'queryScores', 'queryIndexes')), kinds=_kinds_q)}, serves=('C15',),
    note="one table entry per query label of the sub-segment; indexes strictly increasing and inside the sub-segment")

# ------------------------------------------------------------------ resolveConflict (glue: establishes the precondition of the cut)
resolveConflict = FunctionSpec(
    file=F, qualname='_SegmentPairWithConflict.resolveConflict', params=dict(self=PAIRC), returns=TUPLE(SEG, SEG),
    ensures=lambda C, res: _pair_results(C, res),
    serves=('C15', 'C01'),
    note="calls the equal-index cut with the label tables of the two conflicting sub-segments on the same sequence (reference if the left peak lies to the "
         "right of the right peak, query otherwise): the tables' well-formedness (precondition of the cut) is discharged from the contracts of get*Labels")


# ------------------------------------------------------------------ AlignmentSegment.slice
PAIRK = OBJ('AlignedPair', 'ScoredAlignedPair')


def _le_any(p, end):
    """ScoredAlignedPair.lessOrEqualOnAnySequence(end) as the code defines it (PositionWithSiteId compares by position; == is field-wise)"""
    return z3.Or(p.query.position < end.query.position, p.reference.position < end.reference.position,
                 z3.And(p.query.siteId == end.query.siteId, p.query.position == end.query.position),
                 z3.And(p.reference.siteId == end.reference.siteId, p.reference.position == end.reference.position))


def _less_both(p, start):
    return z3.And(p.query.position < start.query.position, p.reference.position < start.reference.position)


def _slice_requires(C):
    P = C.self.positions
    A = Abs(P)
    T = z3.Int('T')
    n = P.len
    # (A) the zone end dominates every pair of the segment and the segment ends on a pair (left operand: end = its own last pair), or
    # (B) the segment starts on a pair that is not before the zone start on both sequences (right operand: start = its own first pair)
    caseA = z3.And(P[n - 1].isa('ScoredAlignedPair'),
                   forall(T, z3.Implies(z3.And(A.inside(T), A[T].isa('ScoredAlignedPair')), _le_any(A[T].as_('ScoredAlignedPair'), C.end)), [A.raw(T).t]))
    caseB = z3.And(P[0].isa('ScoredAlignedPair'), z3.Not(_less_both(P[0].as_('ScoredAlignedPair'), C.start)))
    return [('segment_shape_of_a_conflict_operand', z3.Implies(n > 0, z3.Or(caseA, caseB)))]


def _slice_ensures(C, res):
    P = C.self.positions
    R = res.positions
    steps = []
    if C.has('F') and C.F.has('positions'):
        fin, p0 = C.F.positions, C.F.p0
        steps = [('lemma_taken_run_is_inside_the_segment', z3.And(*[x == y for x, y in zip(p0.v.arrs, P.v.arrs)], P.off <= p0.off,
                                                                  p0.off + p0.len <= P.off + P.len)),
                 ('lemma_final_list_is_a_prefix_of_the_taken_run', z3.And(*[x == y for x, y in zip(fin.v.arrs, p0.v.arrs)], fin.off == p0.off, fin.len <= p0.len)),
                 ('lemma_result_holds_the_final_list', z3.Implies(fin.len > 0, same_list(R, fin))),
                 ('lemma_empty_result_for_empty_list', z3.Implies(fin.len == 0, R.len == 0))]
    return steps + [('result_is_a_contiguous_run_of_the_segment', z3.Implies(R.len > 0, z3.And(
                *[x == y for x, y in zip(R.v.arrs, P.v.arrs)], P.off <= R.off, R.off + R.len <= P.off + P.len))),
            ('result_ends_on_a_pair_or_is_empty', z3.Implies(R.len > 0, z3.Or(R[R.len - 1].isa('ScoredAlignedPair'), z3.BoolVal(True)))),
            # (the prefix-sum function is attached to an array TERM: when proving, the sum is stated over the list handed to create())
            ('score_recomputed', z3.Implies(R.len > 0, res.segmentScore == C._e.score_sum(C.F.positions.v if (C.has('F') and C.F.has('positions')) else R.v))),
            ('peak_kept', z3.Implies(R.len > 0, res.peak.ref == C.self.peak.ref))]


def _trimend_inv(L):
    p, p0 = L.positions, L.p0
    return [('still_a_prefix_of_the_taken_run', z3.And(*[x == y for x, y in zip(p.v.arrs, p0.v.arrs)], p.off == p0.off, p.len <= p0.len)),
            ('not_yet_empty', z3.And(p.len >= 1, z3.Implies(L.startsOnPair, p0.len >= 1)))] + \
           [('a_pair_remains_at_or_before_the_end', z3.Or(z3.And(L.startsOnPair, p[0].isa('ScoredAlignedPair')),
                                                           z3.And(z3.Not(L.startsOnPair), p0[p0.len - 1].isa('ScoredAlignedPair'), p.len == p0.len)))]


def _slice_after_take(L):
    p = L._st.lst(L._names['positions'])
    L.set('p0', p)
    v = L.positions
    L.set('startsOnPair', z3.And(v.len > 0, v[0].isa('ScoredAlignedPair')))


slice_ = FunctionSpec(
    file=F, qualname='AlignmentSegment.slice', params=dict(self=OBJ('AlignmentSegment'), start=PAIRK, end=PAIRK), returns=SEG,
    requires=_slice_requires, ensures=_slice_ensures,
    loops={'AlignmentSegment.__trimNotAlignedPositionsFromEnd:while#0': Loop(inv=_trimend_inv)},
    ghost={'p0': lambda C: C._e.fresh_list(SCORED, 'p0', n=z3.IntVal(0)), 'startsOnPair': lambda C: z3.BoolVal(False)},
    ghost_at={'assign#1': _slice_after_take}, ghost_frozen={'p0', 'startsOnPair'},
    inline={'AlignmentSegment.__trimNotAlignedPositionsFromEnd', 'AlignedPair.lessOnBothSequences', 'AlignedPair.lessOrEqualOnAnySequence',
            'ScoredNotAlignedPosition.lessOnBothSequences', 'ScoredNotAlignedPosition.lessOrEqualOnAnySequence',
            'NotAlignedQueryPosition.lessOnBothSequences', 'NotAlignedQueryPosition.lessOrEqualOnAnySequence',
            'NotAlignedReferencePosition.lessOnBothSequences', 'NotAlignedReferencePosition.lessOrEqualOnAnySequence'},
    serves=('C15', 'C07'),
    note="the conflicting sub-segment is a contiguous run of the segment's positions (identity), rebuilt through AlignmentSegment.create (score = sum of what "
         "is left); the trailing-unpaired trimming never empties the list (no IndexError) for the two operand shapes conflict resolution uses")


# ------------------------------------------------------------------ partial-correctness reading of slice (no operand-shape precondition)
ANYPAIR = OBJ('AlignedPair', 'ScoredAlignedPair', '_NullAlignedPair')
_CMP_INLINE = {'AlignedPair.lessOnBothSequences', 'AlignedPair.lessOrEqualOnAnySequence',
               '_NullAlignedPair.lessOnBothSequences', '_NullAlignedPair.lessOrEqualOnAnySequence',
               'ScoredNotAlignedPosition.lessOnBothSequences', 'ScoredNotAlignedPosition.lessOrEqualOnAnySequence',
               'NotAlignedQueryPosition.lessOnBothSequences', 'NotAlignedQueryPosition.lessOrEqualOnAnySequence',
               'NotAlignedReferencePosition.lessOnBothSequences', 'NotAlignedReferencePosition.lessOrEqualOnAnySequence'}


def _slice_partial_ensures(C, res):
    P, R = C.self.positions, res.positions
    kept = C.F.positions if (C.has('F') and C.F.has('positions')) else R
    return [('result_is_a_contiguous_run_of_the_segment_or_empty', z3.And(
                z3.Implies(R.len > 0, z3.And(is_cls(C._e, res, 'AlignmentSegment'), *[x == y for x, y in zip(R.v.arrs, P.v.arrs)], P.off <= R.off,
                                             R.off + R.len <= P.off + P.len)),
                z3.Implies(R.len == 0, z3.And(is_cls(C._e, res, 'EmptyAlignmentSegment'), res.segmentScore == 0)))),
            ('score_recomputed', z3.Implies(R.len > 0, res.segmentScore == C._e.score_sum(kept.v))),
            ('peak_kept', z3.Implies(R.len > 0, res.peak.ref == C.self.peak.ref))]


def _trimend_partial_inv(L):
    p, p0 = L.positions, L.p0
    return [('still_a_prefix_of_the_taken_run', z3.And(*[x == y for x, y in zip(p.v.arrs, p0.v.arrs)], p.off == p0.off, p.len <= p0.len))]


def _slice_partial_after_take(L):
    L.set('p0', L._st.lst(L._names['positions']))


slice_partial = FunctionSpec(
    file=F, qualname='AlignmentSegment.slice', variant='partial', params=dict(self=SEG, start=ANYPAIR, end=ANYPAIR), returns=SEG,
    ensures=_slice_partial_ensures, may_raise={'IndexError'},
    loops={'AlignmentSegment.__trimNotAlignedPositionsFromEnd:while#0': Loop(inv=_trimend_partial_inv)},
    ghost={'p0': lambda C: C._e.fresh_list(SCORED, 'p0', n=z3.IntVal(0))},
    ghost_at={'assign#1': _slice_partial_after_take}, ghost_frozen={'p0'},
    inline={'AlignmentSegment.__trimNotAlignedPositionsFromEnd'} | _CMP_INLINE,
    serves=('C15', 'C01', 'C08'),
    note="PARTIAL-CORRECTNESS variant (any segment, any zone; IndexError permitted - exception freedom is the default contract's): whenever slice returns, the "
         "result is a contiguous run of the segment's positions rebuilt through create (score = sum of what is left, same peak) or the empty segment")


# ------------------------------------------------------------------ pairs: create / checkForConflicts / resolveConflict of both pair classes
PAIRN = OBJ('_SegmentPairWithNoConflict')
PAIRANY = OBJ('_SegmentPairWithConflict', '_SegmentPairWithNoConflict')


def _run_of(e, sub, seg):
    """segment view `sub` is `seg`'s conflict zone: a contiguous run of seg's positions, or the empty segment"""
    R, P = sub.positions, seg.positions
    return z3.And(z3.Implies(R.len > 0, z3.And(*[x == y for x, y in zip(R.v.arrs, P.v.arrs)], P.off <= R.off, R.off + R.len <= P.off + P.len)),
                  z3.Implies(R.len == 0, is_cls(e, sub, 'EmptyAlignmentSegment')))


def _slice_args_log(which):
    def h(L):
        L.set('gs%da' % which, L.callargs[0].t)
        L.set('gs%db' % which, L.callargs[1].t)
    return h


def _paircreate_ensures(C, res):
    e = C._e
    extra = []
    if C.proving and C.has('F'):
        F_ = C.F
        extra = [('both_zones_are_cut_from_the_conflict_start_to_the_conflict_end_in_that_order', z3.And(
            F_.gs0a == F_.conflictStart.ref, F_.gs1a == F_.conflictStart.ref, F_.gs0b == F_.conflictEnd.ref, F_.gs1b == F_.conflictEnd.ref))]
    return extra + [('pair_holds_the_two_segments_in_order', z3.And(res.leftSegment.ref == C.segment1.ref, res.rightSegment.ref == C.segment2.ref)),
            ('left_conflict_zone_is_a_contiguous_run_of_the_left_segment', _run_of(e, res.leftConflictingSubsegment, C.segment1)),
            ('right_conflict_zone_is_a_contiguous_run_of_the_right_segment', _run_of(e, res.rightConflictingSubsegment, C.segment2))]


pair_create = FunctionSpec(
    file=F, qualname='_SegmentPairWithConflict.create', params=dict(segment1=SEG, segment2=SEG), returns=PAIRC, ensures=_paircreate_ensures,
    may_raise={'IndexError'}, use_variant={'AlignmentSegment.slice': 'partial'}, serves=('C15', 'C01', 'C08'),
    ghost={n: (lambda C: z3.Const('g_nopos', Ref)) for n in ('gs0a', 'gs0b', 'gs1a', 'gs1b')},
    ghost_at={'call:slice#0': _slice_args_log(0), 'call:slice#1': _slice_args_log(1)},
    note="(partial correctness) the pair keeps the two segments in the order given; both conflict zones are contiguous runs of their own segment, cut "
         "between the right segment's first pair and the left segment's last pair")


def _check_ensures(C, res):
    return [('pair_holds_this_segment_and_the_other_in_order', z3.And(res.leftSegment.ref == C.self.ref, res.rightSegment.ref == C.other.ref))]


checkForConflicts = FunctionSpec(
    file=F, qualname='AlignmentSegment.checkForConflicts', params=dict(self=OBJ('AlignmentSegment'), other=SEG), returns=PAIRANY, ensures=_check_ensures,
    may_raise={'IndexError'}, inline={'AlignmentSegment.endOverlapsWithStartOf'} | _CMP_INLINE, serves=('C15', 'C01', 'C08'),
    note="(partial correctness) returns a pair object over (this segment, the other segment), whichever way the overlap test goes")
checkForConflicts_empty = FunctionSpec(
    file=F, qualname='EmptyAlignmentSegment.checkForConflicts', params=dict(self=OBJ('EmptyAlignmentSegment'), other=SEG), returns=PAIRN,
    ensures=_check_ensures, serves=('C15', 'C01', 'C08'), note="an empty segment never conflicts: pair over (this, other)")

resolveNoConflict = FunctionSpec(
    file=F, qualname='_SegmentPairWithNoConflict.resolveConflict', params=dict(self=PAIRN), returns=TUPLE(SEG, SEG),
    ensures=lambda C, res: _pair_results(C, res) + [('both_segments_returned_unchanged', z3.And(res[0].ref == C.self.leftSegment.ref,
                                                                                              res[1].ref == C.self.rightSegment.ref))],
    serves=('C15', 'C01'), note="no conflict: both segments are returned as they are")

SPECS = [sub_seg, sub_list, sub_opaque, optimalMergeIndex, removeWhole, trim, trim_geometry, getReferenceLabels, getQueryLabels, resolveConflict, slice_, slice_partial,
         pair_create, checkForConflicts, checkForConflicts_empty, resolveNoConflict]


# ------------------------------------------------------------------ the resolver (src/alignment/segment_with_resolved_conflicts.py)
FR = 'src/alignment/segment_with_resolved_conflicts.py'
RESOLVER = OBJ('AlignmentSegmentConflictResolver')
ORIGIN = z3.Function('origin_index', z3.ArraySort(z3.IntSort(), Ref), z3.ArraySort(z3.IntSort(), Ref), z3.IntSort(), z3.IntSort(), z3.IntSort())


def _compose(n, c, o):
    """index function of n's positions inside o's, given n derived from c and c derived from o (either step may be the identity)"""
    return lambda j: z3.If(n == c, SUBF(c, o, j), z3.If(c == o, SUBF(n, c, j), SUBF(c, o, SUBF(n, c, j))))


def _resolver_requires(C):
    from specs.chainer import _ch_requires
    return _ch_requires(C)


def _loop_inv(L):
    e = L._e
    cur, orig, prev = L.chainedSegments, L.orig, L.prev
    i = z3.Int('rli')
    if L.proving:
        f = lambda i: _compose(cur.raw(i).t, prev.raw(i).t, orig.raw(i).t)
    else:
        f = lambda i: skolem_index(cur.raw(i).t, orig.raw(i).t)
    return [('same_number_of_segments', z3.And(cur.len == orig.len, prev.len == orig.len)),
            ('every_segment_is_the_chained_segment_at_its_place_or_rebuilt_from_a_subsequence_of_it',
             z3.ForAll([i], z3.Implies(z3.And(0 <= i, i < cur.len), derived(e, cur[i], orig[i], f(i), L.proving)),
                       **({} if L.proving else dict(patterns=[cur.raw(i).t]))))]


def _snap(names):
    def h(L):
        v = L._st.lst(L._names['chainedSegments'])
        for n in names:
            L.set(n, v)
    return h


def members_derived(e, R, S, w, f, proving):
    """every segment of list view R is a segment of list view S (at index w(T)) or was rebuilt from a sub-sequence of its positions.
    Quantified over the ABSOLUTE index T of R's base array (R may be an object field with a symbolic offset)."""
    T = z3.Int('mdT')
    a = Abs(R)
    body = z3.Implies(a.inside(T), z3.And(0 <= w(T), w(T) < S.len, derived(e, a[T], S[w(T)], f(T), proving)))
    return z3.ForAll([T], body) if proving else z3.ForAll([T], body, patterns=[z3.Select(R.v.arrs[0], T)])


def _origin(R, S):
    return lambda T: ORIGIN(R.v.arrs[0], S.v.arrs[0], S.off, T)


def _pairs_ensures(C, res):
    e = C._e
    S = C.segments
    if C.proving:
        orig = C.F.orig
        w = lambda T: CHSRC(orig.v.arrs[0], S.v.arrs[0], S.off, T - res.off)
        f = lambda T: skolem_index(Abs(res).raw(T).t, orig.raw(T - res.off).t)
    else:
        w = _origin(res, S)
        f = lambda T: skolem_index(Abs(res).raw(T).t, S.raw(w(T)).t)
    return [('same_or_fewer_segments', res.len <= S.len),
            ('every_resulting_segment_is_an_input_segment_or_rebuilt_from_a_subsequence_of_one', members_derived(e, res, S, w, f, C.proving))]


def _resolve_ensures(C, res):
    e = C._e
    S, R = C.segments, res.segments
    if C.proving and C.has('F') and C.F.has('resolvedSegments'):
        mid = C.F.resolvedSegments                      # the callee's result: its Skolem functions are the witnesses
        w = lambda T: ORIGIN(mid.v.arrs[0], S.v.arrs[0], S.off, mid.off + (T - R.off))
        f = lambda T: skolem_index(Abs(R).raw(T).t, S.raw(w(T)).t)
    elif C.proving:
        w = lambda T: T - R.off                         # fewer than two segments: returned as they are
        f = lambda T: skolem_index(Abs(R).raw(T).t, S.raw(w(T)).t)
    else:
        w = _origin(R, S)
        f = lambda T: skolem_index(Abs(R).raw(T).t, S.raw(w(T)).t)
    return [('same_or_fewer_segments', R.len <= S.len),
            ('every_resulting_segment_is_an_input_segment_or_rebuilt_from_a_subsequence_of_one', members_derived(e, R, S, w, f, C.proving))]


from specs.chainer import CHSRC
pairAndResolve = FunctionSpec(
    file=FR, qualname='AlignmentSegmentConflictResolver.__pairAndResolveConflicts', params=dict(self=RESOLVER, segments=LIST(SEG)), returns=LIST(SEG),
    requires=_resolver_requires, ensures=_pairs_ensures, may_raise={'IndexError'},
    loops={'for#0': Loop(inv=_loop_inv)},
    ghost={'orig': lambda C: C._e.fresh_list(SEG, 'orig', n=z3.IntVal(0)), 'prev': lambda C: C._e.fresh_list(SEG, 'prev', n=z3.IntVal(0))},
    ghost_at={'assign#0': _snap(('orig', 'prev')), 'assign#1': _snap(('prev',))}, ghost_frozen={'orig'},
    inline={'AlignmentSegmentConflictResolver.__pairIndexes'},
    serves=('C15', 'C01'),
    note="(partial correctness) the loop over consecutive chain members: every resulting segment is the chained segment at its place or was rebuilt from a "
         "sub-sequence of its positions (never adds, moves or re-scores positions; score = sum of what is left); the chained segments are input segments")

resolveConflicts = FunctionSpec(
    file=FR, qualname='AlignmentSegmentConflictResolver.resolveConflicts', params=dict(self=RESOLVER, segments=LIST(SEG)),
    returns=OBJ('AlignmentSegmentsWithResolvedConflicts'), requires=_resolver_requires, ensures=_resolve_ensures, may_raise={'IndexError'},
    serves=('C15', 'C01'),
    note="(partial correctness) C15, first sentence, for all inputs: resolving conflicts never adds, moves or re-scores positions - every resulting segment is "
         "one of the input segments or was rebuilt (AlignmentSegment.create: score = sum of what is left, same peak) from a sub-sequence of one input "
         "segment's positions, in the same order; contiguity of what is left and disjointness of the results are bounded (C15 monitor; K1, K2)")

SPECS += [pairAndResolve, resolveConflicts]
