"""Contracts for AlignedPair.__deduplicateByKey / deduplicate (C12, C01)."""
import z3
from pyvc.kinds import *
from pyvc.dsl import FunctionSpec, Loop, forall, rng
from specs.schema import PAIR
from specs.common import zabs

F = 'src/alignment/alignment_position.py'
UPAIR = OBJ('AlignedPair')


def dist(p):
    return zabs(p.queryShift)


def _dd_inv(L):
    e = L._e
    vg, so = e.last_groupby, e.last_sorted
    g = L.for_0
    out, mi = L.out, L.mi
    S = so['S']
    k, t = z3.Int('k'), z3.Int('t')
    Sv = lambda idx: L._view_list(S)[idx]
    return [('one_output_per_group', z3.And(out.len == g, mi.len == g)),
            ('outputs_are_group_minima', forall(k, z3.Implies(rng(0, k, g), z3.And(
                vg.b(k) <= mi[k], mi[k] < vg.b(k + 1), out.raw(k).t == z3.Select(S.arrs[0], mi[k]),
                forall(t, z3.Implies(z3.And(vg.b(k) <= t, t < vg.b(k + 1)), dist(Sv(mi[k])) <= dist(Sv(t))),
                       [z3.Select(S.arrs[0], t)]),
                forall(t, z3.Implies(z3.And(vg.b(k) <= t, t < mi[k]), dist(Sv(mi[k])) < dist(Sv(t))),
                       [z3.Select(S.arrs[0], t)]))), [out.raw(k).t]))]


def _dd_yield(L):
    e = L._e
    vg = e.last_groupby
    g = L.for_0
    L.set('mi', e.list_append(L.raw('mi'), VInt(e.last_argM)))


def _dd_ensures(C, res):
    X = C.pairs
    key = C.key
    k, k2, x = z3.Int('k'), z3.Int('k2'), z3.Int('x')
    cl = [('keys_strictly_increasing', forall([k, k2], z3.Implies(z3.And(0 <= k, k < k2, k2 < res.len), key(res[k]) < key(res[k2])),
                                              [MP(res.raw(k).t, res.raw(k2).t)]))]
    e = C._e
    if C.has('F'):
        so, vg, mi = C.note('last_sorted'), C.note('last_groupby'), C.F.mi
        src = lambda k: so['pi'](mi[k])               # index in the input of output element k
        rep = lambda x: vg.grp(so['pinv'](x))         # output index representing input element x
        cl += [('every_output_is_an_input_pair', forall(k, z3.Implies(rng(0, k, res.len), z3.And(
                    0 <= src(k), src(k) < X.len, res.raw(k).t == X.raw(src(k)).t)), [res.raw(k).t])),
               ('every_input_key_is_represented', forall(x, z3.Implies(rng(0, x, X.len), z3.And(
                   0 <= rep(x), rep(x) < res.len, key(res[rep(x)]) == key(X[x]))), [X.raw(x).t])),
               ('output_is_nearest_of_its_key_and_first_among_ties', forall([k, x], z3.Implies(
                   z3.And(rng(0, k, res.len), rng(0, x, X.len), key(X[x]) == key(res[k])),
                   z3.And(dist(res[k]) <= dist(X[x]), z3.Implies(x < src(k), dist(res[k]) < dist(X[x])))),
                   [MP(res.raw(k).t, X.raw(x).t)]))]
    else:
        srcf = z3.Function(fresh_name('dd_src'), z3.IntSort(), z3.IntSort())
        repf = z3.Function(fresh_name('dd_rep'), z3.IntSort(), z3.IntSort())
        cl += [('every_output_is_an_input_pair', forall(k, z3.Implies(rng(0, k, res.len), z3.And(
                    0 <= srcf(k), srcf(k) < X.len, res.raw(k).t == X.raw(srcf(k)).t)), [res.raw(k).t])),
               ('every_input_key_is_represented', forall(x, z3.Implies(rng(0, x, X.len), z3.And(
                   0 <= repf(x), repf(x) < res.len, key(res[repf(x)]) == key(X[x]))), [X.raw(x).t])),
               ('output_is_nearest_of_its_key_and_first_among_ties', forall([k, x], z3.Implies(
                   z3.And(rng(0, k, res.len), rng(0, x, X.len), key(X[x]) == key(res[k])),
                   z3.And(dist(res[k]) <= dist(X[x]), z3.Implies(x < srcf(k), dist(res[k]) < dist(X[x])))),
                   [MP(res.raw(k).t, X.raw(x).t)]))]
        C._e.last_dedupe = dict(src=srcf, rep=repf)
        C._e.dedupe_log.append(C._e.last_dedupe)
        C._st.notes['dedupe_log'] = C._st.notes.get('dedupe_log', ()) + (C._e.last_dedupe,)
    return cl


deduplicateByKey = FunctionSpec(
    file=F, qualname='AlignedPair.__deduplicateByKey', params=dict(pairs=LIST(UPAIR), key=FUNC(INT)), yields=UPAIR,
    ensures=_dd_ensures,
    loops={'for#0': Loop(inv=_dd_inv)},
    ghost={'mi': lambda C: C._e.fresh_list(INT, 'mi', n=z3.IntVal(0))},
    ghost_at={'yield#0': _dd_yield},
    inline={'AlignedPair.distanceSelector'},
    serves=('C12', 'C01'),
    note="one pair per key, keys strictly increasing; the kept pair has minimal |offset| among the candidates with its key, "
         "the first such in candidate order; every candidate key is represented",
)


# ------------------------------------------------------------------ deduplicate = two passes


def _d2_ensures(C, res):
    X = C.pairs
    k, k2, x = z3.Int('k'), z3.Int('k2'), z3.Int('x')
    rid = lambda p: p.reference.siteId
    qid = lambda p: p.query.siteId
    member = z3.Function(fresh_name('d2_src'), z3.IntSort(), z3.IntSort())
    if C.has('F'):
        dl = C.note('dedupe_log')
        d1, d2 = dl[-2], dl[-1]
        memb = lambda k: d1['src'](d2['src'](k))
    else:
        memb = lambda k: member(k)
    cl = [('every_kept_pair_is_a_candidate', forall(k, z3.Implies(rng(0, k, res.len), z3.And(0 <= memb(k), memb(k) < X.len, res.raw(k).t == X.raw(memb(k)).t)),
                                                    [res.raw(k).t])),
          ('reference_labels_strictly_increasing', forall([k, k2], z3.Implies(z3.And(0 <= k, k < k2, k2 < res.len), rid(res[k]) < rid(res[k2])),
                                                          [MP(res.raw(k).t, res.raw(k2).t)])),
          ('query_labels_pairwise_distinct', forall([k, k2], z3.Implies(z3.And(0 <= k, k < k2, k2 < res.len), qid(res[k]) != qid(res[k2])),
                                                    [MP(res.raw(k).t, res.raw(k2).t)])),
          ('mutual_strict_nearest_candidates_are_kept', forall(x, z3.Implies(
              z3.And(rng(0, x, X.len),
                     forall(k, z3.Implies(z3.And(rng(0, k, X.len), k != x, z3.Or(qid(X[k]) == qid(X[x]), rid(X[k]) == rid(X[x]))),
                                          dist(X[x]) < dist(X[k])), [X.raw(k).t])),
              z3.Exists([k], z3.And(rng(0, k, res.len), res.raw(k).t == X.raw(x).t))), [X.raw(x).t]))]
    return cl


deduplicate = FunctionSpec(
    file=F, qualname='AlignedPair.deduplicate', params=dict(pairs=LIST(UPAIR)), returns=LIST(UPAIR),
    ensures=_d2_ensures,
    inline={'AlignedPair.querySiteIdSelector', 'AlignedPair.referenceSiteIdSelector'},
    serves=('C12', 'C01'),
    note="after the query-keyed and the reference-keyed pass the pairs are one-to-one on both label numbers, and a candidate that is "
         "strictly nearer than every other candidate sharing one of its labels survives both passes",
)

SPECS = [deduplicateByKey, deduplicate]
