"""Contracts for AlignmentSegment.create and the segment builder (C13, C04)."""
import z3
from pyvc.kinds import *
from pyvc.dsl import FunctionSpec, Loop, forall, rng
from specs.schema import SCORED, SEG, PEAK
from specs.common import same_list, is_cls, zmax

# ------------------------------------------------------------------ AlignmentSegment.create


def _create_ensures(C, res):
    e = C._e
    P = C.positions
    total = e.score_sum(C.raw('positions'))
    return [('nonempty_is_plain_segment', z3.Implies(P.len > 0, is_cls(e, res, 'AlignmentSegment'))),
            ('nonempty_keeps_positions', z3.Implies(P.len > 0, same_list(res.positions, P))),
            ('score_is_sum_of_member_scores', z3.Implies(P.len > 0, res.segmentScore == total)),
            ('nonempty_keeps_peak', z3.Implies(P.len > 0, res.peak.ref == C.peak.ref)),
            ('empty_is_empty_segment', z3.Implies(P.len == 0, z3.And(is_cls(e, res, 'EmptyAlignmentSegment'),
                                                                     res.positions.len == 0, res.segmentScore == 0)))]


create = FunctionSpec(
    file='src/alignment/segments.py', qualname='AlignmentSegment.create',
    params=dict(positions=LIST(SCORED), peak=PEAK, allPeakPositions=LIST(SCORED)), returns=SEG,
    ensures=_create_ensures,
    serves=('C04', 'C13', 'C15'),
    note="segmentScore = sum of member scores; empty position list gives the empty segment",
)

# ------------------------------------------------------------------ _AlignmentSegmentBuilder.getSegments
# Ghost: brk[k] = index at which the scan broke after result k (n if it ran to the end).
# Pf = prefix sums of the scores of self.positions (the function the engine ties sum() to).


class ListViewAbs:
    """element access by absolute index of the base array of list view P"""
    def __init__(self, P):
        self.P = P

    def at(self, T):
        return self.P[T - self.P.off]

    def score(self, T):
        return self.at(T).score

    def isa(self, T, c):
        return self.at(T).isa(c)


def _seg_ok(Pf, lo, hi, ms, bst, A, Bq, Babs, score):
    """the C13 statement for one segment = absolute index range [A, Bq) of the base array, scan ended at Babs;
    lo/hi = absolute range of the whole position list.  Quantifiers range over absolute indices T, U."""
    T, U = z3.Int('T'), z3.Int('U')
    return [
        ('run_in_range', z3.And(lo <= A, A < Bq, Bq <= Babs, Babs <= hi)),
        ('score_is_sum_and_at_least_minScore', z3.And(score == Pf(Bq) - Pf(A), score >= ms)),
        ('prefix_sums_positive', forall(T, z3.Implies(z3.And(A < T, T <= Bq), Pf(T) - Pf(A) > 0), [Pf(T)])),
        ('never_falls_threshold_below_running_max',
         forall([U, T], z3.Implies(z3.And(A < U, U < T, T <= Bq), Pf(T) > Pf(U) - bst),
                [MP(Pf(U), Pf(T))])),
        ('ends_at_first_maximum', forall(U, z3.Implies(z3.And(A < U, U < Bq), Pf(U) < Pf(Bq)), [Pf(U)])),
        ('not_improvable_before_break', forall(T, z3.Implies(z3.And(Bq < T, T <= Babs), Pf(T) <= Pf(Bq)), [Pf(T)])),
        ('break_was_forced', z3.Or(Babs == hi, Pf(Babs + 1) - Pf(A) <= zmax(0, score - bst))),
    ]


def _results_ok(e, P, R, brk, ms, bst, upto=None, peak=None):
    """all results are SegOK, in order, separated; returns list of named clauses (quantified over k)"""
    Pf = e.pf(P.v)
    off, n = P.off, P.len
    k = z3.Int('k')
    A = lambda k: R[k].positions.off
    Bq = lambda k: R[k].positions.off + R[k].positions.len
    trig = [R.raw(k).t]
    out = [('results_are_runs_of_the_input',
            forall(k, z3.Implies(rng(0, k, R.len), z3.And(*[x == y for x, y in zip(R[k].positions.v.arrs, P.v.arrs)])), trig))]
    for name, body in _seg_ok(Pf, off, off + n, ms, bst, A(k), Bq(k), off + brk[k], R[k].segmentScore):
        out.append((name, forall(k, z3.Implies(rng(0, k, R.len), body), trig)))
    if peak is not None:
        out.append(('segments_carry_the_seed_peak', forall(k, z3.Implies(rng(0, k, R.len), R[k].peak.ref == peak.ref), trig)))
    out.append(('separated_and_in_order', forall(k, z3.Implies(z3.And(1 <= k, k < R.len), off + brk[k - 1] < A(k)), [R.raw(k).t])))
    if upto is not None:
        out.append(('results_end_before_scan_start', forall(k, z3.Implies(rng(0, k, R.len), off + brk[k] < upto), trig)))
    return out


def _builder_inv(L):
    e = L._e
    me = L.self
    P = me.positions
    Pf = e.pf(P.v)
    off, n = P.off, P.len
    S, E, ext = off + me.currentSegmentStart, off + me.extendedSegmentEndPosition, me.extendedSegmentScore
    cur = me.currentSegment
    cs = cur.segmentScore
    ms, bst = me.minScore, me.breakSegmentThreshold
    R, brk = me.resultSegments, L.brk
    T, U = z3.Int('T'), z3.Int('U')
    ce = cur.positions.off + cur.positions.len           # absolute end index of an "own" current segment
    own = z3.And(is_cls(e, cur, 'AlignmentSegment'),
                 *[x == y for x, y in zip(cur.positions.v.arrs, P.v.arrs)],
                 cur.positions.off == S, cur.positions.len > 0, ce <= E,
                 cs == Pf(ce) - Pf(S), cs > 0,
                 forall(U, z3.Implies(z3.And(S < U, U < ce), Pf(U) - Pf(S) < cs), [Pf(U)]))
    fresh = z3.And(cs == 0)
    stale = z3.And(0 < cs, cs < ms)           # a rejected run the builder keeps as state (real behaviour)
    inv = [('alignment_end', L.alignmentEnd == n - 1),
           ('scan_window', z3.And(off <= S, S <= E, E <= off + n)),
           ('extended_score_is_window_sum', ext == Pf(E) - Pf(S)),
           ('window_prefixes_positive', forall(T, z3.Implies(z3.And(S < T, T <= E), Pf(T) - Pf(S) > 0), [Pf(T)])),
           ('window_respects_threshold', forall([U, T], z3.Implies(z3.And(S < U, U < T, T <= E), Pf(T) > Pf(U) - bst),
                                                [MP(Pf(U), Pf(T))])),
           ('current_dominates_window', forall(U, z3.Implies(z3.And(S < U, U <= E), Pf(U) - Pf(S) <= cs), [Pf(U)])),
           ('current_segment_shape', z3.Or(fresh, own, stale)),
           ('current_segment_carries_the_seed_peak', cur.peak.ref == me.peak.ref),
           ('ghost_sync', brk.len == R.len)]
    inv += _results_ok(e, P, R, brk, ms, bst, upto=S, peak=me.peak)
    return inv


def unpaired_do_not_score(P):
    T = z3.Int('T')
    base = ListViewAbs(P)
    return forall(T, z3.Implies(z3.And(P.off <= T, T < P.off + P.len, base.isa(T, 'ScoredNotAlignedPosition')),
                                base.score(T) <= 0), [base.at(T).ref])


def _builder_requires(C):
    me = C.self
    k = z3.Int('k')
    P = me.positions
    return [('minScore_positive', me.minScore > 0),
            ('fresh_builder', z3.And(me.currentSegmentStart == 0, me.extendedSegmentEndPosition == 0,
                                     me.extendedSegmentScore == 0, me.currentSegment.segmentScore == 0,
                                     me.resultSegments.len == 0, me.currentSegment.peak.ref == me.peak.ref)),
            ('unpaired_positions_do_not_score', unpaired_do_not_score(P))]


def _statement(e, P, res, brk, ms, bst, peak=None):
    """C13, clause by clause, over the returned list `res`"""
    k = z3.Int('k')
    single_empty = z3.And(res.len == 1, res[0].positions.len == 0, res[0].isa('EmptyAlignmentSegment'))
    cl = [('single_empty_segment_iff_no_run_qualifies', z3.Or(single_empty, z3.And(res.len >= 1, res[0].positions.len > 0)))]
    for name, term in _results_ok(e, P, res, brk, ms, bst, peak=peak):
        cl.append((name, z3.Or(single_empty, term)))
    # start and end on a positively scored pair
    Pf = e.pf(P.v)
    base = ListViewAbs(P)
    A = lambda k: res[k].positions.off
    Bq = lambda k: res[k].positions.off + res[k].positions.len
    # score of one position = difference of neighbouring prefix sums (instances of the Pf recurrence)
    cl.append(('starts_and_ends_on_a_positive_score', z3.Or(single_empty, forall(k, z3.Implies(
        rng(0, k, res.len), z3.And(base.score(A(k)) > 0, base.score(Bq(k) - 1) > 0)), [res.raw(k).t]))))
    cl.append(('starts_and_ends_on_a_pair', z3.Or(single_empty, forall(k, z3.Implies(
        rng(0, k, res.len), z3.And(base.isa(A(k), 'ScoredAlignedPair'), base.isa(Bq(k) - 1, 'ScoredAlignedPair'))),
        [res.raw(k).t]))))
    return cl


class SkolemList:
    """a ghost list known only through a skolem function (the callee's ghost state seen from a call site)"""
    def __init__(self, name):
        self.f = z3.Function(fresh_name(name), z3.IntSort(), z3.IntSort())

    def __getitem__(self, k):
        return self.f(k)


def _builder_ensures(C, res):
    me = C.self
    brk = C.F.brk if C.has('F') else SkolemList('brk')
    return _statement(C._e, me.positions, res, brk, me.minScore, me.breakSegmentThreshold)


# ------------------------------------------------------------------ AlignmentSegmentsFactory (glue: constructor + builder)
FACTORY = OBJ('AlignmentSegmentsFactory')


def _factory_requires(C):
    return [('minScore_positive', C.self.minScore > 0), ('unpaired_positions_do_not_score', unpaired_do_not_score(C.positions))]


def _factory_ensures(C, res):
    brk = SkolemList('brk')
    if C.has('F'):
        brk = C._st.notes['builder_brk']
    return _statement(C._e, C.positions, res, brk, C.self.minScore, C.self.breakSegmentThreshold, peak=C.peak)


def _builder_ensures_logged(C, res):
    me = C.self
    if C.has('F'):
        brk = C.F.brk
    else:
        brk = SkolemList('brk')
        C._st.notes['builder_brk'] = brk
    return _statement(C._e, me.positions, res, brk, me.minScore, me.breakSegmentThreshold, peak=me.peak)


factory_getSegments = FunctionSpec(
    file='src/alignment/segments_factory.py', qualname='AlignmentSegmentsFactory.getSegments',
    params=dict(self=FACTORY, positions=LIST(SCORED), peak=PEAK), returns=LIST(SEG),
    requires=_factory_requires, ensures=_factory_ensures, serves=('C13', 'C04'),
    note="public entry point: constructs the builder (fresh state, thresholds passed in the right order) and runs it; the C13 statement over the given position list")


def _fi_ensures(C, res):
    return [('thresholds_are_stored_as_given', z3.And(C.self.minScore == C.minScore, C.self.breakSegmentThreshold == C.breakSegmentThreshold))]


factory_init = FunctionSpec(
    file='src/alignment/segments_factory.py', qualname='AlignmentSegmentsFactory.__init__',
    params=dict(self=FACTORY, minScore=REAL, breakSegmentThreshold=REAL), returns=NONE,
    raises={'ValueError': lambda C: C.minScore <= 0}, ensures=_fi_ensures, serves=('C13',),
    note="ValueError exactly when minScore <= 0; both thresholds stored unchanged (0 included)")


def _brk_append(L):
    e = L._e
    L.set('brk', e.list_append(L.raw('brk'), VInt(L.self.extendedSegmentEndPosition)))


BUILDER = '_AlignmentSegmentBuilder'
builder_getSegments = FunctionSpec(
    file='src/alignment/segments_factory.py', qualname=f'{BUILDER}.getSegments',
    params=dict(self=OBJ(BUILDER)), returns=LIST(SEG),
    requires=_builder_requires,
    ensures=_builder_ensures_logged,
    loops={'while#0': Loop(inv=_builder_inv)},
    ghost={'brk': lambda C: C._e.fresh_list(INT, 'brk', n=z3.IntVal(0))},
    ghost_at={f'{BUILDER}.__addCurrentSegmentToResultIfScoreIsEnough:call#0': _brk_append},
    inline={f'{BUILDER}.__extendedSegmentScoreFellBelowBreakSegmentThreshold', f'{BUILDER}.__breakSegment',
            f'{BUILDER}.__addCurrentSegmentToResultIfScoreIsEnough', f'{BUILDER}.__acceptExtendedSegmentIfScoreIsImproved'},
    serves=('C13', 'C04'),
    note="the C13 statement as postcondition; ghost brk records where the scan broke after each result",
)


# ------------------------------------------------------------------ constructors: class invariants (specs/schema.py) are their obligations
from specs.schema import CLASS_INVARIANTS
segment_init = FunctionSpec(
    file='src/alignment/segments.py', qualname='AlignmentSegment.__init__',
    params=dict(self=OBJ('AlignmentSegment'), positions=LIST(SCORED), segmentScore=REAL, peak=PEAK, allPeakPositions=LIST(SCORED)), returns=NONE,
    ensures=lambda C, res: [('fields_stored_as_given', z3.And(same_list(C.self.positions, C.positions), C.self.segmentScore == C.segmentScore,
                                                             C.self.peak.ref == C.peak.ref)),
                            ('class_invariant_a_segment_with_a_pair_has_aligned_positions', CLASS_INVARIANTS['AlignmentSegment'][0](C._e, C.self))],
    serves=('C14', 'C15', 'C01'), verify_only=True,
    note="class invariant of AlignmentSegment: if any position is an aligned pair, alignedPositions (the pairs among the positions) is not empty")
empty_segment_init = FunctionSpec(
    file='src/alignment/segments.py', qualname='EmptyAlignmentSegment.__init__',
    params=dict(self=OBJ('EmptyAlignmentSegment'), peak=OPT(PEAK), allPeakPositions=OPT(LIST(SCORED))), returns=NONE,
    ensures=lambda C, res: [('class_invariant_an_empty_segment_has_no_positions_and_score_zero', CLASS_INVARIANTS['EmptyAlignmentSegment'][0](C._e, C.self))],
    serves=('C14', 'C15', 'C01'), verify_only=True,
    note="class invariant of EmptyAlignmentSegment: no positions, no aligned positions, score 0")

SPECS = [create, builder_getSegments, factory_getSegments, factory_init, segment_init, empty_segment_init]
