"""Contract for WorkflowCoordinatorFactory.create: the values given on the command line reach the components that use them (C04, C05)."""
import z3
from pyvc.kinds import *
from pyvc.dsl import FunctionSpec


def _ensures(C, res):
    a = C.self.args
    al = res.aligner
    sc = al.segmentConflictResolver.segmentChainer.sequentialityScorer
    return [('scoring_parameters', z3.And(al.scorer.perfectMatchScore == a.perfectMatchScore,
                                          al.scorer.distancePenaltyMultiplier == a.distancePenaltyMultiplier,
                                          al.scorer.unmatchedPenalty == a.unmatchedPenalty)),
            ('segment_thresholds', z3.And(al.segmentsFactory.minScore == a.minScore, al.segmentsFactory.breakSegmentThreshold == a.breakSegmentThreshold)),
            ('max_pair_distance', al.alignmentEngine.maxDistance == a.maxPairDistance),
            ('join_score_parameters', z3.And(sc.segmentJoinMultiplier == a.segmentJoinMultiplier, sc.sequentialityScore == a.sequentialityScore)),
            ('resolutions_and_blur', z3.And(res.primaryGenerator.resolution == a.primaryResolution, res.primaryGenerator.blurRadius == a.primaryBlur,
                                            res.secondaryGenerator.resolution == a.secondaryResolution, res.secondaryGenerator.blurRadius == a.secondaryBlur)),
            ('peaks_count', res.peaksSelector.count == a.peaksCount),
            ('arguments_object_passed_on', res.args.ref == a.ref),
            ('multi_pass_coordinator_unless_single_mode', res.isa('_MultiPassWorkflowCoordinator') == (a.outputMode.ref != C._e.str_const('single').t))]


create = FunctionSpec(
    file='src/workflow_coordinator_factory.py', qualname='WorkflowCoordinatorFactory.create',
    params=dict(self=OBJ('WorkflowCoordinatorFactory')), returns=OBJ('_WorkflowCoordinator', '_MultiPassWorkflowCoordinator'),
    requires=lambda C: [('minScore_positive', C.self.args.minScore > 0)],
    ensures=_ensures, serves=('C04', 'C05'),
    note="each command-line value reaches the constructor parameter of the same meaning (straight-line symbolic execution of the constructors)")

SPECS = [create]
