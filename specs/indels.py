"""Contracts for the two indel finders (C20, second sentence): sv/molecule_indels.py and sv/segment_indels.py, look_for_indels_in_breakage.

Every call put into the result is self-consistent: it names the ids of ONE of the given alignments, its four coordinates are the coordinates (in the
given maps) of the two flanking aligned labels - the label pair at the breakpoint and the next aligned pair of that alignment -, its Length is the
reference gap minus the query gap between them, and its type - and the list it is filed under - is 'insertion' exactly when that is negative.

Partial correctness: a breakpoint that is not in the table, a label number outside the map and the like end the run with KeyError / IndexError; the
postcondition speaks about the calls of a run that returns.  The dicts are read-only arguments (pyvc DICT kind); a table row
['insertion', ref, rs, re, qid, qs, qe, diff] is a fixed-length row (rows_as_tuples).
"""
import z3
from pyvc.kinds import *
from pyvc.dsl import FunctionSpec, Loop, forall, rng

ALN = OBJ('BionanoAlignment')
PAIR = OBJ('BenchmarkAlignedPair', 'BenchmarkAlignedPairWithDistance')
OMAP = OBJ('OpticalMap')
ROW = TUPLE(STR, INT, REAL, REAL, INT, REAL, REAL, REAL)
CALLS = RECORD(insertion=LIST(ROW), deletion=LIST(ROW))


def _abs(x):
    return z3.If(x >= 0, x, -x)


def _at(L, i):
    """L[i] as Python reads it (a negative index counts from the end): the contract then needs no assumption about the sign of label numbers / breakpoints"""
    from pyvc.dsl import view
    return view(L._e, L._st, ite_val(i >= 0, L.raw(i), L.raw(L.len + i)))


def _label(m, site):
    """coordinate of label number `site` (1-based) of map m"""
    return _at(m.positions, site - 1)


def _row_ok(C, row, src, in_insertions: bool, flank):
    """row = one call; src = the (chromosome index, alignment index[, breakpoint index]) it was made from"""
    e = C._e
    a = C.alignment_dict.values[src[0]][src[1]]
    first, nxt = flank(C, a, src)
    r, q = C[C._rname][a.referenceId], C[C._qname][a.queryId]
    ins, dele = e.str_const('insertion').t, e.str_const('deletion').t
    typ, ref, rs, re_, qid, qs, qe, length = row
    return [('names_the_ids_of_its_alignment', z3.And(ref == a.referenceId, qid == a.queryId)),
            ('reference_coordinates_are_those_of_the_flanking_labels', z3.And(rs == _label(r, first.reference.siteId), re_ == _label(r, nxt.reference.siteId))),
            ('query_coordinates_are_those_of_the_flanking_labels', z3.And(qs == _label(q, first.query.siteId), qe == _label(q, nxt.query.siteId))),
            ('Length_is_reference_gap_minus_query_gap', length == _abs(rs - re_) - _abs(qs - qe)),
            ('type_is_insertion_exactly_when_Length_is_negative', z3.And(z3.Or(typ.ref == ins, typ.ref == dele), (typ.ref == ins) == (length < 0))),
            ('filed_under_its_type', typ.ref == (ins if in_insertions else dele))]


def _calls_ok(C, calls, src_ins, src_del, flank, pos=None):
    k = z3.Int('k')
    out = []
    for name, L, S, is_ins in (('insertion', calls['insertion'], src_ins, True), ('deletion', calls['deletion'], src_del, False)):
        V = C.alignment_dict.values
        s = S[k]
        in_range = z3.And(0 <= s[0], s[0] < V.len, 0 <= s[1], s[1] < V[s[0]].len)
        if pos is not None:
            in_range = z3.And(in_range, pos(s))
        out += [(f'one_source_alignment_per_{name}_call', z3.And(S.len == L.len, L.off == 0, S.off == 0)),
                (f'every_{name}_call_has_a_source', forall(k, z3.Implies(rng(0, k, L.len), in_range), [L.raw(k).items[1].t]))]
        out += [(f'every_{name}_call::{cn}', forall(k, z3.Implies(rng(0, k, L.len), ct), [L.raw(k).items[1].t]))
                for cn, ct in _row_ok(C, L[k], s, is_ins, flank)]
    return out


class _Named:
    """Ctx with the names of the two map tables (they differ between the two files)"""
    def __init__(self, C, rname, qname):
        object.__setattr__(self, '_C', C)
        object.__setattr__(self, '_rname', rname)
        object.__setattr__(self, '_qname', qname)

    def __getattr__(self, n): return getattr(self._C, n)
    def __getitem__(self, n): return self._C[n]


# ------------------------------------------------------------------------------------------------ sv/molecule_indels.py
def _mol_flank(C, a, src):
    bp = C.breakage_dict[a.queryId]
    return bp[1], _at(a.alignedPairs, bp[0] + 1)


def _mol_inv(depth):
    def inv(L):
        N = _Named(L, 'r_dict', 'q_dict')
        V = L.alignment_dict.values
        if depth == 0:
            pos = lambda s: s[0] < L.for_0
            frame = [('chromosomes_in_order', z3.And(0 <= L.for_0, L.for_0 <= V.len))]
        else:
            pos = lambda s: z3.Or(s[0] < L.for_0, z3.And(s[0] == L.for_0, s[1] < L.for_1))
            frame = [('this_chromosome', z3.And(0 <= L.for_0, L.for_0 < V.len, L.chromosome_alignments.len == V[L.for_0].len,
                                                L.chromosome_alignments.off == V[L.for_0].off,
                                                *[a == b for a, b in zip(L.chromosome_alignments.v.arrs, V[L.for_0].v.arrs)]))]
        return frame + _calls_ok(N, L.indels, L.src_ins, L.src_del, _mol_flank, pos)
    return inv


def _sources(C, width):
    """the source of every call: the ghost lists when the postcondition is proved, some lists (Skolem constants) when it is assumed"""
    if C.proving and C.has('F'):
        return C.F.src_ins, C.F.src_del
    mk = lambda n: C._view_list(C._e.fresh_list(TUPLE(*([INT] * width)), n))
    return mk('src_ins'), mk('src_del')


def _mol_ensures(C, res):
    si, sd = _sources(C, 2)
    return _calls_ok(_Named(C, 'r_dict', 'q_dict'), res, si, sd, _mol_flank)


def _log(which, depth):
    def h(L):
        e = L._e
        item = VTuple(tuple(VInt(L[f'for_{d}']) for d in range(depth)))
        L.set(which, e.list_append(L.raw(which), item))
    return h


def _src(width):
    return lambda C: C._e.fresh_list(TUPLE(*([INT] * width)), 'src', n=z3.IntVal(0))


_NOTE = ("every call names one of the given alignments, its coordinates are those of the label pair at the breakpoint and of the next aligned pair, "
         "Length = |reference gap| - |query gap|, type (and the list it is filed under) 'insertion' exactly when Length < 0; partial correctness "
         "(KeyError / IndexError end the run); dicts are read-only arguments")

molecule_finder = FunctionSpec(
    file='sv/molecule_indels.py', qualname='look_for_indels_in_breakage',
    params=dict(alignment_dict=DICT(INT, LIST(ALN)), r_dict=DICT(INT, OMAP), q_dict=DICT(INT, OMAP), breakage_dict=DICT(INT, TUPLE(INT, PAIR))),
    returns=CALLS, requires=lambda C: [], ensures=_mol_ensures,
    loops={'for#0': Loop(inv=_mol_inv(0), kinds={'indels': CALLS}), 'for#1': Loop(inv=_mol_inv(1), kinds={'indels': CALLS})},
    ghost={'src_ins': _src(2), 'src_del': _src(2)},
    ghost_at={'call:append#0': _log('src_ins', 2), 'call:append#1': _log('src_del', 2)},
    may_raise={'KeyError', 'IndexError'}, rows_as_tuples=True, serves=('C20',), canary='every_insertion_call::Length_is_reference_gap_minus_query_gap', note=_NOTE)


# ------------------------------------------------------------------------------------------------ sv/segment_indels.py
def _seg_flank(C, a, src):
    bp = C.breakage_dict[a.queryId][src[2]]
    return _at(a.alignedPairs, bp[0]), _at(a.alignedPairs, bp[0] + 1)


def _seg_inv(depth):
    def inv(L):
        N = _Named(L, 'reference_dict', 'query_dict')
        V = L.alignment_dict.values
        same = lambda a, b: z3.And(a.len == b.len, a.off == b.off, *[x == y for x, y in zip(a.v.arrs, b.v.arrs)])
        frame = []
        if depth == 0:
            pos = lambda s: s[0] < L.for_0
            frame = [('chromosomes_in_order', z3.And(0 <= L.for_0, L.for_0 <= V.len))]
        if depth >= 1:
            frame = [('this_chromosome', z3.And(0 <= L.for_0, L.for_0 < V.len, same(L.chromosome_alignments, V[L.for_0])))]
            pos = lambda s: z3.Or(s[0] < L.for_0, z3.And(s[0] == L.for_0, s[1] < L.for_1))
        if depth == 2:
            a = V[L.for_0][L.for_1]
            frame += [('this_alignment', z3.And(0 <= L.for_1, L.for_1 < V[L.for_0].len, L.alignment.ref == a.ref, L.q_id == a.queryId, L.r_id == a.referenceId,
                                                 L.breakage_dict.has(a.queryId)))]
            pos = lambda s: z3.Or(s[0] < L.for_0, z3.And(s[0] == L.for_0, z3.Or(s[1] < L.for_1, z3.And(s[1] == L.for_1, s[2] < L.for_2))))
        B = lambda s: L.breakage_dict[V[s[0]][s[1]].queryId]
        full = lambda s: z3.And(pos(s), L.breakage_dict.has(V[s[0]][s[1]].queryId), 0 <= s[2], s[2] < B(s).len)
        return frame + _calls_ok(N, L.indels, L.src_ins, L.src_del, _seg_flank, full)
    return inv


def _seg_ensures(C, res):
    V = C.alignment_dict.values
    B = lambda s: C.breakage_dict[V[s[0]][s[1]].queryId]
    full = lambda s: z3.And(C.breakage_dict.has(V[s[0]][s[1]].queryId), 0 <= s[2], s[2] < B(s).len)
    si, sd = _sources(C, 3)
    return _calls_ok(_Named(C, 'reference_dict', 'query_dict'), res, si, sd, _seg_flank, full)


segment_finder = FunctionSpec(
    file='sv/segment_indels.py', qualname='look_for_indels_in_breakage',
    params=dict(alignment_dict=DICT(INT, LIST(ALN)), reference_dict=DICT(INT, OMAP), query_dict=DICT(INT, OMAP),
                breakage_dict=DICT(INT, LIST(TUPLE(INT, STR)))),
    returns=CALLS, requires=lambda C: [], ensures=_seg_ensures,
    loops={f'for#{d}': Loop(inv=_seg_inv(d), kinds={'indels': CALLS}) for d in range(3)},
    ghost={'src_ins': _src(3), 'src_del': _src(3)},
    ghost_at={'call:append#0': _log('src_ins', 3), 'call:append#1': _log('src_del', 3)},
    may_raise={'KeyError', 'IndexError'}, rows_as_tuples=True, serves=('C20',), canary='every_insertion_call::Length_is_reference_gap_minus_query_gap', note=_NOTE)

SPECS = [molecule_finder, segment_finder]
