"""Contract for the output-mode logic of _MultiPassWorkflowCoordinator.execute (C05, C08)."""
import z3
from pyvc.kinds import *
from pyvc.dsl import FunctionSpec, Loop, forall, rng
from specs.common import same_list

F = 'src/multi_pass_workflow_coordinator.py'
MP_ = OBJ('_MultiPassWorkflowCoordinator')
ROW = OBJ('AlignmentResultRow')
OMAP = OBJ('OpticalMap')

# _WorkflowCoordinator.execute: contract in specs/workflow.py (verified there; used here through its contract)

def _config(C):
    from specs.workflow import _config_primary, _config_secondary
    return _config_primary(C) + _config_secondary(C)


def _second_ensures(C, res):
    """the second pass runs on the SAME reference list as the first pass, on the unaligned fragments of the first-pass rows (ghosts of the call site)"""
    cl = []
    if C.has('F') and C.proving:
        cl = [('second_pass_searches_the_same_reference_list_as_the_first_pass', same_list(C.F.g2refs, C.referenceMaps)),
              ('second_pass_queries_are_the_unaligned_fragments_of_the_first_pass_rows', same_list(C.F.g2queries, C.F.unalignedFragments)),
              ('result_has_one_entry_per_second_pass_row', res.len == C.F.g2rows.len)]
    return cl


def _second_log(L):
    L.set('g2refs', L._st.lst(L.callargs[0]))
    L.set('g2queries', L._st.lst(L.callargs[1]))
    L.set('g2rows', L._st.lst(_raw(L.result)))


_eo = lambda C: C._e.fresh_list(OMAP, 'g2', n=z3.IntVal(0))
secondPass = FunctionSpec(
    file=F, qualname='_MultiPassWorkflowCoordinator.getSecondPassAlignmentRows',
    params=dict(self=MP_, alignmentResultRows=LIST(ROW), queryMaps=LIST(OMAP), referenceMaps=LIST(OMAP)), returns=LIST(ROW), trusted=True, serves=('C08',),
    note="ASSUMED at the call site in execute (result type only): the preconditions of the verified variant #checked speak about the first-pass rows, which "
         "come from the numerical seeding and cannot be discharged there; bounded part checks AlignedRest True")


def _rows_fit_the_queries(C):
    """every first-pass row names a query of the list, and on the forward strand its query start / end are label coordinates of that query
    (what getUnalignedFragments needs; established by AlignmentResultRow.create over trimmed queries - bounded, C02)"""
    R, Q = C.alignmentResultRows, C.queryMaps
    r, k, j = z3.Int('r2'), z3.Int('k2'), z3.Int('j2')
    inq = lambda row, x: forall(k, z3.Implies(z3.And(rng(0, k, Q.len), Q[k].moleculeId == row.queryId),
                                              z3.Exists([j], z3.And(rng(0, j, Q[k].positions.len), Q[k].positions[j] == x))), [Q.raw(k).t])
    return forall(r, z3.Implies(rng(0, r, R.len), z3.And(
        z3.Exists([k], z3.And(rng(0, k, Q.len), Q[k].moleculeId == R[r].queryId)),
        z3.Implies(z3.Not(R[r].reverseStrand), z3.And(inq(R[r], R[r].queryStartPosition), inq(R[r], R[r].queryEndPosition))))), [R.raw(r).t])


secondPassChecked = FunctionSpec(
    file=F, qualname='_MultiPassWorkflowCoordinator.getSecondPassAlignmentRows', variant='checked',
    params=dict(self=MP_, alignmentResultRows=LIST(ROW), queryMaps=LIST(OMAP), referenceMaps=LIST(OMAP)), returns=LIST(ROW),
    requires=lambda C: [('first_pass_rows_fit_the_queries', _rows_fit_the_queries(C)),
                        ('peak_count_nonnegative', C.self.peaksSelector.count >= 0),
                        ('cpus_option_absent_or_positive', z3.Or(C.self.args.numberOfCpus.none, C.self.args.numberOfCpus.val >= 1))] + _config(C),
    ensures=_second_ensures, serves=('C08', 'C10', 'C05'),
    ghost={'g2refs': _eo, 'g2queries': _eo, 'g2rows': lambda C: C._e.fresh_list(ROW, 'g2rows', n=z3.IntVal(0))},
    ghost_at={'call:execute#0': _second_log}, inline={'AlignmentResultRow.setAlignedRest'},
    note="the second pass: every first-pass row's unaligned fragments (getUnalignedFragments, under contract) are aligned by the same per-query procedure "
         "against the SAME reference list the first pass used (the argument itself, not a selection of it); one result entry per second-pass row")

def _save_log(L):
    L.set('gsfile', L.callargs[0].t)
    L.set('gsres', L.callargs[1].t)
    L.set('gsargs', L.callargs[2].t)
    L.set('nsave', L.nsave + 1)


def _save_ensures(C, res):
    if not C.proving:
        return []
    from pyvc.dsl import ObjView
    Fv = C.F
    a = C.self.args
    written = ObjView(C._e, C._st, VObj(Fv.gsres, ('AlignmentResults',)))
    return [('one_file_is_written', Fv.nsave == 1),
            ('to_the_additional_file_of_that_number', z3.And(Fv.gnum == C.fileNumber, Fv.gsfile == Fv.gfile)),
            ('with_exactly_the_given_rows_under_the_names_of_the_two_input_files_and_the_run_arguments', z3.And(
                same_list(written.rows, C.rowsWithoutSubsequentAlignmentsForSingleQueryRest),
                written.referenceFilePath.ref == a.referenceFile.name.ref, written.queryFilePath.ref == a.queryFile.name.ref, Fv.gsargs == a.ref))]


def _open_log(L):
    L.set('gnum', L._e.num(L.callargs[0]))
    L.set('gfile', L.result.ref)


_none = lambda C: z3.Const('g_nofile', Ref)
save = FunctionSpec(
    file=F, qualname='_MultiPassWorkflowCoordinator.saveAdditionalOutput',
    params=dict(self=MP_, rowsWithoutSubsequentAlignmentsForSingleQueryRest=LIST(ROW), fileNumber=INT), returns=NONE, ensures=_save_ensures, serves=('C08',),
    ghost={'gsfile': _none, 'gsres': _none, 'gsargs': _none, 'gfile': _none, 'nsave': lambda C: z3.IntVal(0), 'gnum': lambda C: z3.IntVal(-1)},
    ghost_at={'call:writeAlignments#0': _save_log, 'call:createAdditionalOutputFile#0': _open_log},
    note="writes exactly the given rows (an AlignmentResults built directly from them, under the two input file names) with the run's arguments to the file "
         "created for that file number; the file creation and the writer are assumed (string formatting / pandas); callers see only the ghost log they keep")
create_additional = FunctionSpec(
    file=F, qualname='_MultiPassWorkflowCoordinator.createAdditionalOutputFile', params=dict(self=MP_, number=INT), returns=OBJ('TextIO'), trusted=True,
    serves=('C08',), note="ASSUMED (os.path.splitext / str.format / open): opens <output name>_<number><extension> for writing; the name is checked by the bounded part of C08")

# AlignmentResults.resolve: contract in specs/result_row.py (verified there; used here through its contract)


def _log(L):
    """ghost log of one saveAdditionalOutput call: which rows went to which file number (taken from the actual argument)"""
    rows = L._st.lst(L.callargs[0])
    num = z3.simplify(L._e.num(L.callargs[1]))
    if not z3.is_int_value(num) or num.as_long() not in (1, 2):
        raise TypeError("file number is not the literal 1 or 2")          # contract no longer fits the code -> left-subset
    which = str(num.as_long())
    L.set('file' + which, rows)
    L.set('writes' + which, L['writes' + which] + 1)


def _mode(C, name):
    return C.self.args.outputMode.ref == C._e.str_const(name).t


def _requires(C):
    return [('known_multi_pass_mode', z3.Or(*[_mode(C, m) for m in ('best', 'separate', 'joined', 'all')])),
            ('peak_count_nonnegative', C.self.peaksSelector.count >= 0),
            ('cpus_option_absent_or_positive', z3.Or(C.self.args.numberOfCpus.none, C.self.args.numberOfCpus.val >= 1))] + _config(C)


def _raw(x):
    return x.v if hasattr(x, 'v') else x


def _filter_log(which):
    def h(L):
        L.set('farg' + which, L._st.lst(L.callargs[0]))
        L.set('gf' + which, L._st.lst(_raw(L.result)))
        L.set('nfilter', L.nfilter + 1)
    return h


def _resolve_log(L):
    t = L.result
    a, b = (t.items if hasattr(t, 'items') else t)
    L.set('gjoined', L._st.lst(_raw(a)))
    L.set('gsep', L._st.lst(_raw(b)))
    L.set('rarg', L._st.lst(L.callargs[0]))
    L.set('rdiff', L._e.num(L.callargs[1]))
    L.set('nresolve', L.nresolve + 1)


def _first_log(L):
    L.set('gfirst', L._st.lst(L.result.v) if hasattr(L.result, 'v') else L.result)
    L.set('g1refs', L._st.lst(L.callargs[0]))
    L.set('g1qrys', L._st.lst(L.callargs[1]))


def _second_call_log(L):
    L.set('gsecond', L.result.v)
    L.set('g2rows_arg', L._st.lst(L.callargs[0]))
    L.set('g2qrys', L._st.lst(L.callargs[1]))
    L.set('g2refs', L._st.lst(L.callargs[2]))


def _ensures(C, res):
    """stated over the ghost log of the calls (what was de-duplicated, what was joined, what was written where), not over the
    function's final locals: a path that skips a step leaves its ghost unset and fails the clause"""
    k, k2 = z3.Int('k'), z3.Int('k2')
    if not C.proving:
        # at a call site (Program.run) the ghost log of this run does not exist: what is stated without it
        return [('best_returns_rows_in_ascending_query_id', z3.Implies(_mode(C, 'best'), forall([k, k2], z3.Implies(
            z3.And(0 <= k, k <= k2, k2 < res.len), res[k].queryId <= res[k2].queryId), [MP(res.raw(k).t, res.raw(k2).t)])))]
    Fv = C.F
    e = C._e
    first, second = Fv.gf1, Fv.gf2
    joined, sep = Fv.gjoined, Fv.gsep
    needs_join = z3.Not(_mode(C, 'separate'))
    cl = [('first_pass_runs_on_the_references_and_the_queries_given_in_that_order', z3.And(same_list(Fv.g1refs, C.referenceMaps), same_list(Fv.g1qrys, C.queryMaps))),
          ('second_pass_gets_the_first_pass_rows_the_queries_and_the_references_in_that_order', z3.And(
              same_list(Fv.g2rows_arg, Fv.gfirst), same_list(Fv.g2qrys, C.queryMaps), same_list(Fv.g2refs, C.referenceMaps))),
          ('both_passes_are_de_duplicated_once', Fv.nfilter == 2),
          ('first_pass_file_is_filtered_from_first_pass_rows_only_unless_best', z3.Implies(z3.Not(_mode(C, 'best')), same_list(Fv.farg1, Fv.gfirst))),
          ('second_pass_file_is_filtered_from_second_pass_rows_only', same_list(Fv.farg2, Fv.gsecond)),
          ('separate_returns_filtered_first_pass_and_writes_filtered_second_pass_to_file_1',
           z3.Implies(_mode(C, 'separate'), z3.And(same_list(res, first), Fv.writes1 == 1, Fv.writes2 == 0, same_list(Fv.file1, second)))),
          ('join_runs_once_on_the_filtered_first_and_second_pass_rows_with_the_configured_maxDifference',
           z3.Implies(needs_join, z3.And(Fv.nresolve == 1, Fv.rdiff == C.self.args.maxDifference, Fv.rarg.len == first.len + second.len,
                                         forall(k, z3.Implies(rng(0, k, first.len), Fv.rarg.raw(k).t == first.raw(k).t), [first.raw(k).t]),
                                         forall(k, z3.Implies(rng(0, k, second.len), Fv.rarg.raw(first.len + k).t == second.raw(k).t), [second.raw(k).t])))),
          ('joined_returns_joined_rows_and_writes_unjoined_rows_to_file_1',
           z3.Implies(_mode(C, 'joined'), z3.And(same_list(res, joined), Fv.writes1 == 1, Fv.writes2 == 0, same_list(Fv.file1, sep)))),
          ('all_returns_joined_rows_and_writes_first_pass_to_file_1_and_second_pass_to_file_2',
           z3.Implies(_mode(C, 'all'), z3.And(same_list(res, joined), Fv.writes1 == 1, Fv.writes2 == 1, same_list(Fv.file1, first),
                                              same_list(Fv.file2, second)))),
          ('best_returns_rows_in_ascending_query_id', z3.Implies(_mode(C, 'best'), forall([k, k2], z3.Implies(
              z3.And(0 <= k, k <= k2, k2 < res.len), res[k].queryId <= res[k2].queryId), [MP(res.raw(k).t, res.raw(k2).t)]))),
          ('best_writes_no_additional_file', z3.Implies(_mode(C, 'best'), z3.And(Fv.writes1 == 0, Fv.writes2 == 0)))]
    so = C.note('last_sorted')
    flog = C.note('filter_log', ())
    if flog and Fv.has('bestRows') and Fv.has('joinedIds'):
        # the first-pass rows that go into 'best' are exactly those whose QUERY id is not the query id of a joined row
        flt = flog[-1]
        j = z3.Int('bj')
        JI = Fv.joinedIds
        has_joined = lambda qid: z3.Exists([j], z3.And(rng(0, j, JI.len), JI[j] == qid))        # (JI[j] is joined[j].queryId by the clause's first half)
        cl.append(('best_takes_a_first_pass_row_exactly_when_no_joined_row_has_its_query_id', z3.Implies(_mode(C, 'best'), z3.And(
            Fv.joinedIds.len == joined.len, forall(k, z3.Implies(rng(0, k, joined.len), Fv.joinedIds[k] == joined[k].queryId), [Fv.joinedIds[k]]),
            forall(k, z3.Implies(rng(0, k, first.len), flt['cond'](k) == z3.Not(has_joined(first[k].queryId))), [first.raw(k).t])))))
    if so is not None and Fv.has('bestRows'):
        best = Fv.bestRows
        # every joined row and every first-pass row of a query without a joined row is in the result
        cl.append(('best_contains_every_joined_row', z3.Implies(_mode(C, 'best'), forall(k, z3.Implies(rng(0, k, joined.len), z3.And(
            0 <= so['pinv'](k), so['pinv'](k) < res.len, res.raw(so['pinv'](k)).t == joined.raw(k).t)), [joined.raw(k).t]))))
        cl.append(('best_contains_first_pass_row_of_every_query_without_joined_row', z3.Implies(_mode(C, 'best'), forall(k, z3.Implies(
            rng(0, k, best.len), z3.And(0 <= so['pinv'](joined.len + k), so['pinv'](joined.len + k) < res.len,
                                        res.raw(so['pinv'](joined.len + k)).t == best.raw(k).t)), [best.raw(k).t]))))
    return cl


_el = lambda C: C._e.fresh_list(ROW, 'gfile', n=z3.IntVal(0))
execute = FunctionSpec(
    file=F, qualname='_MultiPassWorkflowCoordinator.execute', params=dict(self=MP_, referenceMaps=LIST(OMAP), queryMaps=LIST(OMAP)), returns=LIST(ROW),
    requires=_requires, ensures=_ensures, may_raise={'IndexError'}, keep_own_safety=True,     # (the row-level join is under a partial-correctness contract)
    ghost={'file1': _el, 'file2': _el, 'writes1': lambda C: z3.IntVal(0), 'writes2': lambda C: z3.IntVal(0),
           'gfirst': _el, 'gsecond': _el, 'g2rows_arg': _el, 'g1refs': _eo, 'g1qrys': _eo, 'g2qrys': _eo, 'g2refs': _eo, 'farg1': _el, 'farg2': _el, 'gf1': _el, 'gf2': _el, 'gjoined': _el, 'gsep': _el, 'rarg': _el,
           'rdiff': lambda C: z3.RealVal(-1), 'nfilter': lambda C: z3.IntVal(0), 'nresolve': lambda C: z3.IntVal(0)},
    ghost_at={'call:saveAdditionalOutput#0': _log, 'call:saveAdditionalOutput#1': _log, 'call:saveAdditionalOutput#2': _log,
              'call:saveAdditionalOutput#3': _log,
              'call:execute#0': _first_log,
              'call:getSecondPassAlignmentRows#0': _second_call_log,
              'call:filterOutSubsequentAlignmentsForSingleQuery#0': _filter_log('1'),
              'call:filterOutSubsequentAlignmentsForSingleQuery#1': _filter_log('2'),
              'call:resolve#0': _resolve_log},
    serves=('C05', 'C08'),
    note="which row list is returned and which is written to which additional file, per output mode (ghost log of the writes); callee results are the "
         "same symbolic values in every mode, so main(all)=main(joined), _1(all)=main(separate), _2(all)=_1(separate) follow by congruence",
)

SPECS = [secondPass, secondPassChecked, save, create_additional, execute]
