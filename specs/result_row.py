"""Contracts for AlignmentResultRow / AlignmentResults (C02, C04, C05, C08)."""
import z3
from pyvc.kinds import *
from pyvc.dsl import FunctionSpec, Loop, forall, rng
from specs.schema import SEG, PAIR
from specs.common import zabs, same_list

F = 'src/alignment/alignment_results.py'
ROW = OBJ('AlignmentResultRow')


def zmax(a, b): return z3.If(a >= b, a, b)
def zmin(a, b): return z3.If(a <= b, a, b)


# ------------------------------------------------------------------ check_overlap
def _co_ensures(C, res):
    a, b = C.self, C.alignedRest
    gap = zmax(a.referenceStartPosition, b.referenceStartPosition) - zmin(a.referenceEndPosition, b.referenceEndPosition)
    return [('joinable_only_on_the_same_strand', z3.Implies(res, a.reverseStrand == b.reverseStrand)),
            ('joinable_only_on_the_same_reference', z3.Implies(res, a.referenceId == b.referenceId)),
            ('joinable_only_when_reference_gap_at_most_maxDifference', z3.Implies(res, gap <= C.maxDifference)),
            ]


check_overlap = FunctionSpec(
    file=F, qualname='AlignmentResultRow.check_overlap', params=dict(self=ROW, alignedRest=ROW, maxDifference=REAL), returns=BOOL,
    ensures=_co_ensures, serves=('C08',),
    note="two records may be joined only for the same strand and reference and a reference gap of at most maxDifference")


# ------------------------------------------------------------------ AlignmentResultRow.create
def _create_ensures(C, res):
    e = C._e
    S = C.segmentsWithoutConflicts.segments
    a, b = z3.Int('a'), z3.Int('b')
    is_pair = lambda a, b: S[a].positions[b].isa('AlignedPair')
    pos = lambda a, b: S[a].positions[b].as_('ScoredAlignedPair')
    inr = lambda a, b: z3.And(rng(0, a, S.len), rng(0, b, S[a].positions.len), is_pair(a, b))
    fl0, so0 = C.note('last_flatten'), C.note('last_sorted')
    steps = []
    if C.has('F') and fl0 is not None and so0 is not None:
        # stepping stones (each is proved, then available to the next): pair (a,b) -> index in the flattened list -> index in the sorted list
        k = z3.Int('k')
        flat, srt = fl0['r'], so0['S']
        steps = [('lemma_every_pair_is_in_the_flattened_list', forall([a, b], z3.Implies(inr(a, b), z3.And(
                      0 <= fl0['pos'](a, b), fl0['pos'](a, b) < fl0['m'],
                      z3.Select(flat.arrs[0], fl0['pos'](a, b)) == S[a].positions.raw(b).t)), [S[a].positions.raw(b).t])),
                 ('lemma_every_flattened_pair_is_in_the_sorted_list', forall(k, z3.Implies(rng(0, k, fl0['m']), z3.And(
                      0 <= so0['pinv'](k), so0['pinv'](k) < fl0['m'],
                      z3.Select(srt.arrs[0], so0['pinv'](k)) == z3.Select(flat.arrs[0], k))), [z3.Select(flat.arrs[0], k)]))]
    cl = steps + [('ids_lengths_strand_passed_through', z3.And(res.queryId == C.queryId, res.referenceId == C.referenceId, res.queryLength == C.queryLength,
                                                       res.referenceLength == C.referenceLength, res.reverseStrand == C.reverseStrand,
                                                       same_list(res.segments, S))),
          ('confidence_is_sum_of_segment_scores', res.confidence == e.score_sum(S.v, 'segmentScore')),
          ('reference_start_and_end_bound_every_pair', forall([a, b], z3.Implies(inr(a, b), z3.And(
              res.referenceStartPosition <= pos(a, b).reference.position, pos(a, b).reference.position <= res.referenceEndPosition)),
              [S[a].positions.raw(b).t]))]
    fl, so = C.note('last_flatten'), C.note('last_sorted')
    if C.has('F') and fl is not None and so is not None:
        m = fl['m']
        # witnesses: the first / last element of the sorted pair list, traced back through the flattening
        fa, fb = fl['ci'](so['pi'](0)), fl['pi'](so['pi'](0))
        la, lb = fl['ci'](so['pi'](m - 1)), fl['pi'](so['pi'](m - 1))
        rev = C.reverseStrand
        cl.append(('start_and_end_are_coordinates_of_the_outermost_pairs', z3.Implies(m > 0, z3.And(
            inr(fa, fb), inr(la, lb),
            res.referenceStartPosition == pos(fa, fb).reference.position, res.referenceEndPosition == pos(la, lb).reference.position,
            res.queryStartPosition == z3.If(rev, pos(la, lb).query.position, pos(fa, fb).query.position),
            res.queryEndPosition == z3.If(rev, pos(fa, fb).query.position, pos(la, lb).query.position)))))
    return cl


create = FunctionSpec(
    file=F, qualname='AlignmentResultRow.create',
    params=dict(segmentsWithoutConflicts=OBJ('AlignmentSegmentsWithResolvedConflicts'), queryId=INT, referenceId=INT, queryLength=REAL,
                referenceLength=REAL, reverseStrand=BOOL), returns=ROW,
    ensures=_create_ensures, serves=('C02', 'C04'),
    note="header fields derived from the pairs: reference start/end are the smallest/largest reference coordinate of any pair, query start/end the query "
         "coordinates of those two pairs (swapped on the reverse strand); confidence = sum of segment scores")


# ------------------------------------------------------------------ AlignmentResults.filterOutSubsequentAlignmentsForSingleQuery
def _filter_ensures(C, res):
    X = C.alignmentResultRows
    e = C._e
    k, k2, x = z3.Int('k'), z3.Int('k2'), z3.Int('x')
    cl = [('one_row_per_query_in_ascending_query_id', forall([k, k2], z3.Implies(z3.And(0 <= k, k < k2, k2 < res.len), res[k].queryId < res[k2].queryId),
                                                             [MP(res.raw(k).t, res.raw(k2).t)]))]
    sl, gl = C.note('sorted_log', ()), C.note('groupby_log', ())
    if C.has('F') and len(sl) >= 2 and gl:
        s1, s2, vg = sl[-2], sl[-1], gl[-1]
        S2 = C._view_list(s2['S'])
        src = lambda k: s1['pi'](s2['pi'](vg.b(k)))                   # index in the input of result row k
        rep = lambda x: vg.grp(s2['pinv'](s1['pinv'](x)))             # result row representing input row x
        where2 = lambda x: s2['pinv'](s1['pinv'](x))                  # position of input row x in the doubly sorted list
        cl += [('lemma_result_rows_are_group_heads', z3.And(res.len == vg.G, forall(k, z3.Implies(rng(0, k, res.len), res.raw(k).t == S2.raw(vg.b(k)).t),
                                                                                   [res.raw(k).t]))),
               ('every_result_row_is_an_input_row', forall(k, z3.Implies(rng(0, k, res.len), z3.And(0 <= src(k), src(k) < X.len, res.raw(k).t == X.raw(src(k)).t)),
                                                           [res.raw(k).t])),
               ('lemma_input_row_position', forall(x, z3.Implies(rng(0, x, X.len), z3.And(0 <= where2(x), where2(x) < X.len, S2.raw(where2(x)).t == X.raw(x).t)),
                                                   [X.raw(x).t])),
               ('every_query_with_a_row_is_represented', forall(x, z3.Implies(rng(0, x, X.len), z3.And(0 <= rep(x), rep(x) < res.len,
                                                                                                    res[rep(x)].queryId == X[x].queryId)), [X.raw(x).t])),
               ('kept_row_has_maximal_confidence_for_its_query', forall(x, z3.Implies(rng(0, x, X.len), res[rep(x)].confidence >= X[x].confidence), [X.raw(x).t]))]
    return cl


filterOut = FunctionSpec(
    file=F, qualname='AlignmentResults.filterOutSubsequentAlignmentsForSingleQuery', params=dict(alignmentResultRows=LIST(ROW)), returns=LIST(ROW),
    ensures=_filter_ensures, serves=('C05', 'C08'),
    note="one row per query id, ascending ids; the kept row is an input row of maximal confidence among the rows of its query; every query id is represented "
         "(two stable sorts + groupby, all assumed library contracts)")


# ------------------------------------------------------------------ AlignmentResultRow.getUnalignedFragments
OMAP = OBJ('OpticalMap')


def _first_with_id(C):
    """index of the first map of `queries` whose id is the row's query id"""
    Q = C.queries
    i = z3.Int(fresh_name('qi'))
    return i


def _guf_requires(C):
    Q = C.queries
    k, j = z3.Int('k'), z3.Int('j')
    me = C.self
    has = z3.Exists([k], z3.And(rng(0, k, Q.len), Q[k].moleculeId == me.queryId))
    # on the forward strand the row's query start / end are coordinates of labels of that query (AlignmentResultRow.create + trim)
    inq = lambda x: forall(k, z3.Implies(z3.And(rng(0, k, Q.len), Q[k].moleculeId == me.queryId),
                                         z3.Exists([j], z3.And(rng(0, j, Q[k].positions.len), Q[k].positions[j] == x))), [Q.raw(k).t])
    return [('the_query_is_among_the_maps', has),
            ('forward_start_and_end_are_label_coordinates', z3.Implies(z3.Not(me.reverseStrand), z3.And(inq(me.queryStartPosition), inq(me.queryEndPosition))))]


def _guf_ensures(C, res):
    me = C.self
    k, t = z3.Int('k'), z3.Int('t')
    cl = [('at_most_two_fragments', res.len <= 2),
          ('fragments_carry_the_whole_query_id_and_length', forall(k, z3.Implies(rng(0, k, res.len), z3.And(
              res[k].moleculeId == me.queryId, res[k].length == me.queryLength)), [res.raw(k).t]))]
    if C.has('F') and C.F.has('query'):
        q = C.F.query
        q = q.val if hasattr(q, 'none') else q
        P = q.positions
        cl.append(('fragment_is_a_slice_of_the_query_and_shift_is_the_slice_start', forall(k, z3.Implies(rng(0, k, res.len), z3.And(
            res[k].shift >= 0, res[k].shift + res[k].positions.len <= P.len,
            forall(t, z3.Implies(rng(0, t, res[k].positions.len), res[k].positions[t] == P[res[k].shift + t]),
                   [res[k].positions[t]]))), [res.raw(k).t])))
        cl.append(('the_map_used_is_the_row_s_query', q.moleculeId == me.queryId))
    return cl


getUnalignedFragments = FunctionSpec(
    file=F, qualname='AlignmentResultRow.getUnalignedFragments', params=dict(self=ROW, queries=LIST(OMAP)), returns=LIST(OMAP),
    requires=_guf_requires, ensures=_guf_ensures, serves=('C02', 'C10'),
    note="every fragment handed to the second pass carries the whole query's id and length, its positions are a slice query.positions[a:a+n] of the "
         "query found by id, and its shift is a - so label numbers and coordinates of second-pass records refer to the whole query; no exception "
         "(query lookup, list.index, slicing with Python's negative-index semantics)")

SPECS = [check_overlap, create, filterOut, getUnalignedFragments]
