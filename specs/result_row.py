"""Contracts for AlignmentResultRow / AlignmentResults (C02, C04, C05, C08)."""
import z3
from pyvc.kinds import *
from pyvc.dsl import FunctionSpec, Loop, forall, rng
from specs.schema import SEG, PAIR
from specs.common import zabs, same_list

F = 'src/alignment/alignment_results.py'
ROW = OBJ('AlignmentResultRow')


def zmax(a, b): return z3.If(a >= b, a, b)
def zmin(a, b): return z3.If(a <= b, a, b)


# ------------------------------------------------------------------ check_overlap
def _co_ensures(C, res):
    a, b = C.self, C.alignedRest
    gap = zmax(a.referenceStartPosition, b.referenceStartPosition) - zmin(a.referenceEndPosition, b.referenceEndPosition)
    return [('joinable_only_on_the_same_strand', z3.Implies(res, a.reverseStrand == b.reverseStrand)),
            ('joinable_only_on_the_same_reference', z3.Implies(res, a.referenceId == b.referenceId)),
            ('joinable_only_when_reference_gap_at_most_maxDifference', z3.Implies(res, gap <= C.maxDifference)),
            ]


check_overlap = FunctionSpec(
    file=F, qualname='AlignmentResultRow.check_overlap', params=dict(self=ROW, alignedRest=ROW, maxDifference=REAL), returns=BOOL,
    ensures=_co_ensures, serves=('C08',),
    note="two records may be joined only for the same strand and reference and a reference gap of at most maxDifference")


# ------------------------------------------------------------------ AlignmentResultRow.create
def _create_ensures(C, res):
    e = C._e
    S = C.segmentsWithoutConflicts.segments
    a, b = z3.Int('a'), z3.Int('b')
    is_pair = lambda a, b: S[a].positions[b].isa('AlignedPair')
    pos = lambda a, b: S[a].positions[b].as_('ScoredAlignedPair')
    inr = lambda a, b: z3.And(rng(0, a, S.len), rng(0, b, S[a].positions.len), is_pair(a, b))
    fl0, so0 = C.note('last_flatten'), C.note('last_sorted')
    steps = []
    if C.has('F') and fl0 is not None and so0 is not None:
        # stepping stones (each is proved, then available to the next): pair (a,b) -> index in the flattened list -> index in the sorted list
        k = z3.Int('k')
        flat, srt = fl0['r'], so0['S']
        steps = [('lemma_every_pair_is_in_the_flattened_list', forall([a, b], z3.Implies(inr(a, b), z3.And(
                      0 <= fl0['pos'](a, b), fl0['pos'](a, b) < fl0['m'],
                      z3.Select(flat.arrs[0], fl0['pos'](a, b)) == S[a].positions.raw(b).t)), [S[a].positions.raw(b).t])),
                 ('lemma_every_flattened_pair_is_in_the_sorted_list', forall(k, z3.Implies(rng(0, k, fl0['m']), z3.And(
                      0 <= so0['pinv'](k), so0['pinv'](k) < fl0['m'],
                      z3.Select(srt.arrs[0], so0['pinv'](k)) == z3.Select(flat.arrs[0], k))), [z3.Select(flat.arrs[0], k)]))]
    cl = steps + [('ids_lengths_strand_passed_through', z3.And(res.queryId == C.queryId, res.referenceId == C.referenceId, res.queryLength == C.queryLength,
                                                       res.referenceLength == C.referenceLength, res.reverseStrand == C.reverseStrand,
                                                       same_list(res.segments, S))),
          ('confidence_is_sum_of_segment_scores', res.confidence == e.score_sum(S.v, 'segmentScore')),
          ('reference_start_and_end_bound_every_pair', forall([a, b], z3.Implies(inr(a, b), z3.And(
              res.referenceStartPosition <= pos(a, b).reference.position, pos(a, b).reference.position <= res.referenceEndPosition)),
              [S[a].positions.raw(b).t]))]
    fl, so = C.note('last_flatten'), C.note('last_sorted')
    if C.has('F') and fl is not None and so is not None:
        m = fl['m']
        # witnesses: the first / last element of the sorted pair list, traced back through the flattening
        fa, fb = fl['ci'](so['pi'](0)), fl['pi'](so['pi'](0))
        la, lb = fl['ci'](so['pi'](m - 1)), fl['pi'](so['pi'](m - 1))
        rev = C.reverseStrand
        cl.append(('start_and_end_are_coordinates_of_the_outermost_pairs', z3.Implies(m > 0, z3.And(
            inr(fa, fb), inr(la, lb),
            res.referenceStartPosition == pos(fa, fb).reference.position, res.referenceEndPosition == pos(la, lb).reference.position,
            res.queryStartPosition == z3.If(rev, pos(la, lb).query.position, pos(fa, fb).query.position),
            res.queryEndPosition == z3.If(rev, pos(fa, fb).query.position, pos(la, lb).query.position)))))
    return cl


create = FunctionSpec(
    file=F, qualname='AlignmentResultRow.create',
    params=dict(segmentsWithoutConflicts=OBJ('AlignmentSegmentsWithResolvedConflicts'), queryId=INT, referenceId=INT, queryLength=REAL,
                referenceLength=REAL, reverseStrand=BOOL), returns=ROW,
    ensures=_create_ensures, serves=('C02', 'C04'),
    note="header fields derived from the pairs: reference start/end are the smallest/largest reference coordinate of any pair, query start/end the query "
         "coordinates of those two pairs (swapped on the reverse strand); confidence = sum of segment scores")


# ------------------------------------------------------------------ AlignmentResults.filterOutSubsequentAlignmentsForSingleQuery
def _filter_ensures(C, res):
    X = C.alignmentResultRows
    e = C._e
    k, k2, x = z3.Int('k'), z3.Int('k2'), z3.Int('x')
    cl = [('one_row_per_query_in_ascending_query_id', forall([k, k2], z3.Implies(z3.And(0 <= k, k < k2, k2 < res.len), res[k].queryId < res[k2].queryId),
                                                             [MP(res.raw(k).t, res.raw(k2).t)]))]
    sl, gl = C.note('sorted_log', ()), C.note('groupby_log', ())
    if C.has('F') and len(sl) >= 2 and gl:
        s1, s2, vg = sl[-2], sl[-1], gl[-1]
        S2 = C._view_list(s2['S'])
        src = lambda k: s1['pi'](s2['pi'](vg.b(k)))                   # index in the input of result row k
        rep = lambda x: vg.grp(s2['pinv'](s1['pinv'](x)))             # result row representing input row x
        where2 = lambda x: s2['pinv'](s1['pinv'](x))                  # position of input row x in the doubly sorted list
        cl += [('lemma_result_rows_are_group_heads', z3.And(res.len == vg.G, forall(k, z3.Implies(rng(0, k, res.len), res.raw(k).t == S2.raw(vg.b(k)).t),
                                                                                   [res.raw(k).t]))),
               ('every_result_row_is_an_input_row', forall(k, z3.Implies(rng(0, k, res.len), z3.And(0 <= src(k), src(k) < X.len, res.raw(k).t == X.raw(src(k)).t)),
                                                           [res.raw(k).t])),
               ('lemma_input_row_position', forall(x, z3.Implies(rng(0, x, X.len), z3.And(0 <= where2(x), where2(x) < X.len, S2.raw(where2(x)).t == X.raw(x).t)),
                                                   [X.raw(x).t])),
               ('every_query_with_a_row_is_represented', forall(x, z3.Implies(rng(0, x, X.len), z3.And(0 <= rep(x), rep(x) < res.len,
                                                                                                    res[rep(x)].queryId == X[x].queryId)), [X.raw(x).t])),
               ('kept_row_has_maximal_confidence_for_its_query', forall(x, z3.Implies(rng(0, x, X.len), res[rep(x)].confidence >= X[x].confidence), [X.raw(x).t]))]
    return cl


filterOut = FunctionSpec(
    file=F, qualname='AlignmentResults.filterOutSubsequentAlignmentsForSingleQuery', params=dict(alignmentResultRows=LIST(ROW)), returns=LIST(ROW),
    ensures=_filter_ensures, serves=('C05', 'C08'),
    note="one row per query id, ascending ids; the kept row is an input row of maximal confidence among the rows of its query; every query id is represented "
         "(two stable sorts + groupby, all assumed library contracts)")


# ------------------------------------------------------------------ AlignmentResultRow.getUnalignedFragments
OMAP = OBJ('OpticalMap')


def _first_with_id(C):
    """index of the first map of `queries` whose id is the row's query id"""
    Q = C.queries
    i = z3.Int(fresh_name('qi'))
    return i


def _guf_requires(C):
    Q = C.queries
    k, j = z3.Int('k'), z3.Int('j')
    me = C.self
    has = z3.Exists([k], z3.And(rng(0, k, Q.len), Q[k].moleculeId == me.queryId))
    # on the forward strand the row's query start / end are coordinates of labels of that query (AlignmentResultRow.create + trim)
    inq = lambda x: forall(k, z3.Implies(z3.And(rng(0, k, Q.len), Q[k].moleculeId == me.queryId),
                                         z3.Exists([j], z3.And(rng(0, j, Q[k].positions.len), Q[k].positions[j] == x))), [Q.raw(k).t])
    return [('the_query_is_among_the_maps', has),
            ('forward_start_and_end_are_label_coordinates', z3.Implies(z3.Not(me.reverseStrand), z3.And(inq(me.queryStartPosition), inq(me.queryEndPosition))))]


def _guf_ensures(C, res):
    me = C.self
    k, t = z3.Int('k'), z3.Int('t')
    cl = [('at_most_two_fragments', res.len <= 2),
          ('fragments_carry_the_whole_query_id_and_length', forall(k, z3.Implies(rng(0, k, res.len), z3.And(
              res[k].moleculeId == me.queryId, res[k].length == me.queryLength)), [res.raw(k).t]))]
    if C.has('F') and C.F.has('query'):
        q = C.F.query
        q = q.val if hasattr(q, 'none') else q
        P = q.positions
        cl.append(('fragment_is_a_slice_of_the_query_and_shift_is_the_slice_start', forall(k, z3.Implies(rng(0, k, res.len), z3.And(
            res[k].shift >= 0, res[k].shift + res[k].positions.len <= P.len,
            forall(t, z3.Implies(rng(0, t, res[k].positions.len), res[k].positions[t] == P[res[k].shift + t]),
                   [res[k].positions[t]]))), [res.raw(k).t])))
        cl.append(('the_map_used_is_the_row_s_query', q.moleculeId == me.queryId))
    return cl


getUnalignedFragments = FunctionSpec(
    file=F, qualname='AlignmentResultRow.getUnalignedFragments', params=dict(self=ROW, queries=LIST(OMAP)), returns=LIST(OMAP),
    requires=_guf_requires, ensures=_guf_ensures, serves=('C02', 'C10'), class_invariants=True,
    note="every fragment handed to the second pass carries the whole query's id and length, its positions are a slice query.positions[a:a+n] of the "
         "query found by id, and its shift is a - so label numbers and coordinates of second-pass records refer to the whole query; no exception "
         "(query lookup, list.index, slicing with Python's negative-index semantics)")

# ------------------------------------------------------------------ AlignmentResults.resolve (join decision per reference and query)
def _row_resolve_ensures(C, res):
    from specs.common import derived, Abs
    e = C._e
    me, rest = C.self, C.alignedRest
    row = res.val
    R = row.segments
    a = Abs(R)
    T = z3.Int('rrT')
    first, second = me.segments[0], rest.segments[0]
    body = z3.Implies(a.inside(T), z3.Or(derived(e, a[T], first, proving=C.proving), derived(e, a[T], second, proving=C.proving)))
    return ([('a_row_is_always_returned', z3.Not(res.none))] if C.proving else []) + [
            ('joined_row_carries_the_ids_and_strand_of_the_first_part',
             z3.Implies(z3.Not(res.none), z3.And(row.queryId == me.queryId, row.referenceId == me.referenceId, row.reverseStrand == me.reverseStrand,
                                                 row.queryLength == me.queryLength, row.referenceLength == me.referenceLength))),
            ('joined_row_has_at_most_two_segments_each_the_first_segment_of_a_part_or_rebuilt_from_a_subsequence_of_it',
             z3.And(R.len <= 2, z3.ForAll([T], body) if C.proving else z3.ForAll([T], body, patterns=[z3.Select(R.v.arrs[0], T)]))),
            ('confidence_is_the_sum_of_the_segment_scores', row.confidence == e.score_sum(R.v, 'segmentScore'))] + \
        ([('the_record_that_starts_first_on_the_reference_is_the_left_operand_and_both_results_are_kept', z3.And(
            z3.If(me.alignedPairs[0].reference.position < rest.alignedPairs[0].reference.position,
                  z3.And(C.F.pair.leftSegment.ref == first.ref, C.F.pair.rightSegment.ref == second.ref),
                  z3.And(C.F.pair.leftSegment.ref == second.ref, C.F.pair.rightSegment.ref == first.ref)),
            R.len == 2, a[R.off].ref == C.F.seg1.ref, a[R.off + 1].ref == C.F.seg2.ref))] if C.proving else [])


rowResolve = FunctionSpec(
    file=F, qualname='AlignmentResultRow.resolve', params=dict(self=ROW, alignedRest=ROW), returns=OPT(ROW), serves=('C08', 'C01'),
    ensures=_row_resolve_ensures, may_raise={'IndexError'},
    note="(partial correctness) the row-level join: conflict resolution between the FIRST segments of the two records (the one starting first on the reference "
         "is the left operand), then AlignmentResultRow.create with the first part's ids, lengths and strand: the joined record has at most two segments, each the "
         "first segment of a part or rebuilt from a sub-sequence of its positions (so its pairs are a subset of the union of the parts' pairs), Confidence = sum "
         "of the segment scores")


def _gap(a, b):
    return zmax(a.referenceStartPosition, b.referenceStartPosition) - zmin(a.referenceEndPosition, b.referenceEndPosition)


def _in_rows(R, x):
    k = z3.Int(fresh_name('rk'))
    return z3.Exists([k], z3.And(rng(0, k, R.len), R.raw(k).t == x))


def _mapset(m, key, val):
    return z3.Store(m, key, val)


def _join_log(L):
    """ghost log at joined.append(resolved): the two rows the joined row was made from"""
    e = L._e
    g = L.group
    L.assert_('joined_parts_are_two_input_rows', z3.And(_in_rows(L.rows, g.raw(0).t), _in_rows(L.rows, g.raw(1).t)), 'call:append#1')
    L.set('wa', _mapset(L.wa, g.raw(0).t, L.ga.len))
    L.set('wb', _mapset(L.wb, g.raw(1).t, L.gb.len))
    L.set('ga', e.list_append(L.raw('ga'), g.raw(0)))
    L.set('gb', e.list_append(L.raw('gb'), g.raw(1)))


def _sep_one(L):
    """ghost map update at separate.append(group[0])"""
    L.set('wsep', _mapset(L.wsep, L.group.raw(0).t, L.separate.len - 1))


def _sep_two(site):
    def h(L):
        """ghost map update at separate.extend(group): under the precondition a group that is not a singleton has exactly two rows"""
        g = L.group
        # stepping stones: if the group had a third row, its first three rows would be three different input rows (traced back through
        # the two sorts and the two groupings) with the same reference and query id - excluded by the precondition
        gl, sl = L.note('groupby_log', ()), L.note('sorted_log', ())
        vg1, vg2, so1, so2 = gl[0], gl[1], sl[0], sl[1]
        R = L.rows
        idx = [so1['pi'](vg1.b(L.for_0) + so2['pi'](vg2.b(L.for_1) + j)) for j in range(3)]
        big = g.len >= 3
        L.assert_('lemma_three_rows_of_a_group_share_reference_and_query', z3.Implies(big, z3.And(
            g[0].queryId == g[1].queryId, g[1].queryId == g[2].queryId, g[0].referenceId == g[1].referenceId, g[1].referenceId == g[2].referenceId)), site)
        L.assert_('lemma_three_rows_of_a_group_are_three_different_input_rows', z3.Implies(big, z3.And(
            *[z3.And(0 <= idx[j], idx[j] < R.len, R.raw(idx[j]).t == g.raw(j).t) for j in range(3)],
            idx[0] != idx[1], idx[1] != idx[2], idx[0] != idx[2])), site)
        L.assert_('a_group_has_at_most_two_rows', g.len == 2, site)
        n = L.separate.len
        L.set('wsep', _mapset(_mapset(L.wsep, g.raw(0).t, n - 2), g.raw(1).t, n - 1))
    return h


def _joined_ok(C_or_L, J, ga, gb, maxdiff):
    i = z3.Int('i')
    return [('one_source_pair_per_joined_row', z3.And(ga.len == J.len, gb.len == J.len)),
            ('joined_only_for_same_query_reference_and_strand_within_the_given_maxDifference', forall(i, z3.Implies(rng(0, i, J.len), z3.And(
                ga[i].queryId == gb[i].queryId, ga[i].referenceId == gb[i].referenceId, ga[i].reverseStrand == gb[i].reverseStrand,
                _gap(ga[i], gb[i]) <= maxdiff,
                J[i].queryId == ga[i].queryId, J[i].referenceId == ga[i].referenceId, J[i].reverseStrand == ga[i].reverseStrand)), [J.raw(i).t]))]


def _at(V, m, x):
    """ghost map m sends row x to an index of list V that holds x"""
    i = z3.Select(m, x)
    return z3.And(0 <= i, i < V.len, z3.Select(V.v.arrs[0], V.v.off + i) == x)


def _acc(L, x):
    """row x is accounted for: among the un-joined rows, or one of the two source rows of a joined row (witnessed by ghost maps)"""
    return z3.Or(_at(L.separate, L.wsep, x), _at(L.ga, L.wa, x), _at(L.gb, L.wb, x))


def _done_upto(L, vg, so, g):
    """every row of the (sorted) list that lies in a finished group is accounted for"""
    T = z3.Int('T')
    S = so['S']
    sel = z3.Select(S.arrs[0], T)
    return forall(T, z3.Implies(z3.And(0 <= T, T < vg.b(g)), _acc(L, sel)), [sel])


def _rr_inv(L, inner=False):
    i = z3.Int('i')
    S = L.separate
    gl, sl = L.note('groupby_log', ()), L.note('sorted_log', ())
    cl = _joined_ok(L, L.joined, L.ga, L.gb, L.maxDifference) + \
        [('unjoined_rows_are_input_rows', forall(i, z3.Implies(rng(0, i, S.len), _in_rows(L.rows, S.raw(i).t)), [S.raw(i).t]))]
    if len(gl) >= 1 and len(sl) >= 1:
        cl.append(('rows_of_finished_reference_groups_are_accounted_for', _done_upto(L, gl[0], sl[0], L.for_0)))
    if inner and len(gl) >= 2 and len(sl) >= 2:
        cl.append(('rows_of_finished_query_groups_are_accounted_for', _done_upto(L, gl[1], sl[1], L.for_1)))
    return cl


def _rr_requires(C):
    R = C.rows
    a, b, c = z3.Int('a'), z3.Int('b'), z3.Int('c')
    same = lambda x, y: z3.And(R[x].referenceId == R[y].referenceId, R[x].queryId == R[y].queryId)
    return [('at_most_two_rows_per_reference_and_query', forall([a, b, c], z3.Implies(z3.And(rng(0, a, R.len), rng(0, b, R.len), rng(0, c, R.len), a != b, b != c, a != c),
                                                                                      z3.Not(z3.And(same(a, b), same(b, c)))),
                                                                [MP(R.raw(a).t, R.raw(b).t, R.raw(c).t)]))]


def _rr_ensures(C, res):
    J, S = res[0], res[1]
    i = z3.Int('i')
    R = C.rows
    if C.has('F'):
        Fv = C.F
        ga, gb, wsep, wa, wb = Fv.ga, Fv.gb, Fv.wsep, Fv.wa, Fv.wb
    else:
        # at call sites the callee's ghost state is existentially quantified: fresh symbols
        e = C._e
        ga, gb = C._view_list(e.fresh_list(ROW, 'ga')), C._view_list(e.fresh_list(ROW, 'gb'))
        mk = lambda nm: z3.Const(fresh_name(nm), z3.ArraySort(Ref, z3.IntSort()))
        wsep, wa, wb = mk('wsep'), mk('wa'), mk('wb')
    acc = lambda x: z3.Or(_at(S, wsep, x), _at(ga, wa, x), _at(gb, wb, x))
    return _joined_ok(C, J, ga, gb, C.maxDifference) + \
        [('unjoined_rows_are_input_rows', forall(i, z3.Implies(rng(0, i, S.len), _in_rows(C.rows, S.raw(i).t)), [S.raw(i).t])),
         ('every_input_row_is_unjoined_or_a_part_of_a_joined_row', forall(i, z3.Implies(rng(0, i, R.len), acc(R.raw(i).t)), [R.raw(i).t]))]


_erow = lambda C: C._e.fresh_list(ROW, 'gsrc', n=z3.IntVal(0))
_emap = lambda C: z3.K(Ref, z3.IntVal(-1))
resolveRows = FunctionSpec(
    file=F, qualname='AlignmentResults.resolve', params=dict(rows=LIST(ROW), maxDifference=REAL), returns=TUPLE(LIST(ROW), LIST(ROW)),
    requires=_rr_requires, ensures=_rr_ensures, serves=('C08',), may_raise={'IndexError'}, keep_own_safety=True,
    loops={'for#0': Loop(inv=_rr_inv, kinds={'joined': LIST(ROW), 'separate': LIST(ROW)}),
           'for#1': Loop(inv=lambda L: _rr_inv(L, inner=True), kinds={'joined': LIST(ROW), 'separate': LIST(ROW)})},
    ghost={'ga': _erow, 'gb': _erow, 'wsep': _emap, 'wa': _emap, 'wb': _emap},
    ghost_at={'call:append#0': _sep_one, 'call:append#1': _join_log, 'call:extend#0': _sep_two('call:extend#0'), 'call:extend#1': _sep_two('call:extend#1')},
    note="a joined row exists only for two input rows of the same query, reference and strand whose reference gap is at most the maxDifference GIVEN to "
         "this function (check_overlap's contract at the call site), and carries their ids and strand; every un-joined row is an input row. That no row is "
         "lost needs at most two rows per (reference, query) and is left to the bounded C08 monitor")

SPECS = [check_overlap, create, filterOut, getUnalignedFragments, rowResolve, resolveRows]
