"""Contracts for the HitEnum (CIGAR) code of src/alignment/alignment_results.py (C03)."""
import z3
from pyvc.kinds import *
from pyvc.dsl import FunctionSpec, Loop, forall, rng
from specs.schema import PAIR
from specs.common import same_list, zabs, Abs

F = 'src/alignment/alignment_results.py'
ROW = OBJ('AlignmentResultRow')
HIT = ENUM('HitEnum')
MATCH, DELETION, INSERTION = 0, 1, 2           # order of the members in the class body (checked by _enum_order)
HS = z3.Function('hit_run_string', z3.IntSort(), z3.IntSort(), Ref)      # the text "<count><letter>"

# ------------------------------------------------------------------ __hitToString (assumed: string formatting)
hitToString = FunctionSpec(
    file=F, qualname='AlignmentResultRow.__hitToString', params=dict(count=INT, hit=HIT), returns=STR,
    ensures=lambda C, res: [('text_of_run', res.ref == HS(C.count, C.hit)),
                            ('run_text_not_empty', res.ref != C._e.str_const('').t)],
    trusted=True, serves=('C03',),
    note="f\"{count}{hit.value}\" is the run text; string formatting is outside the verifier (bounded-checked by bcheck.c03)")

# ------------------------------------------------------------------ alignedPairs (assumed: flattening comprehension)
alignedPairs = FunctionSpec(
    file=F, qualname='AlignmentResultRow.alignedPairs', params=dict(self=ROW), returns=LIST(PAIR),
    ensures=lambda C, res: [('is_the_rows_pair_list', same_list(res, C.self.alignedPairs))],
    trusted=True, serves=('C03', 'C01'),
    note="read-only property: the pairs of all segments in order (nested comprehension, outside the subset); "
         "modelled as a ghost field so that repeated reads agree")

# ------------------------------------------------------------------ __aggregateHitEnums


def _agg_common(L, i, hits, count, prev):
    out, rc, rh, rs = L.out, L.rc, L.rh, L.rs
    r = out.len
    covered = i + 1 - count
    k, t = z3.Int('k'), z3.Int('t')
    return [
        ('count_range', z3.And(count >= 1, count <= i + 1)),
        ('previous_is_current_element', prev == hits[i]),
        ('current_run_uniform', forall(t, z3.Implies(z3.And(covered <= t, t <= i), hits[t] == prev), [hits[t]])),
        ('ghost_sync', z3.And(rc.len == r, rh.len == r, rs.len == r)),
        ('runs_uniform', forall([k, t], z3.Implies(z3.And(rng(0, k, r), rs[k] <= t, t < rs[k] + rc[k]), hits[t] == rh[k]),
                                [MP(rh[k], hits[t])])),
        ('runs_nonempty', forall(k, z3.Implies(rng(0, k, r), z3.And(rc[k] >= 1, rs[k] >= 0)), [rc[k]])),
        ('runs_tile', z3.And(z3.Implies(r > 0, rs[0] == 0),
                             forall(k, z3.Implies(z3.And(1 <= k, k < r), z3.And(rs[k] == rs[k - 1] + rc[k - 1], rh[k - 1] != rh[k])),
                                    [rs[k]]))),
        ('runs_end_where_current_starts', z3.And(z3.Implies(r > 0, z3.And(rs[r - 1] + rc[r - 1] == covered, rh[r - 1] != prev)),
                                                 z3.Implies(r == 0, covered == 0))),
        ('run_texts', forall(k, z3.Implies(rng(0, k, r), z3.And(out.raw(k).t == HS(rc[k], rh[k]),
                                                                out.raw(k).t != L._e.str_const('').t)), [out.raw(k).t])),
    ]


def _agg_inv(L):
    i = L.for_0
    hit = L.hit
    return _agg_common(L, i, L.hits, L.count, L.previousHit) + [
        ('loop_variable_shape', z3.And(z3.Implies(i == 0, hit.none),
                                       z3.Implies(i > 0, z3.And(z3.Not(hit.none), hit.val == L.hits[i]))))]


def _agg_emit(L, hitval):
    e = L._e
    start = L.for_0 + 1 - L.count
    L.set('rc', e.list_append(L.raw('rc'), VInt(L.count)))
    L.set('rh', e.list_append(L.raw('rh'), VInt(hitval)))
    L.set('rs', e.list_append(L.raw('rs'), VInt(start)))


def _agg_ensures(C, res):
    hits = C.hits
    k, t = z3.Int('k'), z3.Int('t')
    empty = C._e.str_const('').t
    texts = ('run_texts_not_empty', forall(k, z3.Implies(rng(0, k, res.len), res.raw(k).t != empty), [res.raw(k).t]))
    if not C.has('F'):
        return [texts, ('nonempty_when_hits', res.len >= 1)]
    rc, rh, rs = C.F.rc, C.F.rh, C.F.rs
    r = res.len
    return [
        ('runs_expand_to_exactly_the_hits', z3.And(
            z3.Implies(r > 0, z3.And(rs[0] == 0, rs[r - 1] + rc[r - 1] == hits.len)),
            forall(k, z3.Implies(z3.And(1 <= k, k < r), rs[k] == rs[k - 1] + rc[k - 1]), [rs[k]]),
            forall([k, t], z3.Implies(z3.And(rng(0, k, r), rs[k] <= t, t < rs[k] + rc[k]), hits[t] == rh[k]),
                   [MP(rh[k], hits[t])]),
            forall(k, z3.Implies(rng(0, k, r), rc[k] >= 1), [rc[k]]))),
        ('adjacent_runs_differ', forall(k, z3.Implies(z3.And(1 <= k, k < r), rh[k - 1] != rh[k]), [rh[k]])),
        ('run_texts', forall(k, z3.Implies(rng(0, k, r), res.raw(k).t == HS(rc[k], rh[k])), [res.raw(k).t])),
        texts,
        ('nonempty_when_hits', r >= 1),
    ]


def _empty_int_list(C):
    return C._e.fresh_list(INT, 'g', n=z3.IntVal(0))


aggregateHitEnums = FunctionSpec(
    file=F, qualname='AlignmentResultRow.__aggregateHitEnums', params=dict(hits=LIST(HIT)), yields=STR,
    requires=lambda C: [('at_least_one_hit', C.hits.len >= 1)],
    ensures=_agg_ensures,
    loops={'for#0': Loop(inv=_agg_inv, kinds={'hit': OPT(HIT)})},
    ghost={'rc': _empty_int_list, 'rh': _empty_int_list, 'rs': _empty_int_list},
    ghost_at={'yield#0': lambda L: _agg_emit(L, L.previousHit), 'yield#1': lambda L: _agg_emit(L, L.previousHit)},
    serves=('C03',),
    note="run-length encoding: runs expand to exactly `hits`, adjacent runs differ, non-empty whenever hits is",
)


# ------------------------------------------------------------------ valid matching vocabulary


def direction(P):
    """+1 / -1: orientation of the query label numbers along the pair list (irrelevant for a single pair)"""
    return z3.If(z3.And(P.len >= 2, P[1].query.siteId < P[0].query.siteId), -1, 1)


def valid_matching(P, d):
    """VM: reference label numbers strictly ascending, query label numbers strictly monotone in direction d
    (quantified over absolute indices of the base array, see specs.common.Abs)"""
    A = Abs(P)
    I, J = z3.Int('I'), z3.Int('J')
    inr = z3.And(A.lo <= I, I < J, J < A.hi)
    ti, tj = A.raw(I).t, A.raw(J).t
    pat = [MP(ti, tj)]
    return [('reference_strictly_ascending', forall([I, J], z3.Implies(inr, A[I].reference.siteId < A[J].reference.siteId), pat)),
            ('query_strictly_monotone', forall([I, J], z3.Implies(inr, z3.If(d == 1, A[J].query.siteId - A[I].query.siteId,
                                                                             A[I].query.siteId - A[J].query.siteId) >= J - I), pat))]


# ------------------------------------------------------------------ __removeDuplicateQueryPositionsPreservingLastOne
def _rd_inv(L):
    g = L.for_0
    P, out = L.pairs, L.out
    vg = L._e.last_groupby
    k = z3.Int('k')
    return [('neighbouring_query_labels_differ', z3.Implies(z3.And(g >= 1, g < P.len),
                                                            P[g - 1].query.siteId != P[g].query.siteId)),
            ('one_output_per_group', out.len == g),
            ('groups_are_singletons', vg.b(g) == g),
            ('output_is_input_prefix', forall(k, z3.Implies(rng(0, k, g), out.raw(k).t == P.raw(k).t), [out.raw(k).t]))]


def _rd_requires(C):
    P = C.pairs
    return valid_matching(P, direction(P))[1:]


def _rd_ensures(C, res):
    P = C.pairs
    k = z3.Int('k')
    return [('identity_on_valid_matchings', z3.And(res.len == P.len,
                                                   forall(k, z3.Implies(rng(0, k, P.len), res.raw(k).t == P.raw(k).t),
                                                          [res.raw(k).t])))]


removeDuplicates = FunctionSpec(
    file=F, qualname='AlignmentResultRow.__removeDuplicateQueryPositionsPreservingLastOne',
    params=dict(pairs=LIST(PAIR)), yields=PAIR,
    requires=_rd_requires, ensures=_rd_ensures,
    loops={'for#0': Loop(inv=_rd_inv)},
    serves=('C03',),
    note="on a valid matching every groupby run is a singleton, so the de-duplication step is the identity (proved, not assumed)")


# ------------------------------------------------------------------ __getHitEnums
# Ghost replay cursor (gr, gq, gn): reference label, query label, index of the next listed pair.  MATCH asserts
# that the cursor is exactly on the next listed pair; D advances the reference label, I the query label.


def _ghe_facts(L, ri, inner_j=None):
    P = L.pairs
    m = P.len
    R = lambda k: P[k].reference.siteId
    Q = lambda k: P[k].query.siteId
    d = direction(P)
    it, cur, pq = L.pairsIterator, L.currentPair, L.previousQuery
    c = z3.If(cur.none, m, it.pos - 1)        # index of the current pair (m once the iterator is exhausted)
    gr, gq, gn, out = L.gr, L.gq, L.gn, L.out
    rl = R(m - 1)
    step = lambda x: z3.If(d == 1, x, -x)
    on_pair = z3.And(z3.Not(cur.none), cur.val.ref == P.raw(c).t)
    shape_a = z3.And(c == 0, pq == Q(0), gq == Q(0))
    shape_b = z3.And(c > 0, pq == Q(c - 1), gq == pq + step(1))
    shape_c = z3.And(c > 0, pq == Q(c), gq == Q(c))
    if inner_j is not None:
        shape = z3.And(c > 0, pq == Q(c - 1), gq == pq + step(1 + inner_j))
    else:
        shape = z3.Or(shape_a, shape_b, shape_c)
    live = [('in_range', z3.And(0 <= c, c < m)), ('current_is_pair_c', on_pair), ('cursor_index', gn == c),
            ('cursor_reference', gr == ri), ('next_pair_not_behind', R(c) >= ri),
            ('previous_pair_behind', z3.Implies(c > 0, R(c - 1) < ri)), ('query_cursor_shape', shape)]
    done = [('iterator_exhausted', z3.And(cur.none, it.pos == m)), ('cursor_index_done', gn == m), ('cursor_reference_done', gr == ri)]
    return live, done, out, c, rl


def _ghe_outer(L):
    P = L.pairs
    ri = P[0].reference.siteId + L.for_0
    live, done, out, c, rl = _ghe_facts(L, ri)
    is_done = ri > rl
    return [('iterator_over_pairs', same_list(L.pairsIterator.list, P)),
            ('index_range', ri <= rl + 1)] + \
           [('live_' + n, z3.Implies(z3.Not(is_done), t)) for n, t in live] + \
           [('done_' + n, z3.Implies(is_done, t)) for n, t in done] + \
           [('first_operation_is_match', z3.Implies(out.len >= 1, out[0] == MATCH)),
            ('match_emitted_once_past_first_pair', z3.Implies(c > 0, out.len >= 1)),
            ('last_operation_is_match_when_done', z3.Implies(is_done, z3.And(out.len >= 1, out[out.len - 1] == MATCH)))]


def _ghe_inner(L):
    P = L.pairs
    ri = L.referenceIndex
    live, done, out, c, rl = _ghe_facts(L, ri, inner_j=L.for_1)
    return [('iterator_over_pairs', same_list(L.pairsIterator.list, P))] + [('live_' + n, t) for n, t in live] + \
           [('first_operation_is_match', z3.And(out.len >= 1, out[0] == MATCH))]


def _ghe_requires(C):
    P = C.self.alignedPairs
    return [('at_least_one_pair', P.len >= 1)] + valid_matching(P, direction(P))


def _ghe_ensures(C, res):
    cl = [('nonempty', res.len >= 1),
          ('starts_with_match', res[0] == MATCH),
          ('ends_with_match', res[res.len - 1] == MATCH)]
    if C.has('F'):
        P = C.F.pairs
        cl += [('replay_reproduces_all_listed_pairs', C.F.gn == P.len),
               ('replay_ends_after_last_reference_label', C.F.gr == P[P.len - 1].reference.siteId + 1)]
    return cl


def _ghe_match(L):
    P = L.pairs
    gn = L.gn
    L.assert_('match_is_on_the_next_listed_pair',
              z3.And(0 <= gn, gn < P.len, L.gr == P[gn].reference.siteId, L.gq == P[gn].query.siteId), 'yield#1')
    d = direction(P)
    L.set('gn', gn + 1)
    L.set('gr', L.gr + 1)
    L.set('gq', L.gq + z3.If(d == 1, 1, -1))


def _ghe_init(C, what):
    P = C.self.alignedPairs
    return {'gr': P[0].reference.siteId, 'gq': P[0].query.siteId, 'gn': z3.IntVal(0)}[what]


getHitEnums = FunctionSpec(
    file=F, qualname='AlignmentResultRow.__getHitEnums', params=dict(self=ROW), yields=HIT,
    requires=_ghe_requires, ensures=_ghe_ensures,
    loops={'for#0': Loop(inv=_ghe_outer, kinds={'currentPair': OPT(PAIR)}),
           'for#1': Loop(inv=_ghe_inner, kinds={'currentPair': OPT(PAIR)})},
    ghost={'gr': lambda C: _ghe_init(C, 'gr'), 'gq': lambda C: _ghe_init(C, 'gq'), 'gn': lambda C: _ghe_init(C, 'gn')},
    ghost_at={'yield#0': lambda L: L.set('gq', L.gq + z3.If(direction(L.pairs) == 1, 1, -1)),
              'yield#1': _ghe_match,
              'yield#2': lambda L: L.set('gr', L.gr + 1)},
    serves=('C03',),
    note="replaying the emitted operations from the first pair visits exactly the listed pairs (ghost cursor); "
         "first and last operation are M; currentPair is never None when dereferenced",
)


# ------------------------------------------------------------------ cigarString (glue)
cigarString = FunctionSpec(
    file=F, qualname='AlignmentResultRow.cigarString', params=dict(self=ROW), returns=STR,
    requires=lambda C: valid_matching(C.self.alignedPairs, direction(C.self.alignedPairs)),
    ensures=lambda C, res: [('empty_exactly_when_no_pair',
                             (C.self.alignedPairs.len == 0) == (res.ref == C._e.str_const('').t))],
    serves=('C03',),
    note="HitEnum text = join of the aggregated runs of the replayable operation list; empty only for a row without pairs",
)

SPECS = [hitToString, alignedPairs, aggregateHitEnums, removeDuplicates, getHitEnums, cigarString]
