"""Contracts for src/correlation/optical_map.py (C16, C17, C02, C11, C12)."""
import z3
from pyvc.kinds import *
from pyvc.dsl import FunctionSpec, Loop, forall, rng
from specs.schema import OMAP, PWS

# ------------------------------------------------------------------ toRelativeGenomicPositions
# numpy broadcasting is element-wise: the contract is about one coordinate (assumption listed)


def _trgp_ensures(C, res):
    c, r, s = C.correlationCoordinates, C.resolution, C.start
    x = z3.Real('x')
    half_up = z3.If(r % 2 == 0, r / 2, r / 2 + 1)         # ceil(r/2) for r >= 1 (z3 `/` on Int is div)
    return [('closed_form', res == c * r + s + half_up - 1),
            ('bin_centre_within_half_resolution',
             forall(x, z3.Implies(z3.And(z3.ToReal(c * r) + s <= x, x <= z3.ToReal(c * r) + s + r - 1),
                                  z3.And(x - res <= z3.ToReal(r) / 2, res - x <= z3.ToReal(r) / 2))))]


toRelativeGenomicPositions = FunctionSpec(
    file='src/correlation/optical_map.py', qualname='toRelativeGenomicPositions',
    params=dict(correlationCoordinates=INT, resolution=INT, start=REAL), returns=REAL,
    requires=lambda C: [('resolution_positive', C.resolution >= 1)],
    ensures=_trgp_ensures,
    serves=('C16', 'C06'),
    note="bin index -> coordinate of the bin centre; every integer coordinate of bin c is within resolution/2",
)

# ------------------------------------------------------------------ OpticalMap.trim


def _trim_ensures(C, res):
    P, R = C.self.positions, res.positions
    n = P.len
    k = z3.Int('k')
    return [('empty_returned_unchanged', z3.Implies(n == 0, res.ref == C.self.ref)),
            ('same_label_count', R.len == n),
            ('first_label_at_zero', z3.Implies(n > 0, R[0] == 0)),
            ('distances_kept', z3.Implies(n > 0, forall(k, z3.Implies(rng(0, k, n), R[k] == P[k] - P[0]), [R[k]]))),
            ('length_is_last_minus_first_plus_one', z3.Implies(n > 0, res.length == P[n - 1] - P[0] + 1)),
            ('id_kept', res.moleculeId == C.self.moleculeId),
            ('shift_reset', z3.Implies(n > 0, res.shift == 0))]


trim = FunctionSpec(
    file='src/correlation/optical_map.py', qualname='OpticalMap.trim',
    params=dict(self=OMAP), returns=OMAP,
    ensures=_trim_ensures,
    serves=('C17', 'C02'),
)

# ------------------------------------------------------------------ OpticalMap.getPositionsWithSiteIds


def _gp_rev_inv(L):
    P, out, i = L.self.positions, L.out, L.for_0
    n = P.len
    k = z3.Int('k')
    return [('count', out.len == i),
            ('next_site_id', L.i == n + L.self.shift - i),
            ('end_position', L.moleculeEndPosition == L.self.length - 1),
            ('emitted', forall(k, z3.Implies(rng(0, k, i), z3.And(
                out[k].siteId == n + L.self.shift - k,
                out[k].position == L.self.length - 1 - P[n - 1 - k])), [out.raw(k).t]))]


def _gp_fwd_inv(L):
    P, out, i = L.self.positions, L.out, L.for_1
    k = z3.Int('k')
    return [('count', out.len == i),
            ('next_site_id', L.i == 1 + L.self.shift + i),
            ('emitted', forall(k, z3.Implies(rng(0, k, i), z3.And(
                out[k].siteId == L.self.shift + k + 1,
                out[k].position == P[k])), [out.raw(k).t]))]


def _gp_ensures(C, res):
    P = C.self.positions
    n = P.len
    k = z3.Int('k')
    return [('one_per_label', res.len == n),
            ('reverse_numbering_and_mirror', z3.Implies(C.reverse, forall(k, z3.Implies(rng(0, k, n), z3.And(
                res[k].siteId == n + C.self.shift - k,
                res[k].position == C.self.length - 1 - P[n - 1 - k])), [res.raw(k).t]))),
            ('forward_numbering', z3.Implies(z3.Not(C.reverse), forall(k, z3.Implies(rng(0, k, n), z3.And(
                res[k].siteId == C.self.shift + k + 1,
                res[k].position == P[k])), [res.raw(k).t])))]


getPositionsWithSiteIds = FunctionSpec(
    file='src/correlation/optical_map.py', qualname='OpticalMap.getPositionsWithSiteIds',
    params=dict(self=OMAP, reverse=BOOL), yields=PWS,
    ensures=_gp_ensures,
    loops={'for#0': Loop(inv=_gp_rev_inv), 'for#1': Loop(inv=_gp_fwd_inv)},
    serves=('C02', 'C11', 'C12'),
    note="site id = label number in the whole molecule (shift + index), reverse strand mirrors coordinates about length-1",
)

SPECS = [toRelativeGenomicPositions, trim, getPositionsWithSiteIds]
