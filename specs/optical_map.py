"""Contracts for src/correlation/optical_map.py (C16, C17, C02, C11, C12)."""
import z3
from pyvc.kinds import *
from pyvc.dsl import FunctionSpec, Loop, forall, rng
from specs.schema import OMAP, PWS

# ------------------------------------------------------------------ toRelativeGenomicPositions
# numpy broadcasting is element-wise: the contract is about one coordinate (assumption listed)


def _trgp_ensures(C, res):
    c, r, s = C.correlationCoordinates, C.resolution, C.start
    x = z3.Real('x')
    half_up = z3.If(r % 2 == 0, r / 2, r / 2 + 1)         # ceil(r/2) for r >= 1 (z3 `/` on Int is div)
    return [('closed_form', res == c * r + s + half_up - 1),
            ('bin_centre_within_half_resolution',
             forall(x, z3.Implies(z3.And(z3.ToReal(c * r) + s <= x, x <= z3.ToReal(c * r) + s + r - 1),
                                  z3.And(x - res <= z3.ToReal(r) / 2, res - x <= z3.ToReal(r) / 2))))]


toRelativeGenomicPositions = FunctionSpec(
    file='src/correlation/optical_map.py', qualname='toRelativeGenomicPositions',
    params=dict(correlationCoordinates=INT, resolution=INT, start=REAL), returns=REAL,
    requires=lambda C: [('resolution_positive', C.resolution >= 1)],
    ensures=_trgp_ensures, elementwise={'correlationCoordinates'},
    serves=('C16', 'C06'),
    note="bin index -> coordinate of the bin centre; every integer coordinate of bin c is within resolution/2",
)


def _trgp_real_ensures(C, res):
    c, r, s = C.correlationCoordinates, C.resolution, C.start
    half_up = z3.If(r % 2 == 0, r / 2, r / 2 + 1)
    return [('closed_form', res == c * z3.ToReal(r) + s + half_up - 1)]


toRelativeGenomicPositions_real = FunctionSpec(
    file='src/correlation/optical_map.py', qualname='toRelativeGenomicPositions', variant='real',
    params=dict(correlationCoordinates=REAL, resolution=INT, start=REAL), returns=REAL,
    requires=lambda C: [('resolution_positive', C.resolution >= 1)], ensures=_trgp_real_ensures, elementwise={'correlationCoordinates'},
    serves=('C16',), note="the same conversion for an interpolated (fractional) bin coordinate, e.g. the half-height points of a peak: coordinate * resolution + start + ceil(resolution/2) - 1")

# ------------------------------------------------------------------ OpticalMap.trim


def _trim_ensures(C, res):
    P, R = C.self.positions, res.positions
    n = P.len
    k = z3.Int('k')
    return [('empty_returned_unchanged', z3.Implies(n == 0, res.ref == C.self.ref)),
            ('same_label_count', R.len == n),
            ('first_label_at_zero', z3.Implies(n > 0, R[0] == 0)),
            ('distances_kept', z3.Implies(n > 0, forall(k, z3.Implies(rng(0, k, n), R[k] == P[k] - P[0]), [R[k]]))),
            ('length_is_last_minus_first_plus_one', z3.Implies(n > 0, res.length == P[n - 1] - P[0] + 1)),
            ('id_kept', res.moleculeId == C.self.moleculeId),
            ('shift_reset', z3.Implies(n > 0, res.shift == 0))]


trim = FunctionSpec(
    file='src/correlation/optical_map.py', qualname='OpticalMap.trim',
    params=dict(self=OMAP), returns=OMAP,
    ensures=_trim_ensures,
    serves=('C17', 'C02'),
)
trim_wellformed = FunctionSpec(
    file='src/correlation/optical_map.py', qualname='OpticalMap.trim', variant='wellformed', params=dict(self=OMAP), returns=OMAP,
    ensures=lambda C, res: [], class_invariants=True, verify_only=True, serves=('C17', 'C02', 'C12'),
    note="class invariant of OpticalMap (at least one label, ascending coordinates) is preserved: the obligation at the constructor call, given the invariant "
         "of the map trimmed (the default contract of trim makes no such assumption and also covers the label-less map)")

# ------------------------------------------------------------------ OpticalMap.getPositionsWithSiteIds


def _gp_rev_inv(L):
    P, out, i = L.self.positions, L.out, L.for_0
    n = P.len
    k = z3.Int('k')
    return [('count', out.len == i),
            ('next_site_id', L.i == n + L.self.shift - i),
            ('end_position', L.moleculeEndPosition == L.self.length - 1),
            ('emitted', forall(k, z3.Implies(rng(0, k, i), z3.And(
                out[k].siteId == n + L.self.shift - k,
                out[k].position == L.self.length - 1 - P[n - 1 - k])), [out.raw(k).t]))]


def _gp_fwd_inv(L):
    P, out, i = L.self.positions, L.out, L.for_1
    k = z3.Int('k')
    return [('count', out.len == i),
            ('next_site_id', L.i == 1 + L.self.shift + i),
            ('emitted', forall(k, z3.Implies(rng(0, k, i), z3.And(
                out[k].siteId == L.self.shift + k + 1,
                out[k].position == P[k])), [out.raw(k).t]))]


def _gp_ensures(C, res):
    P = C.self.positions
    n = P.len
    k = z3.Int('k')
    return [('one_per_label', res.len == n),
            ('reverse_numbering_and_mirror', z3.Implies(C.reverse, forall(k, z3.Implies(rng(0, k, n), z3.And(
                res[k].siteId == n + C.self.shift - k,
                res[k].position == C.self.length - 1 - P[n - 1 - k])), [res.raw(k).t]))),
            ('forward_numbering', z3.Implies(z3.Not(C.reverse), forall(k, z3.Implies(rng(0, k, n), z3.And(
                res[k].siteId == C.self.shift + k + 1,
                res[k].position == P[k])), [res.raw(k).t])))]


getPositionsWithSiteIds = FunctionSpec(
    file='src/correlation/optical_map.py', qualname='OpticalMap.getPositionsWithSiteIds',
    params=dict(self=OMAP, reverse=BOOL), yields=PWS,
    ensures=_gp_ensures,
    loops={'for#0': Loop(inv=_gp_rev_inv), 'for#1': Loop(inv=_gp_fwd_inv)},
    serves=('C02', 'C11', 'C12'),
    note="site id = label number in the whole molecule (shift + index), reverse strand mirrors coordinates about length-1",
)

SPECS = [toRelativeGenomicPositions, toRelativeGenomicPositions_real, trim, trim_wellformed, getPositionsWithSiteIds]

# ------------------------------------------------------------------ lemmas over the contracts
from pyvc.lemma import LemmaSpec


def _trim_idempotent(L):
    m = L.fresh(OMAP, 'm')
    t = L.call(trim, m)
    tt = L.call(trim, t)
    T, TT = L.view(t), L.view(tt)
    k = z3.Int('k')
    L.check('trim_of_trim_has_the_same_positions', z3.And(TT.positions.len == T.positions.len,
            forall(k, z3.Implies(rng(0, k, T.positions.len), TT.positions[k] == T.positions[k]), [TT.positions[k]])))
    L.check('trim_of_trim_has_the_same_length_and_id', z3.And(TT.moleculeId == T.moleculeId,
                                                            z3.Implies(T.positions.len > 0, TT.length == T.length)))


def _mirror(L):
    """C11 mirror lemma: for a trimmed query Q with labels p_1..p_N and its mirror image Q' (p'_k = p_N - p_{N+1-k}, same length), reading Q'
    forwards gives the same coordinate sequence as reading Q on the reverse strand, with label k of one being label N+1-k of the other"""
    q, qm = L.fresh(OMAP, 'q'), L.fresh(OMAP, 'qmirror')
    Q, M = L.view(q), L.view(qm)
    n = Q.positions.len
    k = z3.Int('k')
    L.assume(n >= 1, Q.shift == 0, M.shift == 0, M.positions.len == n, Q.positions[0] == 0, Q.length == Q.positions[n - 1] + 1,
             M.length == Q.length,
             forall(k, z3.Implies(rng(0, k, n), M.positions[k] == Q.positions[n - 1] - Q.positions[n - 1 - k]), [M.positions[k]]))
    rev = L.call(getPositionsWithSiteIds, q, VBool(z3.BoolVal(True)))
    fwd = L.call(getPositionsWithSiteIds, qm, VBool(z3.BoolVal(False)))
    R, Fw = L.view(rev), L.view(fwd)
    L.check('same_coordinates_in_the_same_order', z3.And(R.len == Fw.len, forall(k, z3.Implies(rng(0, k, n), R[k].position == Fw[k].position),
                                                                               [R.raw(k).t])))
    L.check('label_k_is_label_N_plus_1_minus_k', forall(k, z3.Implies(rng(0, k, n), R[k].siteId == n + 1 - Fw[k].siteId), [R.raw(k).t]))


LEMMAS = [LemmaSpec('C17::trim_is_idempotent', _trim_idempotent, ('C17',), "trim(trim(m)) == trim(m) field-wise, from the contract of OpticalMap.trim"),
          LemmaSpec('C11::mirror_image_read_forwards_equals_query_read_on_reverse_strand', _mirror, ('C11',),
                    "from the contract of getPositionsWithSiteIds")]


# ------------------------------------------------------------------ CorrelationResult.createPeaks (C16: the peaksCount highest peaks of one correlation)
PEAKP = OBJ('Peak')
PROPS = RECORD(peak_heights=LIST(REAL), left_ips=LIST(REAL), right_ips=LIST(REAL))
CPIDX = z3.Function('created_peak_source_index', z3.ArraySort(z3.IntSort(), Ref), z3.IntSort(), z3.IntSort())
CPINV = z3.Function('created_peak_place_of_source', z3.ArraySort(z3.IntSort(), Ref), z3.IntSort(), z3.IntSort())


def _centre(c, r, s):
    half_up = z3.If(r % 2 == 0, r / 2, r / 2 + 1)
    return c * z3.ToReal(r) + s + half_up - 1


def _cp_requires(C):
    n = C.peakPositions.len
    pr = C.peakProperties
    return [('resolution_positive', C.resolution >= 1), ('peaks_count_not_negative', C.peaksCount >= 0),
            ('one_property_entry_per_peak', z3.And(pr['peak_heights'].len == n, pr['left_ips'].len == n, pr['right_ips'].len == n))]


def _cp_ensures(C, res):
    pos, pr = C.peakPositions, C.peakProperties
    H, Lb, Rb = pr['peak_heights'], pr['left_ips'], pr['right_ips']
    n, cnt = pos.len, C.peaksCount
    r, s, noise = C.resolution, C.correlationStart, C.noiseLevel
    k, k2, j = z3.Int('cpk'), z3.Int('cpk2'), z3.Int('cpj')
    if C.proving:
        B = C.F.bestPeaksIndices
        g = lambda x: B[x]
        ap = C.note('last_argpartition')
        w = (lambda x: ap['inv'](x)) if ap is not None else (lambda x: x)
    else:
        g = lambda x: CPIDX(res.v.arrs[0], x)
        w = lambda x: CPINV(res.v.arrs[0], x)
    m = res.len
    pat = {} if C.proving else dict(patterns=[res.raw(k).t])
    return [('as_many_peaks_as_asked_for_or_all_of_them', m == z3.If(cnt < n, cnt, n)),
            ('every_created_peak_is_one_of_the_found_peaks_converted_to_the_centre_of_its_bin', z3.ForAll([k], z3.Implies(z3.And(0 <= k, k < m), z3.And(
                0 <= g(k), g(k) < n,
                res[k].position == _centre(z3.ToReal(pos[g(k)]), r, s), res[k].height == H[g(k)], res[k].score == H[g(k)] - noise,
                res[k].leftProminenceBasePosition == _centre(Lb[g(k)], r, s), res[k].rightProminenceBasePosition == _centre(Rb[g(k)], r, s))), **pat)),
            ('no_found_peak_is_used_twice', z3.ForAll([k, k2], z3.Implies(z3.And(0 <= k, k < k2, k2 < m), g(k) != g(k2)),
                                                      **({} if C.proving else dict(patterns=[MP(g(k), g(k2))])))),
            # (a found peak that is higher than some kept peak is itself kept, at place w(j): witness = its place in the partition order)
            ('no_dropped_peak_is_higher_than_a_kept_one', z3.ForAll([j, k], z3.Implies(
                z3.And(0 <= j, j < n, 0 <= k, k < m, H[j] > H[g(k)]), z3.And(0 <= w(j), w(j) < m, g(w(j)) == j)),
                **({} if C.proving else dict(patterns=[MP(H[j], res.raw(k).t)]))))]


createPeaks = FunctionSpec(
    file='src/correlation/optical_map.py', qualname='CorrelationResult.createPeaks',
    params=dict(peakPositions=LIST(INT), peakProperties=PROPS, resolution=INT, correlationStart=REAL, noiseLevel=REAL, peaksCount=INT), returns=LIST(PEAKP),
    requires=_cp_requires, ensures=_cp_ensures, serves=('C16', 'C05'),
    note="the peaks of one correlation: min(peaksCount, found) peaks, each one of the found peaks (none twice) with its bin converted to the bin-centre coordinate, "
         "height kept, score = height - noise level; when peaks are dropped, none of them is higher than a kept one (numpy argpartition, fancy indexing and "
         "element-wise arithmetic as assumed library contracts)")

SPECS += [createPeaks]


# ------------------------------------------------------------------ seeding bookkeeping (C06): getSequence, CorrelationResult.create, InitialAlignment.refine
# The numerics (FFT correlation, scipy find_peaks) are assumed library contracts that say nothing about values; what is verified is the
# coordinate bookkeeping around them: which window is vectorised, from which origin bins are counted, and that peaks are converted back with the same origin.
GEN = OBJ('SequenceGenerator')
CORR = OBJ('CorrelationResult')
IA0 = OBJ('InitialAlignment', 'EmptyInitialAlignment')
from specs.vectorise import _requires as _vec_requires, _axioms as _vec_axioms


def _gseq_requires(C):
    class _P:       # the positions list seen as the `positions` parameter of positionsToSequence
        positions = C.self.positions
    return _vec_requires(_P) + [('resolution_positive', C.sequenceGenerator.resolution >= 1), ('radius_nonnegative', C.sequenceGenerator.blurRadius >= 0)]


def _gseq_ensures(C, res):
    cl = []
    if C.proving and C.has('F') and C.F.has('sequence'):
        seq = C.F.sequence
        k = z3.Int('gsk')
        cl = [('same_bins_read_backwards_on_the_reverse_strand', z3.And(res.len == seq.len, z3.ForAll([k], z3.Implies(rng(0, k, seq.len), res[k] == z3.If(
            C.reverseStrand, seq[seq.len - 1 - k], seq[k])))))]
    b = z3.Int('gsb')
    body = z3.Implies(rng(0, b, res.len), z3.Or(res[b] == 0, res[b] == 1))
    P = C.self.positions
    whole = z3.Or(C.end.none, C.end.val == 0)               # no window end given: up to the last label
    return cl + [('bits', z3.ForAll([b], body) if C.proving else z3.ForAll([b], body, patterns=[res[b]])),
                 ('the_whole_map_from_a_start_not_after_its_last_label_has_at_least_one_bin', z3.Implies(z3.And(whole, P[P.len - 1] >= C.start), res.len >= 1))]


getSequence = FunctionSpec(
    file='src/correlation/optical_map.py', qualname='OpticalMap.getSequence',
    params=dict(self=OMAP, sequenceGenerator=GEN, reverseStrand=BOOL, start=REAL, end=OPT(REAL)), returns=LIST(INT),
    requires=_gseq_requires, ensures=_gseq_ensures, serves=('C06', 'C11'), axioms=_vec_axioms,
    note="the blurred bit vector of the molecule's labels, bins counted from `start` (positionsToSequence, under contract), read backwards on the reverse strand")


def _cc_ensures(C, res):
    k = z3.Int('cck')
    P = res.peaks
    return [('maps_strand_resolution_and_window_origin_are_stored_as_given', z3.And(
                res.query.ref == C.query.ref, res.reference.ref == C.reference.ref, res.reverseStrand == C.reverseStrand, res.resolution == C.resolution,
                res.blur == C.blur, res.correlationStart == C.correlationStart)),
            ('every_peak_lies_at_the_centre_of_a_bin_counted_from_the_window_origin', z3.ForAll([k], z3.Implies(z3.And(P.off <= k, k < P.off + P.len), z3.Exists(
                [z3.Int('ccb')], z3.And(0 <= z3.Int('ccb'), z3.Int('ccb') < C.correlation.len,
                                        Abs(P)[k].position == _centre(z3.ToReal(z3.Int('ccb')), C.resolution, C.correlationStart)))),
                **({} if C.proving else dict(patterns=[z3.Select(P.v.arrs[0], k)]))))]


from specs.common import Abs
corr_create = FunctionSpec(
    file='src/correlation/optical_map.py', qualname='CorrelationResult.create',
    params=dict(correlation=LIST(REAL), query=OMAP, reference=OMAP, peakPositions=LIST(INT), peakProperties=PROPS, peaksCount=INT, reverseStrand=BOOL,
                resolution=INT, blur=INT, correlationStart=REAL, correlationEnd=OPT(REAL), peakHeightThreshold=OPT(REAL)), returns=CORR,
    requires=lambda C: _cp_requires(C) + [('peak_positions_are_bins_of_the_correlation', forall(z3.Int('k'), z3.Implies(
        rng(0, z3.Int('k'), C.peakPositions.len), z3.And(0 <= C.peakPositions[z3.Int('k')], C.peakPositions[z3.Int('k')] < C.correlation.len)),
        [C.peakPositions[z3.Int('k')]]))],
    ensures=_cc_ensures, serves=('C06',),
    note="the refined correlation result: maps, strand, resolution and window origin stored as given; every peak sits at the centre of one of the correlation's "
         "bins, counted from the window origin (createPeaks, under contract)")


def _refine_log_ref(L):
    L.set('g_start', L._e.num(L.callargs[2]))
    L.set('g_end', L._e.num(L.callargs[3]))
    L.set('g_ref_rev', L._e.truth(L._st, L.callargs[1]))


def _refine_log_query(L):
    L.set('g_qry_rev', L._e.truth(L._st, L.callargs[1]))
    L.set('g_qry_gen', L.callargs[0].t)


def _refine_log_create(L):
    L.set('g_origin', L._e.num(L.callargs[9]))
    L.set('g_res', L._e.num(L.callargs[7]))


def _refine_requires(C):
    class _Q:
        positions = C.self.query.positions
    class _R:
        positions = C.self.reference.positions
    return [(n + '_of_the_query', t) for n, t in _vec_requires(_Q)] + [(n + '_of_the_reference', t) for n, t in _vec_requires(_R)] + \
        [('resolution_positive', C.sequenceGenerator.resolution >= 1), ('radius_nonnegative', C.sequenceGenerator.blurRadius >= 0)]


def _refine_ensures(C, res):
    me = C.self
    gen = C.sequenceGenerator
    cl = [('result_is_about_the_same_maps_and_strand', z3.And(res.query.ref == me.query.ref, res.reference.ref == me.reference.ref,
                                                             res.reverseStrand == me.reverseStrand, res.resolution == gen.resolution)),
          ('window_origin_is_the_seed_minus_the_margin', res.correlationStart == C.peakPosition - C.secondaryMargin)]
    if C.proving:
        F_ = C.F
        cl += [('reference_is_vectorised_from_the_window_origin_to_one_query_length_plus_margin_after_the_seed', z3.And(
                    F_.g_start == C.peakPosition - C.secondaryMargin, F_.g_end == C.peakPosition + me.query.length + C.secondaryMargin)),
               ('peaks_are_converted_with_the_origin_and_resolution_the_reference_was_vectorised_with', z3.And(
                   F_.g_origin == F_.g_start, F_.g_res == gen.resolution)),
               ('the_reference_is_read_forwards_and_the_query_on_the_strand_of_the_primary_correlation_with_the_same_generator', z3.And(
                   z3.Not(F_.g_ref_rev), F_.g_qry_rev == me.reverseStrand, F_.g_qry_gen == gen.ref))]
    return cl


refine = FunctionSpec(
    file='src/correlation/optical_map.py', qualname='InitialAlignment.refine',
    params=dict(self=IA0, peakPosition=REAL, sequenceGenerator=GEN, secondaryMargin=REAL, peakHeightThreshold=REAL), returns=CORR,
    requires=_refine_requires, ensures=_refine_ensures,
    ghost={'g_start': lambda C: z3.RealVal(0), 'g_end': lambda C: z3.RealVal(0), 'g_origin': lambda C: z3.RealVal(0), 'g_res': lambda C: z3.IntVal(0),
           'g_ref_rev': lambda C: z3.BoolVal(True), 'g_qry_rev': lambda C: z3.BoolVal(False), 'g_qry_gen': lambda C: z3.Const('rf_none', Ref)},
    ghost_at={'call:getSequence#0': _refine_log_query, 'call:getSequence#1': _refine_log_ref, 'call:create#0': _refine_log_create},
    inline={'InitialAlignment.__getCorrelation'}, serves=('C06',),
    note="the refinement window: the reference is vectorised from seed - margin to seed + query length + margin, and the secondary peaks are converted back to "
         "base pairs with the SAME origin and resolution (so a peak is the bin-centre coordinate of its bin in the window); maps and strand are passed on. The "
         "correlation and peak finding themselves are assumed library contracts without values")

SPECS += [getSequence, corr_create, refine]


# ------------------------------------------------------------------ primary seeding bookkeeping: InitialAlignment.create, OpticalMap.getInitialAlignment
IA = OBJ('InitialAlignment', 'EmptyInitialAlignment')

rms = FunctionSpec(
    file='src/correlation/optical_map.py', qualname='CorrelationResult.rootMeanSquare', params=dict(array=LIST(REAL)), returns=REAL, trusted=True, serves=('C06',),
    note="ASSUMED (numpy sqrt / mean / boolean mask): the noise level of a correlation; only its type is used")

ia_create = FunctionSpec(
    file='src/correlation/optical_map.py', qualname='InitialAlignment.create',
    params=dict(correlation=LIST(REAL), query=OMAP, reference=OMAP, peakPositions=LIST(INT), peakProperties=PROPS, peaksCount=INT, reverseStrand=BOOL,
                resolution=INT, blur=INT, correlationStart=REAL, correlationEnd=OPT(REAL), peakHeightThreshold=OPT(REAL)), returns=OBJ('InitialAlignment'),
    requires=lambda C: _cp_requires(C) + [('peak_positions_are_bins_of_the_correlation', forall(z3.Int('k'), z3.Implies(
        rng(0, z3.Int('k'), C.peakPositions.len), z3.And(0 <= C.peakPositions[z3.Int('k')], C.peakPositions[z3.Int('k')] < C.correlation.len)),
        [C.peakPositions[z3.Int('k')]]))],
    ensures=lambda C, res: _cc_ensures(C, res) + [('at_most_peaksCount_peaks', res.peaks.len <= z3.If(C.peaksCount < C.peakPositions.len, C.peaksCount, C.peakPositions.len))],
    serves=('C06', 'C05'),
    note="the primary correlation result: maps, strand, resolution and window origin stored as given; at most peaksCount peaks, each at the centre of one of the "
         "correlation's bins counted from the origin (createPeaks, under contract)")


def _gia_log(which):
    def h(L):
        a, kw = L.callargs, L.callkwargs
        L.set('seq' + which + '_gen', a[0].t)
        rs = a[1] if len(a) > 1 else kw.get('reverseStrand')
        L.set('seq' + which + '_rev', L._e.truth(L._st, rs) if rs is not None else z3.BoolVal(False))
        L.set('seq' + which + '_plain', z3.BoolVal(len(a) <= 2 and not [k for k in kw if k != 'reverseStrand']))
    return h


def _gia_requires(C):
    class _Q:
        positions = C.self.positions
    class _R:
        positions = C.reference.positions
    return [(n + '_of_the_query', t) for n, t in _vec_requires(_Q)] + [(n + '_of_the_reference', t) for n, t in _vec_requires(_R)] + \
        [('resolution_positive', C.sequenceGenerator.resolution >= 1), ('radius_nonnegative', C.sequenceGenerator.blurRadius >= 0),
         ('peaks_count_not_negative', C.peaksCount >= 0),
         ('labels_at_non_negative_coordinates', z3.And(C.self.positions[0] >= 0, C.reference.positions[0] >= 0))]


def _gia_ensures(C, res):
    e = C._e
    me, ref, gen = C.self, C.reference, C.sequenceGenerator
    empty = res.isa('EmptyInitialAlignment')
    cl = [('result_is_about_this_query_and_this_reference', z3.And(res.query.ref == me.ref, res.reference.ref == ref.ref)),
          ('a_query_longer_than_the_reference_gets_no_seed', z3.Implies(me.length > ref.length, z3.And(empty, res.peaks.len == 0))),
          ('an_empty_result_has_no_peaks', z3.Implies(empty, res.peaks.len == 0)),
          ('otherwise_strand_resolution_and_origin_0_are_recorded_and_at_most_peaksCount_seeds_kept', z3.Implies(z3.Not(empty), z3.And(
              res.reverseStrand == C.reverseStrand, res.resolution == gen.resolution, res.correlationStart == 0, res.peaks.len <= C.peaksCount)))]
    if C.proving and C.has('F') and C.F.has('sequence'):
        F_ = C.F
        cl += [('both_maps_are_vectorised_with_the_same_generator_from_their_origin_the_query_on_the_requested_strand', z3.And(
            F_.seq1_gen == gen.ref, F_.seq2_gen == gen.ref, F_.seq1_rev == C.reverseStrand, z3.Not(F_.seq2_rev), F_.seq1_plain, F_.seq2_plain))]
    return cl


getInitialAlignment_v = FunctionSpec(
    file='src/correlation/optical_map.py', qualname='OpticalMap.getInitialAlignment',
    params=dict(self=OMAP, reference=OMAP, sequenceGenerator=GEN, minPeakDistance=INT, peaksCount=INT, reverseStrand=BOOL), returns=IA,
    requires=_gia_requires, ensures=_gia_ensures, numpy_arrays=True,
    ghost={'seq1_gen': lambda C: z3.Const('gia_none', Ref), 'seq2_gen': lambda C: z3.Const('gia_none', Ref), 'seq1_rev': lambda C: z3.BoolVal(False),
           'seq2_rev': lambda C: z3.BoolVal(True), 'seq1_plain': lambda C: z3.BoolVal(False), 'seq2_plain': lambda C: z3.BoolVal(False)},
    ghost_at={'call:getSequence#0': _gia_log('1'), 'call:getSequence#1': _gia_log('2')},
    inline={'OpticalMap.__getCorrelation'}, serves=('C06', 'C07', 'C11'),
    note="primary seeding of one query on one reference and strand: a query longer than the reference (by declared length, or by its bit vector) gets an empty "
         "result without peaks; otherwise both maps are vectorised with the same generator from their origin (the query on the requested strand), peaks are "
         "bin centres counted from the reference origin, at most peaksCount of them, and strand / resolution are recorded. Correlation, normalisation and peak "
         "finding are library contracts without values.")

SPECS += [rms, ia_create, getInitialAlignment_v]
