"""Contracts for the Aligner glue (C04, C01): the seed window and the composition engine -> scorer -> segment factory."""
import z3
from pyvc.kinds import *
from pyvc.dsl import FunctionSpec, Loop, forall, rng
from specs.schema import SEG, PEAK, OMAP
from specs.aligner_engine import ascending

F = 'src/alignment/aligner.py'
ALIGNER = OBJ('Aligner')


def _gs_requires(C):
    a = C.self
    return [('reference_ascending', ascending(C.reference.positions)), ('query_ascending', ascending(C.query.positions)),
            ('configuration', z3.And(a.alignmentEngine.maxDistance >= 0, a.scorer.unmatchedPenalty <= 0, a.segmentsFactory.minScore > 0))]


def _gs_ensures(C, res):
    k = z3.Int('k')
    cl = [('segments_carry_the_seed_peak', forall(k, z3.Implies(z3.And(rng(0, k, res.len), res[k].positions.len > 0), res[k].peak.ref == C.peak.ref), [res.raw(k).t]))]
    if C.has('F'):
        Fv = C.F
        cl += [('search_window_starts_at_the_seed', Fv.referenceStartPosition == C.peak.position),
               ('search_window_ends_one_query_length_after_the_seed', Fv.referenceEndPosition == C.peak.position + C.query.length)]
    return cl


getSegments = FunctionSpec(
    file=F, qualname='Aligner.getSegments', params=dict(self=ALIGNER, isReverse=BOOL, peak=PEAK, query=OMAP, reference=OMAP), returns=LIST(SEG),
    requires=_gs_requires, ensures=_gs_ensures, serves=('C04', 'C01', 'C13'),
    note="per seed peak: pairing in the window [peak, peak + query length] -> scoring with the configured values -> segments; every callee precondition "
         "(ascending label lists, non-positive unmatched penalty so that unpaired positions do not score, positive minScore) is discharged at the call sites")

SPECS = [getSegments]
