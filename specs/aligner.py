"""Contracts for the Aligner glue (C04, C01): the seed window and the composition engine -> scorer -> segment factory."""
import z3
from pyvc.kinds import *
from pyvc.dsl import FunctionSpec, Loop, forall, rng
from specs.schema import SEG, PEAK, OMAP
from specs.aligner_engine import ascending

F = 'src/alignment/aligner.py'
ALIGNER = OBJ('Aligner')


def _gs_requires(C):
    a = C.self
    return [('reference_ascending', ascending(C.reference.positions)), ('query_ascending', ascending(C.query.positions)),
            ('configuration', z3.And(a.alignmentEngine.maxDistance >= 0, a.scorer.unmatchedPenalty <= 0, a.segmentsFactory.minScore > 0))]


def _gs_ensures(C, res):
    k = z3.Int('k')
    cl = [('segments_carry_the_seed_peak', forall(k, z3.Implies(z3.And(rng(0, k, res.len), res[k].positions.len > 0), res[k].peak.ref == C.peak.ref), [res.raw(k).t])),
          ('every_nonempty_segment_has_an_aligned_pair', forall(k, z3.Implies(z3.And(rng(0, k, res.len), res[k].positions.len > 0),
                                                                              res[k].alignedPositions.len >= 1), [res.raw(k).t])),
          ('every_nonempty_segment_scores_the_sum_of_its_positions', forall(k, z3.Implies(z3.And(rng(0, k, res.len), res[k].positions.len > 0),
                                                                              res[k].segmentScore == C._e.score_sum(res[k].positions.v)), [res.raw(k).t]))]
    if C.has('F'):
        Fv = C.F
        cl += [('search_window_starts_at_the_seed', Fv.referenceStartPosition == C.peak.position),
               ('search_window_ends_one_query_length_after_the_seed', Fv.referenceEndPosition == C.peak.position + C.query.length)]
    return cl


getSegments = FunctionSpec(
    file=F, qualname='Aligner.getSegments', params=dict(self=ALIGNER, isReverse=BOOL, peak=PEAK, query=OMAP, reference=OMAP), returns=LIST(SEG),
    requires=_gs_requires, ensures=_gs_ensures, serves=('C04', 'C01', 'C13'), class_invariants=True,
    note="per seed peak: pairing in the window [peak, peak + query length] -> scoring with the configured values -> segments; every callee precondition "
         "(ascending label lists, non-positive unmatched penalty so that unpaired positions do not score, positive minScore) is discharged at the call sites")

SPECS = [getSegments]


# ------------------------------------------------------------------ Aligner.align (one candidate row from a list of seed peaks, or from one peak)
from specs.common import Abs, is_cls
from specs.conflicts import ORIGIN
ROW = OBJ('AlignmentResultRow')
PEAKIDX = z3.Function('seed_peak_index', Ref, z3.IntSort(), z3.IntSort())


def _align_ensures(which):
    def ens(C, res):
        e = C._e
        R = res.segments
        a = Abs(R)
        T = z3.Int('alT')
        seg = a[T]
        npeaks = C.peaks.len if which == 'list' else z3.IntVal(1)
        peak_at = (lambda k: C.peaks.raw(k).t) if which == 'list' else (lambda k: C.peaks.ref)
        if C.proving:
            fl = C.note('last_flatten')
            S = C.F.segments
            kk = lambda T: fl['ci'](ORIGIN(R.v.arrs[0], S.v.arrs[0], S.off, T))
        else:
            kk = lambda T: PEAKIDX(res.ref, T)
        body = z3.Implies(z3.And(a.inside(T), seg.positions.len > 0),
                          z3.And(0 <= kk(T), kk(T) < npeaks, seg.peak.ref == peak_at(kk(T)),
                                 seg.segmentScore == e.score_sum(seg.positions.v)))
        return [('ids_lengths_and_strand_are_those_of_the_two_maps', z3.And(
                    res.queryId == C.query.moleculeId, res.referenceId == C.reference.moleculeId, res.queryLength == C.query.length,
                    res.referenceLength == C.reference.length, res.reverseStrand == C.isReverse)),
                ('confidence_is_the_sum_of_the_segment_scores', res.confidence == e.score_sum(R.v, 'segmentScore')),
                ('every_nonempty_segment_carries_one_of_the_seed_peaks_and_scores_the_sum_of_its_positions',
                 z3.ForAll([T], body) if C.proving else z3.ForAll([T], body, patterns=[z3.Select(R.v.arrs[0], T)]))]
    return ens


_align_note = ("(partial correctness) the candidate row of one reference/query/strand: segments of all seed peaks -> conflict resolution -> row; ids, lengths and "
               "strand are those of the two maps, Confidence = sum of the segment scores, every non-empty segment carries one of the given seed peaks and its "
               "score is the sum of the scores of its positions (whatever conflict resolution removed)")
align_list = FunctionSpec(
    file=F, qualname='Aligner.align', variant='peaks', params=dict(self=ALIGNER, reference=OMAP, query=OMAP, peaks=LIST(PEAK), isReverse=BOOL), returns=ROW,
    requires=_gs_requires, ensures=_align_ensures('list'), may_raise={'IndexError'}, class_invariants=True, serves=('C04', 'C01', 'C02'), note=_align_note)
align_single = FunctionSpec(
    file=F, qualname='Aligner.align', variant='peak', params=dict(self=ALIGNER, reference=OMAP, query=OMAP, peaks=PEAK, isReverse=BOOL), returns=ROW,
    requires=_gs_requires, ensures=_align_ensures('single'), may_raise={'IndexError'}, class_invariants=True, serves=('C04', 'C01', 'C02'), note=_align_note)

SPECS += [align_list, align_single]
