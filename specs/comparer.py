"""Contracts for the pure parts of src/diagnostic/alignment_comparer.py (C19)."""
import z3
from pyvc.kinds import *
from pyvc.dsl import FunctionSpec, Loop, forall, rng

F = 'src/diagnostic/alignment_comparer.py'
BP = OBJ('BenchmarkAlignedPair', 'BenchmarkAlignedPairWithDistance')


def _cov_ensures(C, res):
    n, d = C.pairs.len, C.difference.len
    return [('coverage_between_0_and_1', z3.And(res >= 0, res <= 1)),
            ('coverage_is_shared_fraction', z3.Implies(n > 0, res * n == n - d)),
            ('empty_alignment_has_coverage_1', z3.Implies(n == 0, res == 1)),
            ('no_exclusive_pairs_means_coverage_1', z3.Implies(d == 0, res == 1))]


getCoverage = FunctionSpec(
    file=F, qualname='AlignmentRowComparer.__getCoverage', params=dict(pairs=LIST(BP), difference=LIST(BP)), returns=REAL,
    requires=lambda C: [('difference_is_part_of_pairs', C.difference.len <= C.pairs.len)],
    ensures=_cov_ensures, serves=('C19',),
    note="coverage = (n - d)/n in [0,1] when the exclusive pairs are part of the pair list (set difference), 1 for an empty list",
)

SPECS = [getCoverage]
