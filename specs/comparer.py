"""Contracts for the pure parts of src/diagnostic/alignment_comparer.py (C19)."""
import z3
from pyvc.kinds import *
from pyvc.dsl import FunctionSpec, Loop, forall, rng

F = 'src/diagnostic/alignment_comparer.py'
BP = OBJ('BenchmarkAlignedPair', 'BenchmarkAlignedPairWithDistance')


def _cov_ensures(C, res):
    n, d = C.pairs.len, C.difference.len
    return [('coverage_between_0_and_1', z3.And(res >= 0, res <= 1)),
            ('coverage_is_shared_fraction', z3.Implies(n > 0, res * n == n - d)),
            ('empty_alignment_has_coverage_1', z3.Implies(n == 0, res == 1)),
            ('no_exclusive_pairs_means_coverage_1', z3.Implies(d == 0, res == 1))]


getCoverage = FunctionSpec(
    file=F, qualname='AlignmentRowComparer.__getCoverage', params=dict(pairs=LIST(BP), difference=LIST(BP)), returns=REAL,
    requires=lambda C: [('difference_is_part_of_pairs', C.difference.len <= C.pairs.len)],
    ensures=_cov_ensures, serves=('C19',),
    note="coverage = (n - d)/n in [0,1] when the exclusive pairs are part of the pair list (set difference), 1 for an empty list",
)

SPECS = [getCoverage]


# ------------------------------------------------------------------ AlignmentComparison.create (the four counts partition the rows)
RC = OBJ('AlignmentRowComparison')
CMP = OBJ('AlignmentComparison', '_NullAlignmentComparison')


def _enum(e, name):
    ci = e.repo.cls('AlignmentRowComparisonResultType')
    return z3.IntVal(list(ci.class_attrs).index(name))


def _create_requires(C):
    R = C.rows
    k = z3.Int('k')
    both = _enum(C._e, 'BOTH')
    return [('only_rows_present_in_both_sets_have_a_positive_identity',
             forall(k, z3.Implies(z3.And(rng(0, k, R.len), R[k].type != both), R[k].identity == 0), [R.raw(k).t])),
            ('identity_is_never_negative', forall(k, z3.Implies(rng(0, k, R.len), R[k].identity >= 0), [R.raw(k).t]))]


def _create_ensures(C, res):
    e = C._e
    R = C.rows
    n = R.len
    total = res.overlapping + res.nonOverlapping + res.firstOnly + res.secondOnly
    if not C.proving:
        # the conclusion of the induction whose base and step are the obligations below (induction schema applied at the meta level)
        return [('the_four_counts_add_up_to_the_number_of_rows', total == n),
                ('counts_are_not_negative', z3.And(res.overlapping >= 0, res.nonOverlapping >= 0, res.firstOnly >= 0, res.secondOnly >= 0))]
    if not (C.has('F') and C.F.has('overlappingRows')):
        return [('no_rows_gives_the_null_comparison', z3.And(n == 0, total == 0))]
    flt = C.note('filter_log')[-1]
    cnts = C.note('count_log')
    both, first, second = _enum(e, 'BOTH'), _enum(e, 'FIRST_ONLY'), _enum(e, 'SECOND_ONLY')
    T = z3.Int('ccT')
    row = R[T - R.off]
    k_rel = T - R.off                                  # the comprehension's condition is indexed relatively, the counts absolutely
    c0 = flt['cond'](k_rel)
    c1, c2, c3 = (c['cond'](T) for c in cnts[:3])
    b2i = lambda b: z3.If(b, 1, 0)
    inside = z3.And(R.off <= T, T < R.off + n)
    return [('classes_are_those_of_the_statement', z3.ForAll([T], z3.Implies(inside, z3.And(
                c0 == (row.identity > 0), c1 == z3.And(row.type == both, z3.Not(row.identity > 0)), c2 == (row.type == first), c3 == (row.type == second))))),
            ('induction_step_every_row_is_counted_in_exactly_one_class', z3.ForAll([T], z3.Implies(inside, b2i(c0) + b2i(c1) + b2i(c2) + b2i(c3) == 1))),
            ('induction_base_and_wiring_counts_are_the_four_class_counts', z3.And(
                res.overlapping == C.F.overlappingRows.len,
                res.nonOverlapping == cnts[0]['Cf'](R.off + n) - cnts[0]['Cf'](R.off),
                res.firstOnly == cnts[1]['Cf'](R.off + n) - cnts[1]['Cf'](R.off),
                res.secondOnly == cnts[2]['Cf'](R.off + n) - cnts[2]['Cf'](R.off))),
            ('rows_are_kept', same_list(res.rows, R))]


from specs.common import same_list
comparison_create = FunctionSpec(
    file=F, qualname='AlignmentComparison.create', params=dict(rows=LIST(RC)), returns=CMP,
    requires=_create_requires, ensures=_create_ensures, serves=('C19',),
    note="overlapping + nonOverlapping + firstOnly + secondOnly = number of rows: every row falls in exactly one of the four classes (identity > 0; BOTH without "
         "overlap; FIRST_ONLY; SECOND_ONLY) - base and step of the induction over the rows are discharged, the induction schema is applied at the meta level; "
         "needs that rows present in one set only carry identity 0 (established by alignment1Only / alignment2Only)")

SPECS += [comparison_create]


# ------------------------------------------------------------------ AlignmentRowComparer.compare (glue: which list goes into which measure)
RCMP = OBJ('AlignmentRowComparer')
ALN = OBJ('BionanoAlignment')

combine = FunctionSpec(
    file=F, qualname='AlignmentRowComparer.__combineMultipleQuerySources', params=dict(self=RCMP, pairs=LIST(BP), otherPairs=LIST(BP)), returns=LIST(BP),
    trusted=True, serves=('C19',),
    ensures=lambda C, res: [('no_more_pairs_than_given', res.len <= C.pairs.len),
                            ('pairs_unchanged_when_sources_are_not_combined', z3.Implies(z3.Not(C.self.combineMultipleQuerySources), same_list(res, C.pairs)))],
    note="ASSUMED (groupby / `in` over dataclass equality): a sub-list of the pairs; the pairs themselves when sources are not combined; bounded by the C19 monitor")
difference = FunctionSpec(
    file=F, qualname='AlignmentRowComparer.__getDifference', params=dict(pairs=LIST(BP), otherPairs=LIST(BP)), returns=LIST(BP), trusted=True, serves=('C19',),
    ensures=lambda C, res: [('no_more_exclusive_pairs_than_pairs', res.len <= C.pairs.len)],
    note="ASSUMED (set difference, sorted): the distinct pairs of the first list that are not in the second - at most as many as the first list has")
identity = FunctionSpec(
    file=F, qualname='AlignmentRowComparer.__getIdentityRatio', params=dict(alignment1Pairs=LIST(BP), alignment2Pairs=LIST(BP)), returns=REAL, trusted=True,
    serves=('C19',), ensures=lambda C, res: [('identity_between_0_and_1', z3.And(0 <= res, res <= 1))],
    note="ASSUMED (difflib.SequenceMatcher.ratio): a value in [0,1]")


def _log_call(prefix):
    def h(L):
        L.set(prefix + '_a', L._st.lst(L.callargs[0]))
        L.set(prefix + '_b', L._st.lst(L.callargs[1]))
        r = L.result
        if hasattr(r, 'v'):
            L.set(prefix + '_r', L._st.lst(r.v))
    return h


def _cmp_ensures(C, res):
    e = C._e
    cl = [('a_row_for_a_key_present_in_both_sets', res.type == _enum(e, 'BOTH')),
          ('the_two_alignments_are_kept_in_order', z3.And(res.alignment1.ref == C.alignment1.ref, res.alignment2.ref == C.alignment2.ref)),
          ('measures_between_0_and_1', z3.And(0 <= res.identity, res.identity <= 1, 0 <= res.alignment1Coverage, res.alignment1Coverage <= 1,
                                             0 <= res.alignment2Coverage, res.alignment2Coverage <= 1))]
    if C.proving:
        F_ = C.F
        cl += [('first_list_is_alignment_1_combined_against_alignment_2_and_vice_versa', z3.And(
                    same_list(F_.cb1_a, C.alignment1.alignedPairs), same_list(F_.cb1_b, C.alignment2.alignedPairs),
                    same_list(F_.cb2_a, C.alignment2.alignedPairs), same_list(F_.cb2_b, C.alignment1.alignedPairs))),
               ('exclusive_pairs_are_differences_of_the_combined_lists_each_against_the_other', z3.And(
                   same_list(F_.df1_a, F_.cb1_r), same_list(F_.df1_b, F_.cb2_r), same_list(F_.df2_a, F_.cb2_r), same_list(F_.df2_b, F_.cb1_r))),
               ('each_coverage_is_computed_from_its_own_combined_list_and_its_own_exclusive_pairs', z3.And(
                   same_list(F_.cv1_a, F_.cb1_r), same_list(F_.cv1_b, F_.df1_r), same_list(F_.cv2_a, F_.cb2_r), same_list(F_.cv2_b, F_.df2_r))),
               ('identity_compares_the_two_combined_lists', z3.And(same_list(F_.id_a, F_.cb1_r), same_list(F_.id_b, F_.cb2_r))),
               ('exclusive_pairs_and_coverages_are_stored_under_their_own_alignment', z3.And(
                   same_list(res.alignment1ExclusivePairs, F_.df1_r), same_list(res.alignment2ExclusivePairs, F_.df2_r)))]
    return cl


_gl = lambda C: C._e.fresh_list(BP, 'g', n=z3.IntVal(0))
row_compare = FunctionSpec(
    file=F, qualname='AlignmentRowComparer.compare', params=dict(self=RCMP, alignment1=ALN, alignment2=ALN), returns=RC, ensures=_cmp_ensures,
    ghost={n: _gl for p in ('cb1', 'cb2', 'df1', 'df2', 'cv1', 'cv2', 'id') for n in (p + '_a', p + '_b', p + '_r')},
    ghost_at={'call:__combineMultipleQuerySources#0': _log_call('cb1'), 'call:__combineMultipleQuerySources#1': _log_call('cb2'),
              'call:__getDifference#0': _log_call('df1'), 'call:__getCoverage#0': _log_call('cv1'),
              'call:__getDifference#1': _log_call('df2'), 'call:__getCoverage#1': _log_call('cv2'), 'call:__getIdentityRatio#0': _log_call('id')},
    serves=('C19',),
    note="the comparison of two alignments of one key: which list goes into which measure (call-site ghosts) - each alignment's pairs are combined against the "
         "other's, exclusive pairs are the differences of the combined lists, each coverage uses its OWN combined list and exclusive pairs (precondition of the "
         "coverage formula discharged here), identity compares the two combined lists; all three measures lie in [0,1]")

SPECS += [combine, difference, identity, row_compare]
