"""Contracts for the pure parts of src/diagnostic/alignment_comparer.py (C19)."""
import z3
from pyvc.kinds import *
from pyvc.dsl import FunctionSpec, Loop, forall, rng

F = 'src/diagnostic/alignment_comparer.py'
BP = OBJ('BenchmarkAlignedPair', 'BenchmarkAlignedPairWithDistance')


def _cov_ensures(C, res):
    n, d = C.pairs.len, C.difference.len
    return [('coverage_between_0_and_1', z3.And(res >= 0, res <= 1)),
            ('coverage_is_shared_fraction', z3.Implies(n > 0, res * n == n - d)),
            ('empty_alignment_has_coverage_1', z3.Implies(n == 0, res == 1)),
            ('no_exclusive_pairs_means_coverage_1', z3.Implies(d == 0, res == 1))]


getCoverage = FunctionSpec(
    file=F, qualname='AlignmentRowComparer.__getCoverage', params=dict(pairs=LIST(BP), difference=LIST(BP)), returns=REAL,
    requires=lambda C: [('difference_is_part_of_pairs', C.difference.len <= C.pairs.len)],
    ensures=_cov_ensures, serves=('C19',),
    note="coverage = (n - d)/n in [0,1] when the exclusive pairs are part of the pair list (set difference), 1 for an empty list",
)

SPECS = [getCoverage]


# ------------------------------------------------------------------ AlignmentComparison.create (the four counts partition the rows)
RC = OBJ('AlignmentRowComparison')
CMP = OBJ('AlignmentComparison', '_NullAlignmentComparison')


def _enum(e, name):
    ci = e.repo.cls('AlignmentRowComparisonResultType')
    return z3.IntVal(list(ci.class_attrs).index(name))


def _create_requires(C):
    R = C.rows
    k = z3.Int('k')
    both = _enum(C._e, 'BOTH')
    return [('only_rows_present_in_both_sets_have_a_positive_identity',
             forall(k, z3.Implies(z3.And(rng(0, k, R.len), R[k].type != both), R[k].identity == 0), [R.raw(k).t])),
            ('identity_is_never_negative', forall(k, z3.Implies(rng(0, k, R.len), R[k].identity >= 0), [R.raw(k).t]))]


def _create_ensures(C, res):
    e = C._e
    R = C.rows
    n = R.len
    total = res.overlapping + res.nonOverlapping + res.firstOnly + res.secondOnly
    if not C.proving:
        # the conclusion of the induction whose base and step are the obligations below (induction schema applied at the meta level)
        return [('the_four_counts_add_up_to_the_number_of_rows', total == n),
                ('counts_are_not_negative', z3.And(res.overlapping >= 0, res.nonOverlapping >= 0, res.firstOnly >= 0, res.secondOnly >= 0))]
    if not (C.has('F') and C.F.has('overlappingRows')):
        return [('no_rows_gives_the_null_comparison', z3.And(n == 0, total == 0))]
    flt = C.note('filter_log')[-1]
    cnts = C.note('count_log')
    both, first, second = _enum(e, 'BOTH'), _enum(e, 'FIRST_ONLY'), _enum(e, 'SECOND_ONLY')
    T = z3.Int('ccT')
    row = R[T - R.off]
    k_rel = T - R.off                                  # the comprehension's condition is indexed relatively, the counts absolutely
    c0 = flt['cond'](k_rel)
    c1, c2, c3 = (c['cond'](T) for c in cnts[:3])
    b2i = lambda b: z3.If(b, 1, 0)
    inside = z3.And(R.off <= T, T < R.off + n)
    return [('classes_are_those_of_the_statement', z3.ForAll([T], z3.Implies(inside, z3.And(
                c0 == (row.identity > 0), c1 == z3.And(row.type == both, z3.Not(row.identity > 0)), c2 == (row.type == first), c3 == (row.type == second))))),
            ('induction_step_every_row_is_counted_in_exactly_one_class', z3.ForAll([T], z3.Implies(inside, b2i(c0) + b2i(c1) + b2i(c2) + b2i(c3) == 1))),
            ('induction_base_and_wiring_counts_are_the_four_class_counts', z3.And(
                res.overlapping == C.F.overlappingRows.len,
                res.nonOverlapping == cnts[0]['Cf'](R.off + n) - cnts[0]['Cf'](R.off),
                res.firstOnly == cnts[1]['Cf'](R.off + n) - cnts[1]['Cf'](R.off),
                res.secondOnly == cnts[2]['Cf'](R.off + n) - cnts[2]['Cf'](R.off))),
            ('rows_are_kept', same_list(res.rows, R))]


from specs.common import same_list
comparison_create = FunctionSpec(
    file=F, qualname='AlignmentComparison.create', params=dict(rows=LIST(RC)), returns=CMP,
    requires=_create_requires, ensures=_create_ensures, serves=('C19',),
    note="overlapping + nonOverlapping + firstOnly + secondOnly = number of rows: every row falls in exactly one of the four classes (identity > 0; BOTH without "
         "overlap; FIRST_ONLY; SECOND_ONLY) - base and step of the induction over the rows are discharged, the induction schema is applied at the meta level; "
         "needs that rows present in one set only carry identity 0 (established by alignment1Only / alignment2Only)")

SPECS += [comparison_create]
