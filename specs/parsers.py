"""Contracts for the small pure parts of the XMAP reading code (C18)."""
import z3
from pyvc.kinds import *
from pyvc.dsl import FunctionSpec, Loop, forall, rng
from specs.common import same_list

BA = OBJ('BionanoAlignment')


def trunc(x):
    return z3.If(x >= 0, z3.ToInt(x), -z3.ToInt(-x))


def _parse_ensures(C, res):
    return [('ids', z3.And(res.alignmentId == C.alignmentId, res.queryId == C.queryId, res.referenceId == C.refId)),
            ('query_coordinates_truncated', z3.And(res.queryStartPosition == trunc(C.queryStart), res.queryEndPosition == trunc(C.queryEnd))),
            ('reference_coordinates_truncated', z3.And(res.referenceStartPosition == trunc(C.refStart), res.referenceEndPosition == trunc(C.refEnd))),
            ('lengths_truncated', z3.And(res.queryLength == trunc(C.queryLength), res.referenceLength == trunc(C.referenceLength))),
            ('strand_confidence_hitenum_pairs_passed_through', z3.And(res.reverseStrand == C.reverseStrand, res.confidence == C.confidence,
                                                                     res.cigarString.ref == C.cigarString.ref, same_list(res.alignedPairs, C.alignment)))]


parse = FunctionSpec(
    file='src/correlation/bionano_alignment.py', qualname='BionanoAlignment.parse',
    params=dict(alignmentId=INT, queryId=INT, refId=INT, queryStart=REAL, queryEnd=REAL, refStart=REAL, refEnd=REAL, reverseStrand=BOOL,
                confidence=REAL, cigarString=STR, queryLength=REAL, referenceLength=REAL, alignment=LIST(OBJ('BenchmarkAlignedPair'))),
    returns=BA, ensures=_parse_ensures, serves=('C18',),
    note="each field of the alignment read back is int() (truncation) of the column of the same meaning - guards against argument transposition",
)

SPECS = [parse]
