"""Contracts for the scoring functions and the command-line wiring (C04)."""
import z3
from pyvc.kinds import *
from pyvc.dsl import FunctionSpec, Loop, forall, rng
from specs.schema import UNSCORED, SCORED
from specs.common import zabs, is_cls

F = 'src/alignment/alignment_position.py'


def _pair_ensures(C, res):
    e = C._e
    return [('score_is_perfectMatchScore_minus_multiplier_times_absolute_offset',
             res.score == C.perfectMatchScore - C.distancePenaltyMultiplier * zabs(C.self.queryShift)),
            ('same_pair', z3.And(res.reference.ref == C.self.reference.ref, res.query.ref == C.self.query.ref,
                                 res.queryShift == C.self.queryShift, res.source == C.self.source)),
            ('is_scored_pair', is_cls(e, res, 'ScoredAlignedPair'))]


pairScore = FunctionSpec(
    file=F, qualname='AlignedPair.getScoredPosition',
    params=dict(self=OBJ('AlignedPair'), perfectMatchScore=REAL, distancePenaltyMultiplier=REAL, unmatchedPenalty=REAL), returns=OBJ('ScoredAlignedPair'),
    ensures=_pair_ensures, serves=('C04',), note="score = sp - dp*|offset|; reference, query, offset carried over unchanged")


def _unpaired_ensures(C, res):
    return [('score_is_unmatchedPenalty', res.score == C.unmatchedPenalty),
            ('wraps_the_same_position', res.position.ref == C.self.ref),
            ('unpaired_positions_never_score_positive', res.score <= 0)]


unpairedScore = FunctionSpec(
    file=F, qualname='NotAlignedPosition.getScoredPosition',
    params=dict(self=OBJ('NotAlignedQueryPosition', 'NotAlignedReferencePosition'), perfectMatchScore=REAL, distancePenaltyMultiplier=REAL, unmatchedPenalty=REAL),
    returns=OBJ('ScoredNotAlignedPosition'),
    ensures=_unpaired_ensures, raises={'ValueError': lambda C: C.unmatchedPenalty > 0}, serves=('C04', 'C13'),
    note="score = su; ValueError exactly when su > 0")


def _scorer_ensures(C, res):
    P = C.positions
    me = C.self
    k = z3.Int('k')
    e = C._e
    return [('one_scored_position_per_position_in_order', res.len == P.len),
            ('pairs_scored_by_offset', forall(k, z3.Implies(z3.And(rng(0, k, P.len), P[k].isa('AlignedPair')), z3.And(
                res[k].isa('ScoredAlignedPair'), res[k].score == me.perfectMatchScore - me.distancePenaltyMultiplier * zabs(P[k].as_('AlignedPair').queryShift),
                res[k].as_('ScoredAlignedPair').reference.ref == P[k].as_('AlignedPair').reference.ref,
                res[k].as_('ScoredAlignedPair').query.ref == P[k].as_('AlignedPair').query.ref)), [res.raw(k).t])),
            ('unpaired_scored_by_penalty', forall(k, z3.Implies(z3.And(rng(0, k, P.len), z3.Not(P[k].isa('AlignedPair'))), z3.And(
                res[k].isa('ScoredNotAlignedPosition'), res[k].score == me.unmatchedPenalty, res[k].score <= 0)), [res.raw(k).t]))]


getScoredPositions = FunctionSpec(
    file='src/alignment/alignment_position_scorer.py', qualname='AlignmentPositionScorer.getScoredPositions',
    params=dict(self=OBJ('AlignmentPositionScorer'), positions=LIST(UNSCORED)), returns=LIST(SCORED),
    requires=lambda C: [('penalty_not_positive', C.self.unmatchedPenalty <= 0)],
    ensures=_scorer_ensures, serves=('C04', 'C13'),
    note="element-wise scoring, order kept; establishes the precondition of the segment builder (unpaired positions score <= 0)")

SPECS = [pairScore, unpairedScore, getScoredPositions]
