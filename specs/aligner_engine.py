"""Contracts for AlignerEngine (C12, C04, C01)."""
import z3
from pyvc.kinds import *
from pyvc.dsl import FunctionSpec, Loop, forall, rng
from specs.schema import PWS, OMAP
from specs.common import zabs, Abs

F = 'src/alignment/aligner.py'
ENGINE = OBJ('AlignerEngine')
UPAIR = OBJ('AlignedPair')


def ascending(P):
    """label coordinates non-decreasing (absolute-index quantification)"""
    A = Abs(P)
    I, J = z3.Int('I'), z3.Int('J')
    return forall([I, J], z3.Implies(z3.And(A.lo <= I, I <= J, J < A.hi), A[I] <= A[J]),
                  [MP(z3.Select(P.v.arrs[0], I), z3.Select(P.v.arrs[0], J))])


def ascending_pws(L):
    """a list of PositionWithSiteId ascending by position"""
    A = Abs(L)
    I, J = z3.Int('I'), z3.Int('J')
    ti, tj = A.raw(I).t, A.raw(J).t
    return forall([I, J], z3.Implies(z3.And(A.lo <= I, I <= J, J < A.hi), A[I].position <= A[J].position), [MP(ti, tj)])


# ------------------------------------------------------------------ __getReferencePositionsWithinRange
def _gr_ensures(C, res):
    P = C.reference.positions
    sh = C.reference.shift
    d = C.self.maxDistance
    lo, hi = C.referenceStartPosition - d, C.referenceEndPosition + d
    k, j = z3.Int('k'), z3.Int('j')
    e = C._e
    if C.has('F'):
        o = e.last_dropwhile['c']
    else:
        o = z3.Int(fresh_name('window_offset'))
    return [('window_is_a_run_of_reference_labels', z3.And(0 <= o, o + res.len <= P.len)),
            ('window_elements', forall(j, z3.Implies(rng(0, j, res.len), z3.And(
                res[j].siteId == sh + o + j + 1, res[j].position == P[o + j],
                lo <= res[j].position, res[j].position <= hi)), [res.raw(j).t])),
            ('every_label_in_range_is_in_the_window', forall(k, z3.Implies(
                z3.And(rng(0, k, P.len), lo <= P[k], P[k] <= hi), z3.And(o <= k, k < o + res.len)), [P[k]]))]


getReferencePositionsWithinRange = FunctionSpec(
    file=F, qualname='AlignerEngine.__getReferencePositionsWithinRange',
    params=dict(self=ENGINE, reference=OMAP, referenceStartPosition=REAL, referenceEndPosition=REAL), returns=LIST(PWS),
    requires=lambda C: [('reference_ascending', ascending(C.reference.positions))],
    ensures=_gr_ensures,
    serves=('C12',),
    note="window = exactly the reference labels with start-maxDistance <= position <= end+maxDistance (inclusive), numbered as in the whole map",
)


# ------------------------------------------------------------------ __getAlignedPairs
# Ghost: per output K its row/column (orow[K], ocol[K]); per processed reference label a the run of query labels in
# range (rl[a], rc[a]) and the output index where its row starts (rs[a]); base = output length at the start of the row.


def _in_range(R, Q, start, d, a, j):
    adj = R[a].position - start
    return z3.And(adj - d <= Q[j].position, Q[j].position <= adj + d)


def _gap_rows(L, upto, R, Q):
    """facts about fully described rows a < upto"""
    rs, rl, rc = L.rs, L.rl, L.rc
    a, j = z3.Int('a'), z3.Int('j')
    d, start = L.self.maxDistance, L.referenceStartPosition
    return [
        ('row_tables', forall(a, z3.Implies(rng(0, a, upto), z3.And(
            0 <= rl[a], rc[a] >= 0, rl[a] + rc[a] <= Q.len, rs[a] >= 0)), [rl[a]])),
        ('rows_are_consecutive', z3.And(z3.Implies(upto > 0, rs[0] == 0),
                                        forall(a, z3.Implies(z3.And(1 <= a, a < upto), rs[a] == rs[a - 1] + rc[a - 1]), [rs[a]]))),
        ('rows_monotone', forall([a, z3.Int('a2')], z3.Implies(z3.And(0 <= a, a < z3.Int('a2'), z3.Int('a2') < upto),
                                                               rs[a] + rc[a] <= rs[z3.Int('a2')]), [MP(rs[a], rs[z3.Int('a2')])])),
        ('row_is_exactly_the_labels_in_range', forall([a, j], z3.Implies(
            z3.And(rng(0, a, upto), rng(0, j, Q.len)),
            _in_range(R, Q, start, d, a, j) == z3.And(rl[a] <= j, j < rl[a] + rc[a])), [MP(rl[a], Q.raw(j).t)])),
    ]


def _gap_outputs(L, R, Q, out, upto_len):
    orow, ocol = L.orow, L.ocol
    K, K2 = z3.Int('K'), z3.Int('K2')
    start = L.referenceStartPosition
    return [
        ('output_ghost_sync', z3.And(orow.len == out.len, ocol.len == out.len)),
        ('each_output_is_an_in_range_pair', forall(K, z3.Implies(rng(0, K, upto_len), z3.And(
            0 <= orow[K], orow[K] < R.len, 0 <= ocol[K], ocol[K] < Q.len,
            out[K].reference.ref == R.raw(orow[K]).t, out[K].query.ref == Q.raw(ocol[K]).t,
            out[K].queryShift == Q[ocol[K]].position - (R[orow[K]].position - start),
            L.rl[orow[K]] <= ocol[K], ocol[K] < L.rl[orow[K]] + L.rc[orow[K]],
            K == L.rs[orow[K]] + ocol[K] - L.rl[orow[K]])), [out.raw(K).t])),
    ]


def _gap_outer(L):
    R, Q, out = L.referencePositions, L.queryPositions, L.out
    i = L.for_0
    rs, rl, rc = L.rs, L.rl, L.rc
    total = z3.If(i == 0, 0, rs[i - 1] + rc[i - 1])
    return [('row_ghost_sync', z3.And(rs.len == i, rl.len == i, rc.len == i)),
            ('output_length', out.len == total)] + _gap_rows(L, i, R, Q) + _gap_outputs(L, R, Q, out, out.len) + \
           [('outputs_belong_to_processed_rows', forall(z3.Int('K'), z3.Implies(rng(0, z3.Int('K'), out.len), L.orow[z3.Int('K')] < i),
                                                        [out.raw(z3.Int('K')).t])),
            ('rows_within_output', forall(z3.Int('a'), z3.Implies(rng(0, z3.Int('a'), i), rs[z3.Int('a')] + rc[z3.Int('a')] <= out.len),
                                          [rs[z3.Int('a')]]))]


def _gap_inner(L):
    R, Q, out = L.referencePositions, L.queryPositions, L.out
    i, t = L.for_0, L.for_1
    rs, rl, rc = L.rs, L.rl, L.rc
    K = z3.Int('K')
    return [('row_ghost_sync', z3.And(rs.len == i + 1, rl.len == i + 1, rc.len == i + 1)),
            ('row_is_the_slice_iterated', z3.And(rc[i] == L.queryPositionsWithinDistance.len,
                                                 L.queryPositionsWithinDistance.off == Q.off + rl[i])),
            ('iterating_the_row', z3.And(L.base == rs[i], out.len == rs[i] + t, t <= rc[i],
                                         z3.If(i == 0, rs[i] == 0, rs[i] == rs[i - 1] + rc[i - 1])))] + \
        _gap_rows(L, i + 1, R, Q) + _gap_outputs(L, R, Q, out, out.len) + \
        [('outputs_belong_to_processed_rows', forall(K, z3.Implies(rng(0, K, out.len), L.orow[K] <= i), [out.raw(K).t]))]


def _gap_row_start(L):
    L.set('base', L.out.len)


def _gap_row_tables(L):
    e = L._e
    lo = e.last_dropwhile['c']
    cnt = e.last_takewhile['c']
    L.set('rs', e.list_append(L.raw('rs'), VInt(L.base)))
    L.set('rl', e.list_append(L.raw('rl'), VInt(lo)))
    L.set('rc', e.list_append(L.raw('rc'), VInt(cnt)))


def _gap_yield(L):
    e = L._e
    L.set('orow', e.list_append(L.raw('orow'), VInt(L.for_0)))
    L.set('ocol', e.list_append(L.raw('ocol'), VInt(L.rl[L.for_0] + L.for_1)))


def _gap_ensures(C, res):
    R, Q = C.referencePositions, C.queryPositions
    d, start = C.self.maxDistance, C.referenceStartPosition
    K, K2, a, j = z3.Int('K'), z3.Int('K2'), z3.Int('a'), z3.Int('j')
    if C.has('F'):
        F_ = C.F
        orow, ocol = (lambda k: F_.orow[k]), (lambda k: F_.ocol[k])
        where = lambda a, j: F_.rs[a] + j - F_.rl[a]
    else:
        fo, fc = z3.Function(fresh_name('gap_row'), z3.IntSort(), z3.IntSort()), z3.Function(fresh_name('gap_col'), z3.IntSort(), z3.IntSort())
        fw = z3.Function(fresh_name('gap_where'), z3.IntSort(), z3.IntSort(), z3.IntSort())
        orow, ocol, where = (lambda k: fo(k)), (lambda k: fc(k)), (lambda a, j: fw(a, j))
        C._e.last_gap = dict(row=fo, col=fc, where=fw)
    return [
        ('every_candidate_is_an_in_range_pair', forall(K, z3.Implies(rng(0, K, res.len), z3.And(
            0 <= orow(K), orow(K) < R.len, 0 <= ocol(K), ocol(K) < Q.len,
            res[K].reference.ref == R.raw(orow(K)).t, res[K].query.ref == Q.raw(ocol(K)).t,
            res[K].queryShift == Q[ocol(K)].position - (R[orow(K)].position - start),
            _in_range(R, Q, start, d, orow(K), ocol(K)), where(orow(K), ocol(K)) == K)), [res.raw(K).t])),
        ('every_in_range_pair_is_a_candidate', forall([a, j], z3.Implies(
            z3.And(rng(0, a, R.len), rng(0, j, Q.len), _in_range(R, Q, start, d, a, j)),
            z3.And(0 <= where(a, j), where(a, j) < res.len, orow(where(a, j)) == a, ocol(where(a, j)) == j)),
            [MP(R.raw(a).t, Q.raw(j).t)])),
        ('candidates_in_reference_then_query_order', forall([K, K2], z3.Implies(
            z3.And(0 <= K, K < K2, K2 < res.len),
            z3.Or(orow(K) < orow(K2), z3.And(orow(K) == orow(K2), ocol(K) < ocol(K2)))), [MP(res.raw(K).t, res.raw(K2).t)])),
    ]


def _gap_requires(C):
    return [('query_ascending', ascending_pws(C.queryPositions)), ('maxDistance_nonnegative', C.self.maxDistance >= 0)]


_il = lambda C: C._e.fresh_list(INT, 'g', n=z3.IntVal(0))
getAlignedPairs = FunctionSpec(
    file=F, qualname='AlignerEngine.__getAlignedPairs',
    params=dict(self=ENGINE, referencePositions=LIST(PWS), queryPositions=LIST(PWS), referenceStartPosition=REAL), yields=UPAIR,
    requires=_gap_requires, ensures=_gap_ensures,
    loops={'for#0': Loop(inv=_gap_outer), 'for#1': Loop(inv=_gap_inner)},
    ghost={'rs': _il, 'rl': _il, 'rc': _il, 'orow': _il, 'ocol': _il, 'base': lambda C: z3.IntVal(0)},
    ghost_at={'assign#0': _gap_row_start, 'assign#1': _gap_row_tables, 'yield#0': _gap_yield},
    serves=('C12', 'C04', 'C09'),
    note="candidates = exactly the (reference label, query label) pairs within maxDistance of the seed diagonal (inclusive), "
         "in (reference, query) order, each with offset = query position - (reference position - seed)",
)

SPECS = [getReferencePositionsWithinRange, getAlignedPairs]
