"""Contracts for AlignerEngine (C12, C04, C01)."""
import z3
from pyvc.kinds import *
from pyvc.dsl import FunctionSpec, Loop, forall, rng
from specs.schema import PWS, OMAP
from specs.common import zabs, Abs

F = 'src/alignment/aligner.py'
ENGINE = OBJ('AlignerEngine')
UPAIR = OBJ('AlignedPair')


def ascending(P):
    """label coordinates non-decreasing (absolute-index quantification)"""
    A = Abs(P)
    I, J = z3.Int('I'), z3.Int('J')
    return forall([I, J], z3.Implies(z3.And(A.lo <= I, I <= J, J < A.hi), A[I] <= A[J]),
                  [MP(z3.Select(P.v.arrs[0], I), z3.Select(P.v.arrs[0], J))])


def ascending_pws(L):
    """a list of PositionWithSiteId ascending by position"""
    A = Abs(L)
    I, J = z3.Int('I'), z3.Int('J')
    ti, tj = A.raw(I).t, A.raw(J).t
    return forall([I, J], z3.Implies(z3.And(A.lo <= I, I <= J, J < A.hi), A[I].position <= A[J].position), [MP(ti, tj)])


# ------------------------------------------------------------------ __getReferencePositionsWithinRange
def _gr_ensures(C, res):
    P = C.reference.positions
    sh = C.reference.shift
    d = C.self.maxDistance
    lo, hi = C.referenceStartPosition - d, C.referenceEndPosition + d
    k, j = z3.Int('k'), z3.Int('j')
    e = C._e
    if C.has('F'):
        o = C.note('last_dropwhile')['c']
    else:
        o = z3.Int(fresh_name('window_offset'))
    return [('window_is_a_run_of_reference_labels', z3.And(0 <= o, o + res.len <= P.len)),
            ('window_elements', forall(j, z3.Implies(rng(0, j, res.len), z3.And(
                res[j].siteId == sh + o + j + 1, res[j].position == P[o + j],
                lo <= res[j].position, res[j].position <= hi)), [res.raw(j).t])),
            ('every_label_in_range_is_in_the_window', forall(k, z3.Implies(
                z3.And(rng(0, k, P.len), lo <= P[k], P[k] <= hi), z3.And(o <= k, k < o + res.len)), [P[k]]))]


getReferencePositionsWithinRange = FunctionSpec(
    file=F, qualname='AlignerEngine.__getReferencePositionsWithinRange',
    params=dict(self=ENGINE, reference=OMAP, referenceStartPosition=REAL, referenceEndPosition=REAL), returns=LIST(PWS),
    requires=lambda C: [('reference_ascending', ascending(C.reference.positions))],
    ensures=_gr_ensures,
    serves=('C12',),
    note="window = exactly the reference labels with start-maxDistance <= position <= end+maxDistance (inclusive), numbered as in the whole map",
)


# ------------------------------------------------------------------ __getAlignedPairs
# Ghost: per output K its row/column (orow[K], ocol[K]); per processed reference label a the run of query labels in
# range (rl[a], rc[a]) and the output index where its row starts (rs[a]); base = output length at the start of the row.


def _in_range(R, Q, start, d, a, j):
    adj = R[a].position - start
    return z3.And(adj - d <= Q[j].position, Q[j].position <= adj + d)


def _gap_rows(L, upto, R, Q):
    """facts about fully described rows a < upto"""
    rs, rl, rc = L.rs, L.rl, L.rc
    a, j = z3.Int('a'), z3.Int('j')
    d, start = L.self.maxDistance, L.referenceStartPosition
    return [
        ('row_tables', forall(a, z3.Implies(rng(0, a, upto), z3.And(
            0 <= rl[a], rc[a] >= 0, rl[a] + rc[a] <= Q.len, rs[a] >= 0)), [rl[a]])),
        ('rows_are_consecutive', z3.And(z3.Implies(upto > 0, rs[0] == 0),
                                        forall(a, z3.Implies(z3.And(1 <= a, a < upto), rs[a] == rs[a - 1] + rc[a - 1]), [rs[a]]))),
        ('rows_monotone', forall([a, z3.Int('a2')], z3.Implies(z3.And(0 <= a, a < z3.Int('a2'), z3.Int('a2') < upto),
                                                               rs[a] + rc[a] <= rs[z3.Int('a2')]), [MP(rs[a], rs[z3.Int('a2')])])),
        ('row_is_exactly_the_labels_in_range', forall([a, j], z3.Implies(
            z3.And(rng(0, a, upto), rng(0, j, Q.len)),
            _in_range(R, Q, start, d, a, j) == z3.And(rl[a] <= j, j < rl[a] + rc[a])), [MP(rl[a], Q.raw(j).t)])),
    ]


def _gap_outputs(L, R, Q, out, upto_len):
    orow, ocol = L.orow, L.ocol
    K, K2 = z3.Int('K'), z3.Int('K2')
    start = L.referenceStartPosition
    return [
        ('output_ghost_sync', z3.And(orow.len == out.len, ocol.len == out.len)),
        ('each_output_is_an_in_range_pair', forall(K, z3.Implies(rng(0, K, upto_len), z3.And(
            0 <= orow[K], orow[K] < R.len, 0 <= ocol[K], ocol[K] < Q.len,
            out[K].reference.ref == R.raw(orow[K]).t, out[K].query.ref == Q.raw(ocol[K]).t,
            out[K].queryShift == Q[ocol[K]].position - (R[orow[K]].position - start),
            L.rl[orow[K]] <= ocol[K], ocol[K] < L.rl[orow[K]] + L.rc[orow[K]],
            K == L.rs[orow[K]] + ocol[K] - L.rl[orow[K]])), [out.raw(K).t])),
    ]


def _gap_outer(L):
    R, Q, out = L.referencePositions, L.queryPositions, L.out
    i = L.for_0
    rs, rl, rc = L.rs, L.rl, L.rc
    total = z3.If(i == 0, 0, rs[i - 1] + rc[i - 1])
    return [('row_ghost_sync', z3.And(rs.len == i, rl.len == i, rc.len == i)),
            ('output_length', out.len == total)] + _gap_rows(L, i, R, Q) + _gap_outputs(L, R, Q, out, out.len) + \
           [('outputs_belong_to_processed_rows', forall(z3.Int('K'), z3.Implies(rng(0, z3.Int('K'), out.len), L.orow[z3.Int('K')] < i),
                                                        [out.raw(z3.Int('K')).t])),
            ('rows_within_output', forall(z3.Int('a'), z3.Implies(rng(0, z3.Int('a'), i), rs[z3.Int('a')] + rc[z3.Int('a')] <= out.len),
                                          [rs[z3.Int('a')]]))]


def _gap_inner(L):
    R, Q, out = L.referencePositions, L.queryPositions, L.out
    i, t = L.for_0, L.for_1
    rs, rl, rc = L.rs, L.rl, L.rc
    K = z3.Int('K')
    return [('row_ghost_sync', z3.And(rs.len == i + 1, rl.len == i + 1, rc.len == i + 1)),
            ('row_is_the_slice_iterated', z3.And(rc[i] == L.queryPositionsWithinDistance.len,
                                                 L.queryPositionsWithinDistance.off == Q.off + rl[i])),
            ('iterating_the_row', z3.And(L.base == rs[i], out.len == rs[i] + t, t <= rc[i],
                                         z3.If(i == 0, rs[i] == 0, rs[i] == rs[i - 1] + rc[i - 1])))] + \
        _gap_rows(L, i + 1, R, Q) + _gap_outputs(L, R, Q, out, out.len) + \
        [('outputs_belong_to_processed_rows', forall(K, z3.Implies(rng(0, K, out.len), L.orow[K] <= i), [out.raw(K).t]))]


def _gap_row_start(L):
    L.set('base', L.out.len)


def _gap_row_tables(L):
    e = L._e
    lo = e.last_dropwhile['c']
    cnt = e.last_takewhile['c']
    L.set('rs', e.list_append(L.raw('rs'), VInt(L.base)))
    L.set('rl', e.list_append(L.raw('rl'), VInt(lo)))
    L.set('rc', e.list_append(L.raw('rc'), VInt(cnt)))


def _gap_yield(L):
    e = L._e
    L.set('orow', e.list_append(L.raw('orow'), VInt(L.for_0)))
    L.set('ocol', e.list_append(L.raw('ocol'), VInt(L.rl[L.for_0] + L.for_1)))


def _gap_ensures(C, res):
    R, Q = C.referencePositions, C.queryPositions
    d, start = C.self.maxDistance, C.referenceStartPosition
    K, K2, a, j = z3.Int('K'), z3.Int('K2'), z3.Int('a'), z3.Int('j')
    if C.has('F'):
        F_ = C.F
        orow, ocol = (lambda k: F_.orow[k]), (lambda k: F_.ocol[k])
        where = lambda a, j: F_.rs[a] + j - F_.rl[a]
    else:
        fo, fc = z3.Function(fresh_name('gap_row'), z3.IntSort(), z3.IntSort()), z3.Function(fresh_name('gap_col'), z3.IntSort(), z3.IntSort())
        fw = z3.Function(fresh_name('gap_where'), z3.IntSort(), z3.IntSort(), z3.IntSort())
        orow, ocol, where = (lambda k: fo(k)), (lambda k: fc(k)), (lambda a, j: fw(a, j))
        C._e.last_gap = dict(row=fo, col=fc, where=fw)
        C._st.notes['last_gap'] = C._e.last_gap
    return [
        ('every_candidate_is_an_in_range_pair', forall(K, z3.Implies(rng(0, K, res.len), z3.And(
            0 <= orow(K), orow(K) < R.len, 0 <= ocol(K), ocol(K) < Q.len,
            res[K].reference.ref == R.raw(orow(K)).t, res[K].query.ref == Q.raw(ocol(K)).t,
            res[K].queryShift == Q[ocol(K)].position - (R[orow(K)].position - start),
            _in_range(R, Q, start, d, orow(K), ocol(K)), where(orow(K), ocol(K)) == K)), [res.raw(K).t])),
        ('every_in_range_pair_is_a_candidate', forall([a, j], z3.Implies(
            z3.And(rng(0, a, R.len), rng(0, j, Q.len), _in_range(R, Q, start, d, a, j)),
            z3.And(0 <= where(a, j), where(a, j) < res.len, orow(where(a, j)) == a, ocol(where(a, j)) == j)),
            [MP(R.raw(a).t, Q.raw(j).t)])),
        ('candidates_in_reference_then_query_order', forall([K, K2], z3.Implies(
            z3.And(0 <= K, K < K2, K2 < res.len),
            z3.Or(orow(K) < orow(K2), z3.And(orow(K) == orow(K2), ocol(K) < ocol(K2)))), [MP(res.raw(K).t, res.raw(K2).t)])),
    ]


def _gap_requires(C):
    return [('query_ascending', ascending_pws(C.queryPositions)), ('maxDistance_nonnegative', C.self.maxDistance >= 0)]


_il = lambda C: C._e.fresh_list(INT, 'g', n=z3.IntVal(0))
getAlignedPairs = FunctionSpec(
    file=F, qualname='AlignerEngine.__getAlignedPairs',
    params=dict(self=ENGINE, referencePositions=LIST(PWS), queryPositions=LIST(PWS), referenceStartPosition=REAL), yields=UPAIR,
    requires=_gap_requires, ensures=_gap_ensures,
    loops={'for#0': Loop(inv=_gap_outer), 'for#1': Loop(inv=_gap_inner)},
    ghost={'rs': _il, 'rl': _il, 'rc': _il, 'orow': _il, 'ocol': _il, 'base': lambda C: z3.IntVal(0)},
    ghost_at={'assign#0': _gap_row_start, 'assign#1': _gap_row_tables, 'yield#0': _gap_yield},
    serves=('C12', 'C04', 'C09'),
    note="candidates = exactly the (reference label, query label) pairs within maxDistance of the seed diagonal (inclusive), "
         "in (reference, query) order, each with offset = query position - (reference position - seed)",
)


# ------------------------------------------------------------------ __getNotAlignedPositions
NAP = OBJ('NotAlignedReferencePosition', 'NotAlignedQueryPosition')


def _paired_ref(P, sid):
    k = z3.Int(fresh_name('pk'))
    return z3.Exists([k], z3.And(rng(0, k, P.len), P[k].reference.siteId == sid))


def _paired_qry(P, sid):
    k = z3.Int(fresh_name('pk'))
    return z3.Exists([k], z3.And(rng(0, k, P.len), P[k].query.siteId == sid))


def _gna_ensures(C, res):
    R, Q, P = C.referencePositions, C.queryPositions, C.alignedPairs
    e = C._e
    k, i, j = z3.Int('k'), z3.Int('i'), z3.Int('j')
    cl = []
    fl_ = C.note('filter_log', ())
    if C.has('F') and len(fl_) >= 2:
        f1, f2 = fl_[-2], fl_[-1]
    elif not C.has('F'):
        # at call sites: the same clauses over skolem functions
        mk = lambda nm: z3.Function(fresh_name(nm), z3.IntSort(), z3.IntSort())
        f1 = dict(idx=mk('un_ref_idx'), inv=mk('un_ref_inv'), m=z3.Int(fresh_name('un_ref_n')))
        f2 = dict(idx=mk('un_qry_idx'), inv=mk('un_qry_inv'), m=z3.Int(fresh_name('un_qry_n')))
        cl.append(('counts_nonnegative', z3.And(f1['m'] >= 0, f2['m'] >= 0)))
        e.last_unpaired = (f1, f2)
        C._st.notes['last_unpaired'] = (f1, f2)
    else:
        f1 = None
    if f1 is not None:
        m1, m2 = f1['m'], f2['m']
        cl += [('unpaired_reference_labels_first_then_unpaired_query_labels', res.len == m1 + m2),
               ('each_unpaired_reference_position_is_a_window_label_in_no_pair', forall(k, z3.Implies(rng(0, k, m1), z3.And(
                   res[k].isa('NotAlignedReferencePosition'), 0 <= f1['idx'](k), f1['idx'](k) < R.len,
                   res[k].as_('NotAlignedReferencePosition').reference.ref == R.raw(f1['idx'](k)).t,
                   z3.Not(_paired_ref(P, R[f1['idx'](k)].siteId)))), [res.raw(k).t])),
               ('each_unpaired_query_position_is_a_query_label_in_no_pair_and_carries_the_seed', forall(k, z3.Implies(rng(0, k, m2), z3.And(
                   res[m1 + k].isa('NotAlignedQueryPosition'), 0 <= f2['idx'](k), f2['idx'](k) < Q.len,
                   res[m1 + k].as_('NotAlignedQueryPosition').query.ref == Q.raw(f2['idx'](k)).t,
                   res[m1 + k].as_('NotAlignedQueryPosition').referenceStart == C.referenceStartPosition,
                   z3.Not(_paired_qry(P, Q[f2['idx'](k)].siteId)))), [f2['idx'](k)])),
               ('every_window_label_in_no_pair_is_listed', forall(i, z3.Implies(z3.And(rng(0, i, R.len), z3.Not(_paired_ref(P, R[i].siteId))),
                                                                           z3.And(0 <= f1['inv'](i), f1['inv'](i) < m1, f1['idx'](f1['inv'](i)) == i)), [R.raw(i).t])),
               ('every_query_label_in_no_pair_is_listed', forall(j, z3.Implies(z3.And(rng(0, j, Q.len), z3.Not(_paired_qry(P, Q[j].siteId))),
                                                                          z3.And(0 <= f2['inv'](j), f2['inv'](j) < m2, f2['idx'](f2['inv'](j)) == j)), [Q.raw(j).t]))]
    return cl


getNotAlignedPositions = FunctionSpec(
    file=F, qualname='AlignerEngine.__getNotAlignedPositions',
    params=dict(queryPositions=LIST(PWS), referencePositions=LIST(PWS), alignedPairs=LIST(UPAIR), referenceStartPosition=REAL), returns=LIST(NAP),
    ensures=_gna_ensures, serves=('C12', 'C04'),
    note="unpaired = complement by label number: exactly the window labels / query labels that occur in no kept pair, each once, in label order; "
         "unpaired query positions carry the seed offset")


# ------------------------------------------------------------------ AlignerEngine.align (glue over the callee contracts)
POS = OBJ('AlignedPair', 'NotAlignedReferencePosition', 'NotAlignedQueryPosition')


def _abs_position(p):
    """AlignmentPosition.absolutePosition of the three position classes"""
    return z3.If(p.isa('NotAlignedQueryPosition'), p.as_('NotAlignedQueryPosition').query.position + p.as_('NotAlignedQueryPosition').referenceStart,
                 z3.If(p.isa('AlignedPair'), p.as_('AlignedPair').reference.position, p.as_('NotAlignedReferencePosition').reference.position))


def _align_requires(C):
    return [('reference_ascending', ascending(C.reference.positions)), ('query_ascending', ascending(C.query.positions)),
            ('maxDistance_nonnegative', C.self.maxDistance >= 0)]


def _align_ensures(C, res):
    k, k2 = z3.Int('k'), z3.Int('k2')
    d, start = C.self.maxDistance, C.referenceStartPosition
    cl = [('ascending_position_order', forall([k, k2], z3.Implies(z3.And(0 <= k, k <= k2, k2 < res.len), _abs_position(res[k]) <= _abs_position(res[k2])),
                                              [MP(res.raw(k).t, res.raw(k2).t)]))]
    if C.has('F'):
        Fv = C.F
        pairs, un = Fv.deduplicatedAlignedPairs, Fv.notAlignedPositions
        cl.append(('result_is_a_permutation_of_kept_pairs_and_unpaired_positions', res.len == pairs.len + un.len))
        R, Q = Fv.referencePositions, Fv.queryPositions
        f1, f2 = C.note('last_unpaired')
        i, j = z3.Int('i'), z3.Int('j')
        cl.append(('every_window_reference_label_is_in_a_kept_pair_or_listed_unpaired_not_both', forall(i, z3.Implies(rng(0, i, R.len), z3.Or(
            _paired_ref(pairs, R[i].siteId),
            z3.And(0 <= f1['inv'](i), f1['inv'](i) < f1['m'], un[f1['inv'](i)].isa('NotAlignedReferencePosition'),
                   un[f1['inv'](i)].as_('NotAlignedReferencePosition').reference.ref == R.raw(i).t))), [R.raw(i).t])))
        cl.append(('every_query_label_is_in_a_kept_pair_or_listed_unpaired_not_both', forall(j, z3.Implies(rng(0, j, Q.len), z3.Or(
            _paired_qry(pairs, Q[j].siteId),
            z3.And(0 <= f2['inv'](j), f2['inv'](j) < f2['m'], un[f1['m'] + f2['inv'](j)].isa('NotAlignedQueryPosition'),
                   un[f1['m'] + f2['inv'](j)].as_('NotAlignedQueryPosition').query.ref == Q.raw(j).t))), [Q.raw(j).t])))
        cl.append(('kept_pairs_use_each_label_number_at_most_once', forall([k, k2], z3.Implies(z3.And(0 <= k, k < k2, k2 < pairs.len), z3.And(
            pairs[k].reference.siteId < pairs[k2].reference.siteId, pairs[k].query.siteId != pairs[k2].query.siteId)), [MP(pairs.raw(k).t, pairs.raw(k2).t)])))
        cl.append(('every_kept_pair_is_within_maxDistance_with_offset_relative_to_the_seed', forall(k, z3.Implies(rng(0, k, pairs.len), z3.And(
            pairs[k].queryShift == pairs[k].query.position - (pairs[k].reference.position - start),
            pairs[k].queryShift <= d, -d <= pairs[k].queryShift)), [pairs.raw(k).t])))
    return cl


align = FunctionSpec(
    file=F, qualname='AlignerEngine.align',
    params=dict(self=ENGINE, reference=OMAP, query=OMAP, referenceStartPosition=REAL, referenceEndPosition=REAL, isReverse=BOOL), returns=LIST(POS),
    requires=_align_requires, ensures=_align_ensures, serves=('C12', 'C01', 'C04'),
    note="glue: window -> candidates -> two de-duplication passes -> unpaired complement -> sort by position; callers are checked against the callee contracts "
         "(in particular the query label list handed to the candidate search is ascending on both strands)")

SPECS = [getReferencePositionsWithinRange, getAlignedPairs, getNotAlignedPositions, align]


# ------------------------------------------------------------------ lemmas over the contracts (C12)
from pyvc.lemma import LemmaSpec


def _strict_ids(L_):
    A = Abs(L_)
    I, J = z3.Int('I'), z3.Int('J')
    ti, tj = A.raw(I).t, A.raw(J).t
    return forall([I, J], z3.Implies(z3.And(A.lo <= I, I < J, J < A.hi), A[I].siteId < A[J].siteId), [MP(ti, tj)])


def _selector(L, name):
    ci = L.e.repo.cls('AlignedPair')
    return VFunc('def', (ci.methods[name], ci.module, ci, None))


def _setup(L):
    from specs.dedupe import deduplicateByKey
    eng = L.fresh(ENGINE, 'engine')
    R, Q = L.fresh(LIST(PWS), 'R'), L.fresh(LIST(PWS), 'Q')
    start = L.fresh(REAL, 'start')
    Rv, Qv = L.view(R), L.view(Q)
    L.assume(ascending_pws(Rv), ascending_pws(Qv), _strict_ids(Rv), _strict_ids(Qv), L.view(eng).maxDistance >= 0)
    X = L.call(getAlignedPairs, eng, R, Q, start)
    gap = L.e.last_gap
    D1 = L.call(deduplicateByKey, X, _selector(L, 'querySiteIdSelector'))
    return eng, Rv, Qv, start, L.view(X), gap, L.view(D1), D1


def _order_preserving(L):
    """pairs surviving the query-keyed pass are order preserving (the reference-keyed pass only removes pairs): the midpoint argument"""
    eng, R, Q, start, X, gap, D1, _ = _setup(L)
    k, k2 = z3.Int('k'), z3.Int('k2')
    L.check('kept_pairs_are_order_preserving', forall([k, k2], z3.Implies(
        z3.And(rng(0, k, D1.len), rng(0, k2, D1.len), D1[k].reference.position < D1[k2].reference.position),
        D1[k].query.position <= D1[k2].query.position), [MP(D1.raw(k).t, D1.raw(k2).t)]))


def _mutual_nearest(L):
    """labels that are strictly each other's nearest partner within maxDistance are paired"""
    from specs.dedupe import deduplicate
    from specs.common import zabs
    eng = L.fresh(ENGINE, 'engine')
    R, Q = L.fresh(LIST(PWS), 'R'), L.fresh(LIST(PWS), 'Q')
    start = L.fresh(REAL, 'start')
    Rv, Qv = L.view(R), L.view(Q)
    d = L.view(eng).maxDistance
    L.assume(ascending_pws(Rv), ascending_pws(Qv), _strict_ids(Rv), _strict_ids(Qv), d >= 0)
    X = L.call(getAlignedPairs, eng, R, Q, start)
    D = L.view(L.call(deduplicate, X))
    i, j, i2, j2, k = z3.Int('i'), z3.Int('j'), z3.Int('i2'), z3.Int('j2'), z3.Int('k')
    startv = L.view(start)
    off = lambda a, b: Qv[b].position - (Rv[a].position - startv)
    mutual = z3.And(rng(0, i, Rv.len), rng(0, j, Qv.len), zabs(off(i, j)) <= d,
                    forall(j2, z3.Implies(z3.And(rng(0, j2, Qv.len), j2 != j), zabs(off(i, j2)) > zabs(off(i, j))), [Qv.raw(j2).t]),
                    forall(i2, z3.Implies(z3.And(rng(0, i2, Rv.len), i2 != i), zabs(off(i2, j)) > zabs(off(i, j))), [Rv.raw(i2).t]))
    L.check('mutually_strictly_nearest_labels_are_paired', forall([i, j], z3.Implies(mutual, z3.Exists([k], z3.And(
        rng(0, k, D.len), D[k].reference.ref == Rv.raw(i).t, D[k].query.ref == Qv.raw(j).t))), [MP(Rv.raw(i).t, Qv.raw(j).t)]))


LEMMAS = [LemmaSpec('C12::mutually_strictly_nearest_labels_within_maxDistance_are_paired', _mutual_nearest, ('C12',),
                    "from the contracts of __getAlignedPairs (completeness of the candidates) and deduplicate (a candidate strictly nearer than every other candidate sharing one of its labels survives)"),
          LemmaSpec('C12::pairs_kept_by_the_query_keyed_pass_are_order_preserving', _order_preserving, ('C12', 'C01'),
                    "from the contracts of __getAlignedPairs (candidates are exactly the in-range pairs) and __deduplicateByKey (nearest candidate per query label)")]
