"""Contracts for src/correlation/vectorise.py (C16, also used by C06/C11)."""
import z3
from pyvc.kinds import *
from pyvc.dsl import FunctionSpec, Loop, forall, rng

# ghost: bin boundaries  B(start, res, k) = start + k*res  as a recurrence (keeps the VCs linear)
Bf = z3.Function('vec_B', z3.RealSort(), z3.IntSort(), z3.IntSort(), z3.RealSort())


def _axioms():
    s, r, k = z3.Real('s'), z3.Int('r'), z3.Int('k')
    return [z3.ForAll([s, r], Bf(s, r, 0) == s, patterns=[Bf(s, r, 0)]),
            z3.ForAll([s, r, k], z3.Implies(k >= 0, Bf(s, r, k + 1) == Bf(s, r, k) + r), patterns=[Bf(s, r, k + 1)])]


def _common(L, i):
    """facts shared by the outer and the inner invariant; i = number of labels fully processed"""
    P, out, W = L.positions, L.out, L.W
    n = P.len
    B = lambda k: Bf(L.start, L.resolution, k)
    k, j = z3.Int('k'), z3.Int('j')
    return [
        ('window', L.window_end == L.window_start + L.resolution),
        ('window_is_bin', L.window_start == B(out.len)),
        ('ghost_sync', W.len == out.len),
        ('processed_below', forall(j, z3.Implies(rng(0, j, i), P[j] < L.window_start), [P[j]])),
        ('bits', forall(k, z3.Implies(rng(0, k, out.len), z3.Or(out[k] == 0, out[k] == 1)), [out[k]])),
        ('set_has_label', forall(k, z3.Implies(z3.And(rng(0, k, out.len), out[k] == 1),
                                               z3.And(0 <= W[k], W[k] < n, B(k) <= P[W[k]], P[W[k]] < B(k + 1))), [out[k]])),
        ('clear_no_label', forall([k, j], z3.Implies(z3.And(rng(0, k, out.len), out[k] == 0, rng(0, j, n)),
                                                     z3.Or(P[j] < B(k), P[j] >= B(k + 1))),
                                  [MP(out[k], P[j])])),
    ]


def _outer(L):
    return _common(L, L.for_0)


def _inner(L):
    return _common(L, L.for_0) + [('current_not_below', L.position >= L.window_start)]


def _end_eff(C):
    """`end = end or positions[-1]`: None and 0 both mean "up to the last label" (real behaviour)"""
    P = C.positions
    e = C.end
    return z3.If(z3.And(z3.Not(e.none), e.val != 0), e.val, P[P.len - 1])


def _ensures(C, res):
    P = C.positions
    n = P.len
    B = lambda k: Bf(C.start, C.resolution, k)
    k, j = z3.Int('k'), z3.Int('j')
    cl = [('bits', forall(k, z3.Implies(rng(0, k, res.len), z3.Or(res[k] == 0, res[k] == 1)), [res[k]]))]
    if C.has('F'):      # proving: the ghost witness W names the label inside each set bin
        W = C.F.W
        cl.append(('set_bit_has_label_in_bin',
                   forall(k, z3.Implies(z3.And(rng(0, k, res.len), res[k] == 1),
                                        z3.And(0 <= W[k], W[k] < n, B(k) <= P[W[k]], P[W[k]] < B(k + 1))), [res[k]])))
    else:               # assuming at a call site
        cl.append(('set_bit_has_label_in_bin',
                   forall(k, z3.Implies(z3.And(rng(0, k, res.len), res[k] == 1),
                                        z3.Exists([j], z3.And(rng(0, j, n), B(k) <= P[j], P[j] < B(k + 1)))), [res[k]])))
    cl.append(('clear_bit_has_no_label_in_bin',
               forall([k, j], z3.Implies(z3.And(rng(0, k, res.len), res[k] == 0, rng(0, j, n)),
                                         z3.Or(P[j] < B(k), P[j] >= B(k + 1))), [MP(res[k], P[j])])))
    cl.append(('labels_between_start_and_end_are_covered',
               forall(j, z3.Implies(z3.And(rng(0, j, n), P[j] >= C.start, P[j] <= _end_eff(C)), P[j] < B(res.len)), [P[j]])))
    return cl


def _requires(C):
    P = C.positions
    i, j = z3.Int('i'), z3.Int('j')
    return [('nonempty', P.len >= 1),
            ('ascending', forall([i, j], z3.Implies(z3.And(0 <= i, i <= j, j < P.len), P[i] <= P[j]),
                                 [MP(P[i], P[j])]))]


def _append_W(L, val):
    e = L._e
    L.set('W', e.list_append(L.raw('W'), VInt(val)))


vectorisePositions = FunctionSpec(
    file='src/correlation/vectorise.py', qualname='vectorisePositions',
    params=dict(positions=LIST(REAL), resolution=INT, start=REAL, end=OPT(REAL)),
    yields=INT,
    requires=_requires,
    ensures=_ensures,
    raises={'ValueError': lambda C: C.resolution < 1},
    loops={'for#0': Loop(inv=_outer), 'while#0': Loop(inv=_inner)},
    ghost={'W': lambda C: C._e.fresh_list(INT, 'W', n=z3.IntVal(0))},
    ghost_at={'yield#0': lambda L: _append_W(L, z3.IntVal(-1)),
              'yield#1': lambda L: _append_W(L, L.for_0)},
    axioms=_axioms,
    serves=('C16', 'C06', 'C11'),
    note="bit k = 1 iff some label in [start+k*res, start+(k+1)*res); labels in [start, end] are covered",
)


# ------------------------------------------------------------------ blur (verified: rows of shifted copies, zip_longest / any / numpy.array assumed as library contracts)
def _blur_rows(SV, v, upto_j, proving):
    """row 0 is the vector; row 2s-1 is the vector without its first s bits; row 2s is the vector behind s zero bits (s = 1 .. )"""
    A, O, Ln = SV.v.arrs            # arrays of the rows' element arrays, offsets and lengths (absolute index of the list of rows)
    base = SV.off
    n = v.len
    j, T = z3.Int('bj'), z3.Int('bT')
    s = (j + 1) / 2                 # integer division
    jj = base + j
    rowA, rowO, rowL = z3.Select(A, jj), z3.Select(O, jj), z3.Select(Ln, jj)
    rel = T - rowO
    vat = lambda x: z3.Select(v.v.arrs[0], v.off + x)
    odd = j % 2 == 1
    lens = z3.Implies(z3.And(1 <= j, j < upto_j), z3.And(rowO >= 0, rowL == z3.If(odd, z3.If(n - s > 0, n - s, 0), s + n)))
    cont = z3.Implies(z3.And(1 <= j, j < upto_j, rowO <= T, T < rowO + rowL),
                      z3.Select(rowA, T) == z3.If(odd, vat(rel + s), z3.If(rel < s, 0, vat(rel - s))))
    q1 = z3.ForAll([j], lens) if proving else z3.ForAll([j], lens, patterns=[z3.Select(Ln, base + j)])
    q2 = z3.ForAll([j, T], cont) if proving else z3.ForAll([j, T], cont, patterns=[z3.Select(z3.Select(A, base + j), T)])
    r0 = SV[0]
    return [('row_0_is_the_vector', z3.And(r0.v.arrs[0] == v.v.arrs[0], r0.off == v.off, r0.len == n)),
            ('row_lengths', q1), ('row_contents', q2)]

def _blur_inv(L):
    SV, v, i = L.shiftedVectors, L.vector, L.for_0
    return [('one_row_per_shift_and_direction', z3.And(SV.len == 1 + 2 * i, SV.off == 0))] + _blur_rows(SV, v, SV.len, L.proving)

def _blur_ensures(C, res):
    v, r = C.vector, C.radius
    n = v.len
    i, j = z3.Int('i'), z3.Int('j')
    cl = [('same_length', res.len == n)]
    if C.proving:
        zl = C.note('last_zip_longest')
        A_arr, M = zl['cells'], zl['M']
        cell = lambda k, jx: z3.Select(z3.Select(A_arr, k), jx)
        k, jj = z3.Int('zk'), z3.Int('zjj')
        pat = [MP(v[jj], z3.Select(A_arr, k))]
        cl += [('lemma_table_is_as_long_as_the_longest_row', z3.And(M >= n, M <= n + r)),
               ('lemma_column_0_is_the_vector', z3.ForAll([k], z3.Implies(z3.And(0 <= k, k < n), cell(k, 0) == v[k]), patterns=[z3.Select(A_arr, k)])),
               ('lemma_a_bit_to_the_right_shows_in_the_row_shifted_left', z3.ForAll([k, jj], z3.Implies(
                   z3.And(0 <= k, k < n, k < jj, jj <= k + r, jj < n), cell(k, 2 * (jj - k) - 1) == v[jj]), patterns=pat)),
               ('lemma_a_bit_to_the_left_shows_in_the_row_shifted_right', z3.ForAll([k, jj], z3.Implies(
                   z3.And(0 <= k, k < n, 0 <= jj, jj < k, k - jj <= r), cell(k, 2 * (k - jj)) == v[jj]), patterns=pat)),
               ('lemma_every_set_cell_comes_from_a_bit_within_the_radius', z3.ForAll([k, j], z3.Implies(
                   z3.And(0 <= k, k < n, 0 <= j, j < 2 * r + 1, cell(k, j) != 0),
                   z3.Exists([jj], z3.And(0 <= jj, jj < n, k - r <= jj, jj <= k + r, v[jj] != 0))), patterns=[cell(k, j)]))]
    if C.proving:
        near = lambda i: z3.Exists([j], z3.And(rng(0, j, n), i - r <= j, j <= i + r, v[j] != 0))
        cl += [('lemma_result_bit_is_1_exactly_when_some_cell_of_its_column_is_set', z3.ForAll([i], z3.Implies(rng(0, i, n), z3.And(
                    z3.Or(res[i] == 0, res[i] == 1), (res[i] == 1) == z3.Exists([j], z3.And(0 <= j, j < 2 * r + 1, cell(i, j) != 0)))), patterns=[res[i]])),
               ('lemma_a_set_result_bit_has_an_original_bit_within_the_radius', z3.ForAll([i], z3.Implies(z3.And(rng(0, i, n), res[i] == 1), near(i)), patterns=[res[i]])),
               ('lemma_an_original_bit_within_the_radius_sets_the_result_bit', z3.ForAll([i, j], z3.Implies(
                   z3.And(rng(0, i, n), rng(0, j, n), i - r <= j, j <= i + r, v[j] != 0), res[i] == 1), patterns=[MP(res[i], v[j])]))]
    cl += [('bit_set_iff_original_bit_within_radius', forall(i, z3.Implies(rng(0, i, n), z3.And(
                z3.Or(res[i] == 0, res[i] == 1),
                (res[i] == 1) == z3.Exists([j], z3.And(rng(0, j, n), i - r <= j, j <= i + r, v[j] != 0)))), [res[i]]))]
    return cl



blur = FunctionSpec(
    file='src/correlation/vectorise.py', qualname='blur', params=dict(vector=LIST(INT), radius=INT), returns=LIST(INT),
    requires=lambda C: [], ensures=_blur_ensures,
    raises={'ValueError': lambda C: C.radius < 0}, loops={'for#0': Loop(inv=_blur_inv, kinds={'shiftedVectors': LIST(LIST(INT))})}, serves=('C16',),
    note="a result bit is 1 exactly when an original bit (non-zero entry) lies within the radius, the length is kept, ValueError exactly for a negative radius: "
         "invariant over the list of shifted copies (row 2s-1 = the vector without its first s entries, row 2s = the vector behind s zeros), then the table "
         "of zip_longest column by column (library contracts assumed for zip_longest, any, numpy.array); also checked exhaustively on all bit vectors up to "
         "length 8/11 by bcheck.c16")


# ------------------------------------------------------------------ SequenceGenerator.positionsToSequence (composition)
def _pts_ensures(C, res):
    P = C.positions
    n = P.len
    res_, r = C.self.resolution, C.self.blurRadius
    B = lambda k: Bf(C.start, res_, k)
    i, j, t = z3.Int('i'), z3.Int('j'), z3.Int('t')
    has_label = lambda k: z3.Exists([t], z3.And(rng(0, t, n), B(k) <= P[t], P[t] < B(k + 1)))
    return [('bits', forall(i, z3.Implies(rng(0, i, res.len), z3.Or(res[i] == 0, res[i] == 1)), [res[i]])),
            ('bit_set_iff_a_label_lies_in_a_bin_within_the_blur_radius_relative_to_start',
             forall(i, z3.Implies(rng(0, i, res.len),
                                  (res[i] == 1) == z3.Exists([j], z3.And(rng(0, j, res.len), i - r <= j, j <= i + r, has_label(j)))), [res[i]])),
            ('labels_between_start_and_end_are_covered',
             forall(t, z3.Implies(z3.And(rng(0, t, n), P[t] >= C.start, P[t] <= _end_eff(C)), P[t] < B(res.len)), [P[t]]))]


positionsToSequence = FunctionSpec(
    file='src/correlation/sequence_generator.py', qualname='SequenceGenerator.positionsToSequence',
    params=dict(self=OBJ('SequenceGenerator'), positions=LIST(REAL), start=REAL, end=OPT(REAL)), returns=LIST(INT),
    requires=lambda C: _requires(C) + [('resolution_positive', C.self.resolution >= 1), ('radius_nonnegative', C.self.blurRadius >= 0)],
    ensures=_pts_ensures, serves=('C16', 'C06'),
    note="composition of vectorisePositions and blur: bins are counted from `start` (the same origin the bin-to-bp conversion uses)")

SPECS = [vectorisePositions, blur, positionsToSequence]
