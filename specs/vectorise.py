"""Contracts for src/correlation/vectorise.py (C16, also used by C06/C11)."""
import z3
from pyvc.kinds import *
from pyvc.dsl import FunctionSpec, Loop, forall, rng

# ghost: bin boundaries  B(start, res, k) = start + k*res  as a recurrence (keeps the VCs linear)
Bf = z3.Function('vec_B', z3.RealSort(), z3.IntSort(), z3.IntSort(), z3.RealSort())


def _axioms():
    s, r, k = z3.Real('s'), z3.Int('r'), z3.Int('k')
    return [z3.ForAll([s, r], Bf(s, r, 0) == s, patterns=[Bf(s, r, 0)]),
            z3.ForAll([s, r, k], z3.Implies(k >= 0, Bf(s, r, k + 1) == Bf(s, r, k) + r), patterns=[Bf(s, r, k + 1)])]


def _common(L, i):
    """facts shared by the outer and the inner invariant; i = number of labels fully processed"""
    P, out, W = L.positions, L.out, L.W
    n = P.len
    B = lambda k: Bf(L.start, L.resolution, k)
    k, j = z3.Int('k'), z3.Int('j')
    return [
        ('window', L.window_end == L.window_start + L.resolution),
        ('window_is_bin', L.window_start == B(out.len)),
        ('ghost_sync', W.len == out.len),
        ('processed_below', forall(j, z3.Implies(rng(0, j, i), P[j] < L.window_start), [P[j]])),
        ('bits', forall(k, z3.Implies(rng(0, k, out.len), z3.Or(out[k] == 0, out[k] == 1)), [out[k]])),
        ('set_has_label', forall(k, z3.Implies(z3.And(rng(0, k, out.len), out[k] == 1),
                                               z3.And(0 <= W[k], W[k] < n, B(k) <= P[W[k]], P[W[k]] < B(k + 1))), [out[k]])),
        ('clear_no_label', forall([k, j], z3.Implies(z3.And(rng(0, k, out.len), out[k] == 0, rng(0, j, n)),
                                                     z3.Or(P[j] < B(k), P[j] >= B(k + 1))),
                                  [MP(out[k], P[j])])),
    ]


def _outer(L):
    return _common(L, L.for_0)


def _inner(L):
    return _common(L, L.for_0) + [('current_not_below', L.position >= L.window_start)]


def _end_eff(C):
    """`end = end or positions[-1]`: None and 0 both mean "up to the last label" (real behaviour)"""
    P = C.positions
    e = C.end
    return z3.If(z3.And(z3.Not(e.none), e.val != 0), e.val, P[P.len - 1])


def _ensures(C, res):
    P = C.positions
    n = P.len
    B = lambda k: Bf(C.start, C.resolution, k)
    k, j = z3.Int('k'), z3.Int('j')
    cl = [('bits', forall(k, z3.Implies(rng(0, k, res.len), z3.Or(res[k] == 0, res[k] == 1)), [res[k]]))]
    if C.has('F'):      # proving: the ghost witness W names the label inside each set bin
        W = C.F.W
        cl.append(('set_bit_has_label_in_bin',
                   forall(k, z3.Implies(z3.And(rng(0, k, res.len), res[k] == 1),
                                        z3.And(0 <= W[k], W[k] < n, B(k) <= P[W[k]], P[W[k]] < B(k + 1))), [res[k]])))
    else:               # assuming at a call site
        cl.append(('set_bit_has_label_in_bin',
                   forall(k, z3.Implies(z3.And(rng(0, k, res.len), res[k] == 1),
                                        z3.Exists([j], z3.And(rng(0, j, n), B(k) <= P[j], P[j] < B(k + 1)))), [res[k]])))
    cl.append(('clear_bit_has_no_label_in_bin',
               forall([k, j], z3.Implies(z3.And(rng(0, k, res.len), res[k] == 0, rng(0, j, n)),
                                         z3.Or(P[j] < B(k), P[j] >= B(k + 1))), [MP(res[k], P[j])])))
    cl.append(('labels_between_start_and_end_are_covered',
               forall(j, z3.Implies(z3.And(rng(0, j, n), P[j] >= C.start, P[j] <= _end_eff(C)), P[j] < B(res.len)), [P[j]])))
    return cl


def _requires(C):
    P = C.positions
    i, j = z3.Int('i'), z3.Int('j')
    return [('nonempty', P.len >= 1),
            ('ascending', forall([i, j], z3.Implies(z3.And(0 <= i, i <= j, j < P.len), P[i] <= P[j]),
                                 [MP(P[i], P[j])]))]


def _append_W(L, val):
    e = L._e
    L.set('W', e.list_append(L.raw('W'), VInt(val)))


vectorisePositions = FunctionSpec(
    file='src/correlation/vectorise.py', qualname='vectorisePositions',
    params=dict(positions=LIST(REAL), resolution=INT, start=REAL, end=OPT(REAL)),
    yields=INT,
    requires=_requires,
    ensures=_ensures,
    raises={'ValueError': lambda C: C.resolution < 1},
    loops={'for#0': Loop(inv=_outer), 'while#0': Loop(inv=_inner)},
    ghost={'W': lambda C: C._e.fresh_list(INT, 'W', n=z3.IntVal(0))},
    ghost_at={'yield#0': lambda L: _append_W(L, z3.IntVal(-1)),
              'yield#1': lambda L: _append_W(L, L.for_0)},
    axioms=_axioms,
    serves=('C16', 'C06', 'C11'),
    note="bit k = 1 iff some label in [start+k*res, start+(k+1)*res); labels in [start, end] are covered",
)


# ------------------------------------------------------------------ blur (assumed: zip_longest / any / numpy; bounded-checked by bcheck.c16)
def _blur_ensures(C, res):
    v, r = C.vector, C.radius
    i, j = z3.Int('i'), z3.Int('j')
    return [('same_length', res.len == v.len),
            ('bit_set_iff_original_bit_within_radius', forall(i, z3.Implies(rng(0, i, v.len), z3.And(
                z3.Or(res[i] == 0, res[i] == 1),
                (res[i] == 1) == z3.Exists([j], z3.And(rng(0, j, v.len), i - r <= j, j <= i + r, v[j] != 0)))), [res[i]]))]


blur = FunctionSpec(
    file='src/correlation/vectorise.py', qualname='blur', params=dict(vector=LIST(INT), radius=INT), returns=LIST(INT),
    requires=lambda C: [('radius_nonnegative', C.radius >= 0)], ensures=_blur_ensures, trusted=True,
    raises={'ValueError': lambda C: C.radius < 0}, serves=('C16',),
    note="ASSUMED contract (zip_longest, any, numpy array are outside the verifier); checked exhaustively on all bit vectors up to length 8/11 by bcheck.c16")


# ------------------------------------------------------------------ SequenceGenerator.positionsToSequence (composition)
def _pts_ensures(C, res):
    P = C.positions
    n = P.len
    res_, r = C.self.resolution, C.self.blurRadius
    B = lambda k: Bf(C.start, res_, k)
    i, j, t = z3.Int('i'), z3.Int('j'), z3.Int('t')
    has_label = lambda k: z3.Exists([t], z3.And(rng(0, t, n), B(k) <= P[t], P[t] < B(k + 1)))
    return [('bits', forall(i, z3.Implies(rng(0, i, res.len), z3.Or(res[i] == 0, res[i] == 1)), [res[i]])),
            ('bit_set_iff_a_label_lies_in_a_bin_within_the_blur_radius_relative_to_start',
             forall(i, z3.Implies(rng(0, i, res.len),
                                  (res[i] == 1) == z3.Exists([j], z3.And(rng(0, j, res.len), i - r <= j, j <= i + r, has_label(j)))), [res[i]])),
            ('labels_between_start_and_end_are_covered',
             forall(t, z3.Implies(z3.And(rng(0, t, n), P[t] >= C.start, P[t] <= _end_eff(C)), P[t] < B(res.len)), [P[t]]))]


positionsToSequence = FunctionSpec(
    file='src/correlation/sequence_generator.py', qualname='SequenceGenerator.positionsToSequence',
    params=dict(self=OBJ('SequenceGenerator'), positions=LIST(REAL), start=REAL, end=OPT(REAL)), returns=LIST(INT),
    requires=lambda C: _requires(C) + [('resolution_positive', C.self.resolution >= 1), ('radius_nonnegative', C.self.blurRadius >= 0)],
    ensures=_pts_ensures, serves=('C16', 'C06'),
    note="composition of vectorisePositions and blur: bins are counted from `start` (the same origin the bin-to-bp conversion uses)")

SPECS = [vectorisePositions, blur, positionsToSequence]
