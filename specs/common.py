"""Shared vocabulary for contracts."""
import z3
from pyvc.kinds import *
from pyvc.engine import cls_of


def same_list(a, b):
    """two list views denote the same Python list contents by construction (same arrays, offset, length)"""
    return z3.And(*[x == y for x, y in zip(a.v.arrs, b.v.arrs)], a.v.off == b.v.off, a.v.n == b.v.n)


def is_cls(e, obj_view, cname):
    return cls_of(obj_view.ref) == e.cls_id(cname)


def zmax(a, b):
    return z3.If(a >= b, a, b)


def zabs(x):
    return z3.If(x >= 0, x, -x)


class Abs:
    """access to a list view by ABSOLUTE index of its base arrays: quantifying over absolute indices keeps
    e-matching patterns free of arithmetic (arr[T] instead of arr[off + k])"""
    def __init__(self, P):
        self.P = P
        self.lo = P.off
        self.hi = P.off + P.len

    def __getitem__(self, T):
        return self.P[T - self.P.off]

    def raw(self, T):
        return self.P.raw(T - self.P.off)

    def inside(self, T):
        return z3.And(self.lo <= T, T < self.hi)
