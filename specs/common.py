"""Shared vocabulary for contracts."""
import z3
from pyvc.kinds import *
from pyvc.engine import cls_of


def same_list(a, b):
    """two list views denote the same Python list contents by construction (same arrays, offset, length)"""
    return z3.And(*[x == y for x, y in zip(a.v.arrs, b.v.arrs)], a.v.off == b.v.off, a.v.n == b.v.n)


def is_cls(e, obj_view, cname):
    return cls_of(obj_view.ref) == e.cls_id(cname)


def zmax(a, b):
    return z3.If(a >= b, a, b)


def zabs(x):
    return z3.If(x >= 0, x, -x)


class Abs:
    """access to a list view by ABSOLUTE index of its base arrays: quantifying over absolute indices keeps
    e-matching patterns free of arithmetic (arr[T] instead of arr[off + k])"""
    def __init__(self, P):
        self.P = P
        self.lo = P.off
        self.hi = P.off + P.len

    def __getitem__(self, T):
        return self.P[T - self.P.off]

    def raw(self, T):
        return self.P.raw(T - self.P.off)

    def inside(self, T):
        return z3.And(self.lo <= T, T < self.hi)


# ------------------------------------------------------------------ sub-sequences of position lists (C15)
# "A is a sub-sequence of B" is an existential statement (there is a strictly increasing index function).  Where the clause is PROVED
# the contract text supplies the witness (e.g. the index map of the list comprehension that built A); where it is ASSUMED (callee
# postcondition at a call site, loop invariant at the loop head) it is used in Skolem form with the global function SUBF keyed by the
# two owners (object references): sound, because the statement depends on nothing but the two position lists of these immutable objects.
SUBF = z3.Function('subseq_index', Ref, Ref, z3.IntSort(), z3.IntSort())
SUBG = z3.Function('subseq_kept_at', Ref, Ref, z3.IntSort(), z3.IntSort())


def subseq(A, B, f, proving=False):
    """list view A (objects) is a sub-sequence of list view B via the index function f (python callable: 0-based index of A -> 0-based
    index of B): same objects, same relative order"""
    T, j, j2 = z3.Int('sqT'), z3.Int('sqj'), z3.Int('sqj2')
    a = Abs(A)
    fj = f(T - A.off)
    ebody = z3.Implies(a.inside(T), z3.And(0 <= fj, fj < B.len, z3.Select(A.v.arrs[0], T) == z3.Select(B.v.arrs[0], B.off + fj)))
    # (a goal needs no patterns - it is negated and skolemised - and its terms may contain if-then-else, which patterns must not)
    elem = z3.ForAll([T], ebody) if proving else z3.ForAll([T], ebody, patterns=[z3.Select(A.v.arrs[0], T)])
    body = z3.Implies(z3.And(0 <= j, j < j2, j2 < A.len), f(j) < f(j2))
    mono = z3.ForAll([j, j2], body) if proving else z3.ForAll([j, j2], body, patterns=[MP(f(j), f(j2))])
    rng_ = z3.ForAll([j], z3.Implies(z3.And(0 <= j, j < A.len), z3.And(0 <= f(j), f(j) < B.len))) if proving else \
        z3.ForAll([j], z3.Implies(z3.And(0 <= j, j < A.len), z3.And(0 <= f(j), f(j) < B.len)), patterns=[f(j)])
    return z3.And(elem, mono, rng_)


def skolem_index(a_ref, b_ref):
    return lambda j: SUBF(a_ref, b_ref, j)


def derived(e, new, old, f=None, proving=False, kept=None):
    """segment view `new` is `old` itself, or was rebuilt from a sub-sequence of old's positions: never adds, moves or re-scores positions
    (plain segment with score = sum of what is left and the same peak; the empty segment if nothing is left)"""
    f = f or skolem_index(new.ref, old.ref)
    R = new.positions
    total = e.score_sum((kept if kept is not None else R).v)
    rebuilt = z3.And(z3.Implies(R.len > 0, z3.And(is_cls(e, new, 'AlignmentSegment'), subseq(R, old.positions, f, proving),
                                                  new.segmentScore == total, new.peak.ref == old.peak.ref)),
                     z3.Implies(R.len == 0, z3.And(is_cls(e, new, 'EmptyAlignmentSegment'), new.segmentScore == 0)))
    return z3.Or(new.ref == old.ref, rebuilt)
