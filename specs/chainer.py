"""Contracts for src/alignment/segment_chainer.py (C14)."""
import z3
from pyvc.kinds import *
from pyvc.dsl import FunctionSpec, Loop, forall, rng
from specs.common import zabs

F = 'src/alignment/segment_chainer.py'
NSEG = OBJ('AlignmentSegment')          # non-empty segments only (chain() filters the empty ones out)


def geometry(prev, cur):
    """the quantities of the statement, from the segments' first/last aligned pair"""
    ps, pe = prev.alignedPositions[0], prev.alignedPositions[prev.alignedPositions.len - 1]
    cs, ce = cur.alignedPositions[0], cur.alignedPositions[cur.alignedPositions.len - 1]
    qlen_c = zabs(ce.query.position - cs.query.position)
    qlen_p = zabs(pe.query.position - ps.query.position)
    qlen = z3.If(qlen_c <= qlen_p, qlen_c, qlen_p)
    rlen_c = ce.reference.position - cs.reference.position
    rlen_p = pe.reference.position - ps.reference.position
    rlen = z3.If(rlen_c <= rlen_p, rlen_c, rlen_p)
    rdist = cs.reference.position - pe.reference.position
    # Query coordinates of aligned pairs ascend along the reference on BOTH strands (on '-' they are mirrored by
    # OpticalMap.getPositionsWithSiteIds, see its contract), so the gap / overlap on the query is the same expression
    # for both strands.  This is the property's geometric notion of overlap, not a transcription of the code.
    qdist = cs.query.position - pe.query.position
    return rlen, qlen, rdist, qdist


def _gs_ensures(C, res):
    rlen, qlen, rdist, qdist = geometry(C.previousSegment, C.currentSegment)
    mult = C.self.segmentJoinMultiplier
    return [('minus_infinity_exactly_when_overlap_exceeds_half_of_the_shorter',
             res.ninf == z3.Or(-rdist > rlen / 2, -qdist > qlen / 2)),
            ('join_score_never_positive', z3.Implies(z3.And(z3.Not(res.ninf), mult >= 0), res.v <= 0)),
            ('contiguous_join_scores_zero', z3.Implies(z3.And(z3.Not(res.ninf), rdist == 0, qdist == 0), res.v == 0))]


def _gs_requires(C):
    return [('segments_have_pairs', z3.And(C.previousSegment.alignedPositions.len >= 1, C.currentSegment.alignedPositions.len >= 1))]


getScore = FunctionSpec(
    file=F, qualname='SequentialityScorer.getScore',
    params=dict(self=OBJ('SequentialityScorer'), previousSegment=NSEG, currentSegment=NSEG), returns=EXT,
    requires=_gs_requires, ensures=_gs_ensures,
    serves=('C14',),
    note="-inf exactly when the overlap on one map exceeds half of the shorter segment; otherwise <= 0 (multiplier >= 0) and 0 for a contiguous join",
)

SPECS = [getScore]
