"""Contracts for src/alignment/segment_chainer.py (C14)."""
import z3
from pyvc.kinds import *
from pyvc.dsl import FunctionSpec, Loop, forall, rng
from specs.common import zabs, same_list
from specs.schema import SEG

F = 'src/alignment/segment_chainer.py'
NSEG = OBJ('AlignmentSegment')          # non-empty segments only (chain() filters the empty ones out)


def geometry(prev, cur):
    """the quantities of the statement, from the segments' first/last aligned pair"""
    ps, pe = prev.alignedPositions[0], prev.alignedPositions[prev.alignedPositions.len - 1]
    cs, ce = cur.alignedPositions[0], cur.alignedPositions[cur.alignedPositions.len - 1]
    qlen_c = zabs(ce.query.position - cs.query.position)
    qlen_p = zabs(pe.query.position - ps.query.position)
    qlen = z3.If(qlen_c <= qlen_p, qlen_c, qlen_p)
    rlen_c = ce.reference.position - cs.reference.position
    rlen_p = pe.reference.position - ps.reference.position
    rlen = z3.If(rlen_c <= rlen_p, rlen_c, rlen_p)
    rdist = cs.reference.position - pe.reference.position
    # Query coordinates of aligned pairs ascend along the reference on BOTH strands (on '-' they are mirrored by
    # OpticalMap.getPositionsWithSiteIds, see its contract), so the gap / overlap on the query is the same expression
    # for both strands.  This is the property's geometric notion of overlap, not a transcription of the code.
    qdist = cs.query.position - pe.query.position
    return rlen, qlen, rdist, qdist


JN = z3.Function('join_is_minus_inf', Ref, Ref, Ref, z3.BoolSort())      # (scorer, previous, current)
JV = z3.Function('join_value', Ref, Ref, Ref, z3.RealSort())


def _gs_ensures(C, res):
    rlen, qlen, rdist, qdist = geometry(C.previousSegment, C.currentSegment)
    mult = C.self.segmentJoinMultiplier
    det = []
    if not C.has('F'):
        # at call sites: getScore is a pure function of immutable objects, so its result is a function of the
        # identities of its arguments (a definitional extension; listed as an assumption)
        C._e.assumptions.add('SequentialityScorer.getScore is deterministic: its result is a function of (scorer, previous, current)')
        a = (C.self.ref, C.previousSegment.ref, C.currentSegment.ref)
        det = [('deterministic', z3.And(res.ninf == JN(*a), z3.Implies(z3.Not(res.ninf), res.v == JV(*a))))]
    return det + [('minus_infinity_exactly_when_overlap_exceeds_half_of_the_shorter',
             res.ninf == z3.Or(-rdist > rlen / 2, -qdist > qlen / 2)),
            ('join_score_never_positive', z3.Implies(z3.And(z3.Not(res.ninf), mult >= 0), res.v <= 0)),
            ('contiguous_join_scores_zero', z3.Implies(z3.And(z3.Not(res.ninf), rdist == 0, qdist == 0), res.v == 0))]


def _gs_requires(C):
    return [('segments_have_pairs', z3.And(C.previousSegment.alignedPositions.len >= 1, C.currentSegment.alignedPositions.len >= 1))]


getScore = FunctionSpec(
    file=F, qualname='SequentialityScorer.getScore',
    params=dict(self=OBJ('SequentialityScorer'), previousSegment=NSEG, currentSegment=NSEG), returns=EXT,
    requires=_gs_requires, ensures=_gs_ensures,
    serves=('C14',),
    note="-inf exactly when the overlap on one map exceeds half of the shorter segment; otherwise <= 0 (multiplier >= 0) and 0 for a contiguous join",
)


# ------------------------------------------------------------------ SegmentChainer.chain
def _ch_requires(C):
    S = C.segments
    k = z3.Int('k')
    return [('empty_segment_class_has_no_positions', forall(k, z3.Implies(z3.And(rng(0, k, S.len), S[k].isa('EmptyAlignmentSegment')),
                                                                       S[k].positions.len == 0), [S.raw(k).t])),
            ('nonempty_segments_have_a_pair', forall(k, z3.Implies(z3.And(rng(0, k, S.len), S[k].positions.len > 0),
                                                                   S[k].alignedPositions.len >= 1), [S.raw(k).t]))]


def _dp_facts(L, I, upto_only=True):
    """Bellman facts for the pre-ordered segments with index < I"""
    pre, cum, prv = L.preOrderedNonEmptySegments, L.cumulatedScore, L.previousSegmentIndexes
    sc = L.self.sequentialityScorer.ref
    k, l = z3.Int('k'), z3.Int('l')
    score = lambda k: pre[k].segmentScore
    jn = lambda l, k: JN(sc, pre.raw(l).t, pre.raw(k).t)
    jv = lambda l, k: JV(sc, pre.raw(l).t, pre.raw(k).t)
    ck = cum.raw(k)
    return [
        ('tables_have_one_entry_per_segment', z3.And(cum.len == pre.len, prv.len == pre.len)),
        ('segments_are_nonempty', forall(k, z3.Implies(rng(0, k, pre.len), z3.And(pre[k].isa('AlignmentSegment'), pre[k].positions.len > 0,
                                                                                  pre[k].alignedPositions.len >= 1)), [pre.raw(k).t])),
        ('cumulated_scores_finite_and_at_least_own_score', forall(k, z3.Implies(rng(0, k, I), z3.And(
            z3.Not(cum[k].ninf), cum[k].v >= score(k))), [cum.raw(k).v])),
        ('predecessor_links', forall(k, z3.Implies(rng(0, k, I), z3.And(
            z3.Implies(prv[k].none, cum[k].v == score(k)),
            z3.Implies(z3.Not(prv[k].none), z3.And(0 <= prv[k].val, prv[k].val < k, z3.Not(jn(prv[k].val, k)),
                                                   cum[k].v == cum[prv[k].val].v + jv(prv[k].val, k) + score(k))))),
                                   [prv.raw(k).none])),      # not triggered by cum[...]: cum[prv[k]] would re-trigger it (matching loop)
        ('bellman', forall([l, k], z3.Implies(z3.And(0 <= l, l < k, k < I, z3.Not(jn(l, k))),
                                              cum[k].v >= cum[l].v + jv(l, k) + score(k)), [MP(cum.raw(l).v, cum.raw(k).v)])),
    ]


def _ch_outer(L):
    I = L.for_0
    cum = L.cumulatedScore
    best = L.bestPreviousSegmentIndex
    k = z3.Int('k')
    prv = L.previousSegmentIndexes
    return _dp_facts(L, I) + [
        ('untouched_entries_have_no_predecessor', forall(k, z3.Implies(z3.And(I <= k, k < prv.len), prv[k].none), [prv.raw(k).none])),
        ('best_index', z3.And(0 <= best, z3.Implies(I == 0, best == 0), z3.Implies(I > 0, best < I))),
        ('best_is_maximal_so_far', forall(k, z3.Implies(rng(0, k, I), cum[best].v >= cum[k].v), [cum.raw(k).v]))]


def _ch_inner(L):
    I, J = L.for_0, L.for_1
    pre, cum, prv = L.preOrderedNonEmptySegments, L.cumulatedScore, L.previousSegmentIndexes
    sc = L.self.sequentialityScorer.ref
    best = L.bestPreviousSegmentIndex
    k, l = z3.Int('k'), z3.Int('l')
    jn = lambda l, k: JN(sc, pre.raw(l).t, pre.raw(k).t)
    jv = lambda l, k: JV(sc, pre.raw(l).t, pre.raw(k).t)
    p = prv[I]
    return _dp_facts(L, I) + [
        ('loop_targets', z3.And(L.i == I, L.currentSegment.ref == pre.raw(I).t, I < pre.len)),
        ('untouched_entries_have_no_predecessor', forall(k, z3.Implies(z3.And(I < k, k < prv.len), prv[k].none), [prv.raw(k).none])),
        ('best_index', z3.And(0 <= best, z3.Implies(I == 0, best == 0), z3.Implies(I > 0, best < I))),
        ('best_is_maximal_so_far', forall(k, z3.Implies(rng(0, k, I), cum[best].v >= cum[k].v), [cum.raw(k).v])),
        ('running_entry', z3.And(z3.Not(cum[I].ninf), cum[I].v >= 0,
                                 z3.Implies(p.none, cum[I].v == 0),
                                 z3.Implies(z3.Not(p.none), z3.And(0 <= p.val, p.val < J, z3.Not(jn(p.val, I)),
                                                                   cum[I].v == cum[p.val].v + jv(p.val, I))))),
        ('running_entry_dominates_scanned', forall(l, z3.Implies(z3.And(rng(0, l, J), z3.Not(jn(l, I))),
                                                                 cum[I].v >= cum[l].v + jv(l, I)), [cum.raw(l).v]))]


def _ch_back(L):
    pre, cum, prv = L.preOrderedNonEmptySegments, L.cumulatedScore, L.previousSegmentIndexes
    sc = L.self.sequentialityScorer.ref
    res, ridx = L.result, L.ridx
    best = L.bestPreviousSegmentIndex
    n = pre.len
    t, t2, k = z3.Int('t'), z3.Int('t2'), z3.Int('k')
    jn = lambda l, k: JN(sc, pre.raw(l).t, pre.raw(k).t)
    m = res.len
    return _dp_facts(L, n) + [
        ('final_best', forall(k, z3.Implies(rng(0, k, n), cum[L.b0].v >= cum[k].v), [cum.raw(k).v])),
        ('head', z3.And(0 <= best, best < n, m >= 1, ridx.len == m, ridx[0] == best, ridx[m - 1] == L.b0, 0 <= L.b0, L.b0 < n)),
        ('members', forall(t, z3.Implies(rng(0, t, m), z3.And(0 <= ridx[t], ridx[t] < n, res.raw(t).t == pre.raw(ridx[t]).t)), [ridx[t]])),
        ('strictly_increasing', forall([t, t2], z3.Implies(z3.And(0 <= t, t < t2, t2 < m), ridx[t] < ridx[t2]), [MP(ridx[t], ridx[t2])])),
        # indexed by the later member u (pattern ridx[u] carries no arithmetic)
        ('linked', forall(t, z3.Implies(z3.And(1 <= t, t < m), z3.And(z3.Not(prv[ridx[t]].none), prv[ridx[t]].val == ridx[t - 1],
                                                                      z3.Not(jn(ridx[t - 1], ridx[t])))), [ridx[t]])),
        ('telescoped_total', cum[L.b0].v == cum[best].v - pre[best].segmentScore + L.tot)]


def _ch_init_back(L):
    e = L._e
    best = L.bestPreviousSegmentIndex
    L.set('b0', best)
    L.set('tot', L.preOrderedNonEmptySegments[best].segmentScore)
    L.set('ridx', e.list_of(L._st, [VInt(best)]))


def _ch_insert(L):
    e = L._e
    pre = L.preOrderedNonEmptySegments
    sc = L.self.sequentialityScorer.ref
    new = L.bestPreviousSegmentIndex
    old_head = L.ridx[0]
    L.set('tot', L.tot + JV(sc, pre.raw(new).t, pre.raw(old_head).t) + pre[new].segmentScore)
    L.set('ridx', e.concat(L._st, e.list_of(L._st, [VInt(new)]), L.raw('ridx')))


def _diag_key(seg):
    """the statement's diagonal order, written from the statement (not taken from the code's sort key): reference + query coordinate of the first and of the last pair"""
    a = seg.alignedPositions
    first, last = a[0], a[a.len - 1]
    return first.reference.position + last.reference.position + first.query.position + last.query.position


CHSRC = z3.Function('chain_source_index', z3.ArraySort(z3.IntSort(), Ref), z3.ArraySort(z3.IntSort(), Ref), z3.IntSort(), z3.IntSort(), z3.IntSort())


def _members_of_input(C, res, w):
    """every returned segment is one of the input segments (same object): w(t) = its index in the input (witness where proved, Skolem where assumed)"""
    S = C.segments
    t = z3.Int('cst')
    return ('every_returned_segment_is_one_of_the_input_segments',
            z3.ForAll([t], z3.Implies(z3.And(0 <= t, t < res.len), z3.And(0 <= w(t), w(t) < S.len, res.raw(t).t == S.raw(w(t)).t)),
                      patterns=[res.raw(t).t]))


def _ch_ensures(C, res):
    S = C.segments
    k = z3.Int('k')
    if not C.has('F'):
        return [('same_or_fewer_segments', res.len <= S.len),
                _members_of_input(C, res, lambda t: CHSRC(res.v.arrs[0], S.v.arrs[0], S.off, t))]
    F_ = C.F
    flog, slog = C.note('filter_log'), C.note('sorted_log')
    idx_empty, idx_gen, pi = flog[0]['idx'], flog[1]['idx'], slog[0]['pi']
    if not F_.has('result'):
        # no non-empty segment: the empty ones are returned
        E = F_.emptySegments
        return [('only_empty_segments_returned', z3.And(same_list(res, E), F_.preOrderedNonEmptySegments.len == 0)),
                _members_of_input(C, res, lambda t: idx_empty(t))]
    pre, cum, prv, E, ridx = F_.preOrderedNonEmptySegments, F_.cumulatedScore, F_.previousSegmentIndexes, F_.emptySegments, F_.ridx
    sc = C.self.sequentialityScorer.ref
    m = ridx.len
    n = pre.len
    t, t2, l, T = z3.Int('t'), z3.Int('t2'), z3.Int('l'), z3.Real('T')
    jn = lambda l, k: JN(sc, pre.raw(l).t, pre.raw(k).t)
    jv = lambda l, k: JV(sc, pre.raw(l).t, pre.raw(k).t)
    score = lambda k: pre[k].segmentScore
    b0 = F_.b0
    return [
        _members_of_input(C, res, lambda t: z3.If(t < m, idx_gen(pi(ridx[t])), idx_empty(t - m))),
        ('chain_then_empty_segments', z3.And(res.len == m + E.len, m >= 1,
                                            forall(t, z3.Implies(rng(0, t, E.len), res.raw(m + t).t == E.raw(t).t), [E.raw(t).t]))),
        ('chain_members_are_distinct_segments_in_diagonal_order', z3.And(
            forall(t, z3.Implies(rng(0, t, m), z3.And(0 <= ridx[t], ridx[t] < n, res.raw(t).t == pre.raw(ridx[t]).t)), [ridx[t]]),
            forall([t, t2], z3.Implies(z3.And(0 <= t, t < t2, t2 < m), ridx[t] < ridx[t2]), [MP(ridx[t], ridx[t2])]))),
        ('chain_members_follow_the_diagonal_order_first_plus_last_pair_coordinates_on_both_maps_never_decrease',
         forall(t, z3.Implies(z3.And(1 <= t, t < m), _diag_key(pre[ridx[t - 1]]) <= _diag_key(pre[ridx[t]])), [ridx[t]])),
        ('consecutive_members_are_never_joined_by_minus_infinity',
         forall(t, z3.Implies(z3.And(1 <= t, t < m), z3.Not(jn(ridx[t - 1], ridx[t]))), [ridx[t]])),
        ('chain_total_is_finite_and_equals_best_cumulated_score', z3.And(F_.tot == cum[b0].v, z3.Not(cum[b0].ninf))),
        # optimality: induction over the length of an arbitrary order-respecting selection ending at k
        ('optimality_base_single_segment', forall(k, z3.Implies(rng(0, k, n), score(k) <= cum[k].v), [cum.raw(k).v])),
        ('optimality_step_extend_by_admissible_join', forall([l, k, T], z3.Implies(
            z3.And(0 <= l, l < k, k < n, z3.Not(jn(l, k)), T <= cum[l].v), T + jv(l, k) + score(k) <= cum[k].v),
            [MP(cum.raw(l).v, cum.raw(k).v, T + 0)] if False else None)),
        ('optimality_final_best_dominates_every_end', forall(k, z3.Implies(rng(0, k, n), cum[k].v <= cum[b0].v), [cum.raw(k).v])),
    ]


chain = FunctionSpec(
    file=F, qualname='SegmentChainer.chain', params=dict(self=OBJ('SegmentChainer'), segments=LIST(SEG)), returns=LIST(SEG),
    requires=_ch_requires, ensures=_ch_ensures,
    loops={'for#0': Loop(inv=_ch_outer, kinds={'previousSegmentIndexes': LIST(OPT(INT)), 'cumulatedScore': LIST(EXT)}),
           'for#1': Loop(inv=_ch_inner, kinds={'previousSegmentIndexes': LIST(OPT(INT)), 'cumulatedScore': LIST(EXT)}),
           'while#0': Loop(inv=_ch_back, kinds={'previousSegmentIndexes': LIST(OPT(INT))})},
    ghost={'ridx': lambda C: C._e.fresh_list(INT, 'ridx', n=z3.IntVal(0)), 'tot': lambda C: z3.RealVal(0), 'b0': lambda C: z3.IntVal(0)},
    ghost_at={'assign#10': _ch_init_back, 'call:insert#0': _ch_insert},
    inline={'initialOrderingKey'},
    serves=('C14', 'C01'),
    note="dynamic programme over the pre-ordered non-empty segments: Bellman invariants on extended reals; the returned chain is a strictly "
         "increasing selection linked by finite joins whose total equals the maximal cumulated score; optimality by induction (base/step/final)",
)

SPECS = [getScore, chain]
