# Hand VCs for SequentialityScorer.getScore (nonlinear reals) and the SegmentChainer.chain DP (feasibility probe)
from z3 import *
import time
def prove(name,hyp,goal,to=20000):
    s=Solver(); s.set(timeout=to); s.add(hyp); s.add(Not(goal)); t0=time.time(); r=s.check()
    print(name,'OK' if r==unsat else r,'%.2fs'%(time.time()-t0))
    if r==sat: print(s.model())
rd,qd,mult=Reals('rd qd mult')
ab=lambda x: If(x>=0,x,-x)
mx=lambda *xs: (lambda a,*r: a if not r else If(a>=mx(*r),a,mx(*r)))(*xs)
ds=rd+qd; ads=ab(rd)+ab(qd); dd=rd-qd
calc0=(ds*ds+dd*dd)/mx(ab(ds),ab(dd),RealVal(1))
calc1=(ads*ads+dd*dd)/mx(ads+ab(dd),RealVal(1))
prove('calc0>=0',True,calc0>=0); prove('calc1>=0',True,calc1>=0)
prove('join<=0 v0',mult>=0,-mult*calc0<=0); prove('join<=0 v1',mult>=0,-mult*calc1<=0)
prove('contiguous=0 v0',And(rd==0,qd==0),-mult*calc0==0); prove('contiguous=0 v1',And(rd==0,qd==0),-mult*calc1==0)
# -inf test <=> overlap more than half of the shorter on one map
rl,ql=Reals('rl ql')
neginf = If(rl+2*rd<=ql+2*qd, rl+2*rd, ql+2*qd) < 0
prove('neginf-iff',And(rl>=0,ql>=0),neginf==Or(-rd>rl/2,-qd>ql/2))
# DP: Bellman invariants over extended reals (fin flag + value)
n=Int('n'); sc=Function('sc',IntSort(),RealSort()); Jf=Function('Jf',IntSort(),IntSort(),BoolSort()); Jv=Function('Jv',IntSort(),IntSort(),RealSort())
cum=Array('cum',IntSort(),RealSort()); prev=Array('prev',IntSort(),IntSort())  # prev=-1 for None
i,j,k,l=Ints('i j k l')
def Outer(I,cum,prev,best):
    return And(0<=I,I<=n, 0<=best, Or(I==0,best<I), Implies(I==0,best==0),
      ForAll([k],Implies(And(0<=k,k<I),And(cum[k]>=sc(k), -1<=prev[k],prev[k]<k,
            Implies(prev[k]==-1,cum[k]==sc(k)),
            Implies(prev[k]>=0,And(Jf(prev[k],k),cum[k]==cum[prev[k]]+Jv(prev[k],k)+sc(k))))),patterns=[cum[k]]),
      ForAll([l,k],Implies(And(0<=l,l<k,k<I,Jf(l,k)),cum[k]>=cum[l]+Jv(l,k)+sc(k)),patterns=[MultiPattern(cum[l],cum[k])]),
      ForAll([k],Implies(And(0<=k,k<I),cum[best]>=cum[k]),patterns=[cum[k]]))
best=Int('best'); I=Int('I')
pre=And(n>=1, ForAll([k],Implies(And(0<=k,k<n),sc(k)>0),patterns=[sc(k)]))
prove('dp-init',pre,Outer(IntVal(0),cum,prev,IntVal(0)))
# inner loop summarised by its own invariant: after processing j<J: c=max(0, max_{l<J,Jf} cum[l]+Jv), p=argmax or -1
c,p,J=Real('c'),Int('p'),Int('J')
def Inner(J,c,p):
    return And(0<=J,J<=I, c>=0, -1<=p,p<J, Implies(p==-1,c==0), Implies(p>=0,And(Jf(p,I),c==cum[p]+Jv(p,I))),
       ForAll([l],Implies(And(0<=l,l<J,Jf(l,I)),c>=cum[l]+Jv(l,I)),patterns=[cum[l]]))
H=And(pre,Outer(I,cum,prev,best),I<n)
prove('inner-init',H,Inner(IntVal(0),RealVal(0),IntVal(-1)))
cur=If(Jf(J,I),cum[J]+Jv(J,I),RealVal(0)); better=And(Jf(J,I),cum[J]+Jv(J,I)>c)   # -inf never > c
c2=If(better,cum[J]+Jv(J,I),c); p2=If(better,J,p)
prove('inner-step',And(H,Inner(J,c,p),J<I),Inner(J+1,c2,p2))
cum2=Store(cum,I,c+sc(I)); prev2=Store(prev,I,p); best2=If(c+sc(I)>cum[best],I,best)
# note: at I==0 cumulatedScore[0] is written before the comparison with itself: best stays 0
best2=If(I==0,IntVal(0),best2)
prove('outer-step',And(H,Inner(I,c,p)),Outer(I+1,cum2,prev2,best2))
# optimality lemma, induction step: chain ending at l with total T<=cum[l], extended by k
T=Real('T')
prove('opt-step',And(pre,Outer(n,cum,prev,best),0<=l,l<k,k<n,Jf(l,k),T<=cum[l]),T+Jv(l,k)+sc(k)<=cum[k])
prove('opt-base',And(pre,Outer(n,cum,prev,best),0<=k,k<n),sc(k)<=cum[k])
prove('opt-final',And(pre,Outer(n,cum,prev,best),0<=k,k<n,T<=cum[k]),T<=cum[best])
print('--- canaries (sat expected)')
prove('canary calc0>0',True,calc0>0)
prove('canary outer-step with >= tie-break claims best unchanged',And(H,Inner(I,c,p)),Outer(I+1,cum2,prev2,best))
