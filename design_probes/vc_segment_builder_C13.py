# Hand VCs: inductiveness of the C13 invariant for _AlignmentSegmentBuilder.getSegments (feasibility probe)
from z3 import *
import time
sc = Function('sc', IntSort(), RealSort())      # scores
Pf = Function('Pf', IntSort(), RealSort())
n = Int('n'); ms=Real('ms'); bst=Real('bst')
t,u,k = Ints('t u k')
axPf = And(Pf(0)==0, ForAll([t], Implies(And(0<=t,t<n), Pf(t+1)==Pf(t)+sc(t)), patterns=[Pf(t+1)]))
pre = And(n>=0, ms>0, axPf)
# state
def mk(sfx):
    return dict(S=Int('S'+sfx), e=Int('e'+sfx), ext=Real('ext'+sfx),
                kind=Int('kind'+sfx),  # 0 fresh-empty,1 own,2 stale
                cs=Int('cs'+sfx), ce=Int('ce'+sfx), cscore=Real('cscore'+sfx),
                r=Int('r'+sfx), rs=Array('rs'+sfx,IntSort(),IntSort()), re=Array('re'+sfx,IntSort(),IntSort()),
                brk=Array('brk'+sfx,IntSort(),IntSort()))
def SegOK(a,b,B):
    return And(0<=a, a<b, b<=B, B<=n, Pf(b)-Pf(a)>=ms,
        ForAll([t], Implies(And(a<t,t<=b), Pf(t)-Pf(a)>0), patterns=[Pf(t)]),
        ForAll([u,t], Implies(And(a<u,u<t,t<=b), Pf(t)>Pf(u)-bst), patterns=[MultiPattern(Pf(u),Pf(t))]),
        ForAll([u], Implies(And(a<u,u<b), Pf(u)-Pf(a)<Pf(b)-Pf(a)), patterns=[Pf(u)]),
        ForAll([t], Implies(And(b<t,t<=B), Pf(t)-Pf(a)<=Pf(b)-Pf(a)), patterns=[Pf(t)]),
        Or(B==n, Pf(B+1)-Pf(a) <= If(Pf(b)-Pf(a)-bst>0, Pf(b)-Pf(a)-bst, 0)))
def Inv(s):
    S,e,ext,kind,cs,ce,cscore,r,rs,re,brk = [s[x] for x in ['S','e','ext','kind','cs','ce','cscore','r','rs','re','brk']]
    return And(0<=S,S<=e,e<=n, ext==Pf(e)-Pf(S), r>=0,
      ForAll([t], Implies(And(S<t,t<=e), Pf(t)-Pf(S)>0), patterns=[Pf(t)]),
      ForAll([u,t], Implies(And(S<u,u<t,t<=e), Pf(t)>Pf(u)-bst), patterns=[MultiPattern(Pf(u),Pf(t))]),
      ForAll([u], Implies(And(S<u,u<=e), Pf(u)-Pf(S)<=cscore), patterns=[Pf(u)]),
      Or(And(kind==0, cscore==0),
         And(kind==1, cs==S, S<ce, ce<=e, cscore==Pf(ce)-Pf(S), cscore>0,
             ForAll([u], Implies(And(S<u,u<ce), Pf(u)-Pf(S)<cscore), patterns=[Pf(u)])),
         And(kind==2, 0<cscore, cscore<ms)),
      ForAll([k], Implies(And(0<=k,k<r), And(SegOK(rs[k],re[k],brk[k]), brk[k]<S)), patterns=[rs[k]]),
      ForAll([k], Implies(And(0<=k,k+1<r), brk[k]<rs[k+1]), patterns=[rs[k+1]]))
def prove(name, hyp, goal, to=30000):
    s=Solver(); s.set(timeout=to); s.add(hyp); s.add(Not(goal))
    t0=time.time(); r=s.check(); print(name, 'OK' if r==unsat else r, '%.2fs'%(time.time()-t0))
    return r
a=mk(''); b=mk('2')
# init
init = And(a['S']==0,a['e']==0,a['ext']==0,a['kind']==0,a['cscore']==0,a['r']==0)
prove('init', And(pre,init), Inv(a))
# body
S,e,ext,kind,cs,ce,cscore,r,rs,re,brk=[a[x] for x in ['S','e','ext','kind','cs','ce','cscore','r','rs','re','brk']]
guard = e<=n-1
ext1 = ext+sc(e)
thr = If(cscore-bst>0, cscore-bst, 0)
brk_cond = ext1<=thr
# break branch: addIfEnough
add = cscore>=ms
after_add = And(
   If(add, And(b['r']==r+1, b['rs']==Store(rs,r,cs), b['re']==Store(re,r,ce), b['brk']==Store(brk,r,e), b['kind']==0, b['cscore']==0),
           And(b['r']==r, b['rs']==rs, b['re']==re, b['brk']==brk, b['kind']==If(kind==1,2,kind), b['cscore']==cscore)),
   b['cs']==cs, b['ce']==ce, b['S']==e+1, b['e']==e+1, b['ext']==0)
prove('break', And(pre,Inv(a),guard,brk_cond,after_add), Inv(b))
# extend branch
acc = ext1>cscore
after_ext = And(b['S']==S,b['e']==e+1,b['ext']==ext1,b['r']==r,b['rs']==rs,b['re']==re,b['brk']==brk,
    If(acc, And(b['kind']==1,b['cs']==S,b['ce']==e+1,b['cscore']==ext1), And(b['kind']==kind,b['cs']==cs,b['ce']==ce,b['cscore']==cscore)))
prove('extend', And(pre,Inv(a),guard,Not(brk_cond),after_ext), Inv(b))
# exit: final add, post
post_add = If(add, And(b['r']==r+1, b['rs']==Store(rs,r,cs), b['re']==Store(re,r,ce), b['brk']==Store(brk,r,n)),
                   And(b['r']==r, b['rs']==rs, b['re']==re, b['brk']==brk))
Post = And(ForAll([k], Implies(And(0<=k,k<b['r']), SegOK(b['rs'][k],b['re'][k],b['brk'][k])), patterns=[b['rs'][k]]),
           ForAll([k], Implies(And(0<=k,k+1<b['r']), b['brk'][k]<b['rs'][k+1]), patterns=[b['rs'][k+1]]))
prove('exit', And(pre,Inv(a),Not(guard),post_add), Post)
# canary: something false must be refuted
prove('canary(sat expected)', And(pre,Inv(a),guard,Not(brk_cond),after_ext), b['cscore']>ext1)
