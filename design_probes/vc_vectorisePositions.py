# hand-written VCs for vectorisePositions inner/outer loops, feasibility probe
from z3 import *
import time
P = Function('P', IntSort(), IntSort())   # positions
n = Int('n'); res=Int('res'); start=Int('start'); end=Int('end')
B = Function('B', IntSort(), IntSort())
W = Function('W', IntSort(), IntSort())
k,j = Ints('k j')
axB = And(B(0)==start, ForAll([k], Implies(k>=0, B(k+1)==B(k)+res), patterns=[B(k+1)]))
sorted_ = ForAll([k,j], Implies(And(0<=k,k<=j,j<n), P(k)<=P(j)), patterns=[MultiPattern(P(k),P(j))])
pre = And(res>=1, n>=1, axB, sorted_)
def Inv(i, ws, we, out, L):
    # out: Array Int->Int ; L = len(out)
    return And(0<=i, i<=n, L>=0, we==ws+res, ws==B(L),
        ForAll([j], Implies(And(0<=j, j<i), P(j)<ws), patterns=[P(j)]),
        ForAll([k], Implies(And(0<=k,k<L), Or(out[k]==0,out[k]==1)), patterns=[out[k]]),
        ForAll([k], Implies(And(0<=k,k<L,out[k]==1), And(0<=W(k), W(k)<n, B(k)<=P(W(k)), P(W(k))<B(k+1))), patterns=[out[k]]),
        ForAll([k,j], Implies(And(0<=k,k<L,out[k]==0, 0<=j, j<n), Or(P(j)<B(k), P(j)>=B(k+1))), patterns=[MultiPattern(out[k],P(j))]))
def prove(name, hyp, goal):
    s=Solver(); s.set(timeout=20000); s.add(hyp); s.add(Not(goal))
    t=time.time(); r=s.check(); print(name, 'OK' if r==unsat else r, '%.2fs'%(time.time()-t))
    if r==sat: print(s.model())
out=Array('out',IntSort(),IntSort()); out2=Array('out2',IntSort(),IntSort())
i,ws,we,L=Ints('i ws we L'); ws2,we2,L2=Ints('ws2 we2 L2')
# 1 init
prove('init', pre, Inv(IntVal(0), start, start+res, out, IntVal(0)))
# 2 continue branch: position < ws -> Inv(i+1, same)
prove('continue', And(pre, Inv(i,ws,we,out,L), i<n, P(i)<ws), Inv(i+1,ws,we,out,L))
# inner loop invariant: Inv-like with i fixed & P(i)>=ws
def InvIn(i,ws,we,out,L): return And(Inv(i,ws,we,out,L), i<n, P(i)>=ws)
prove('inner-entry', And(pre, Inv(i,ws,we,out,L), i<n, Not(P(i)<ws)), InvIn(i,ws,we,out,L))
# inner body: P(i)>=we ; ws2=ws+res; yield 0
body = And(pre, InvIn(i,ws,we,out,L), P(i)>=we, ws2==ws+res, we2==we+res, out2==Store(out,L,0), L2==L+1)
prove('inner-preserve', And(body, Not(ws2>end)), InvIn(i,ws2,we2,out2,L2))
# post on return: bins exact + coverage
def Post(out,L):
    return And(
      ForAll([k], Implies(And(0<=k,k<L,out[k]==1), Exists([j], And(0<=j,j<n,B(k)<=P(j),P(j)<B(k+1))))),
      ForAll([k,j], Implies(And(0<=k,k<L,out[k]==0,0<=j,j<n), Or(P(j)<B(k),P(j)>=B(k+1)))),
      ForAll([j], Implies(And(0<=j,j<n,P(j)<=end), P(j)<B(L))))
prove('return-post', And(body, ws2>end), Post(out2,L2))
# after inner: yield 1
prove('yield1', And(pre, InvIn(i,ws,we,out,L), Not(P(i)>=we), ws2==ws+res, we2==we+res, out2==Store(out,L,1), L2==L+1, W(L)==i), Inv(i+1,ws2,we2,out2,L2))
prove('exit-post', And(pre, Inv(i,ws,we,out,L), Not(i<n)), Post(out,L))
