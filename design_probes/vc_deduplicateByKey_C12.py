# Hand VCs for __deduplicateByKey using assumed contracts of sorted / groupby / min (feasibility probe)
from z3 import *
import time
key=Function('key',IntSort(),IntSort()); dist=Function('dist',IntSort(),IntSort())
X=Array('X',IntSort(),IntSort()); S=Array('S',IntSort(),IntSort()); n=Int('n')
pi=Function('pi',IntSort(),IntSort()); pinv=Function('pinv',IntSort(),IntSort())
i,j,t,g,h,x=Ints('i j t g h x')
sorted_c = And(
  ForAll([i], Implies(And(0<=i,i<n), And(0<=pi(i),pi(i)<n, S[i]==X[pi(i)], pinv(pi(i))==i)), patterns=[pi(i),S[i]]),
  ForAll([j], Implies(And(0<=j,j<n), And(0<=pinv(j),pinv(j)<n, pi(pinv(j))==j, S[pinv(j)]==X[j])), patterns=[pinv(j),X[j]]),
  ForAll([i,j], Implies(And(0<=i,i<=j,j<n), key(S[i])<=key(S[j])), patterns=[MultiPattern(S[i],S[j])]),
  ForAll([i,j], Implies(And(0<=i,i<j,j<n, key(S[i])==key(S[j])), pi(i)<pi(j)), patterns=[MultiPattern(pi(i),pi(j))]))
G=Int('G'); b=Function('b',IntSort(),IntSort()); grp=Function('grp',IntSort(),IntSort())
groupby_c = And(G>=0, b(0)==0, b(G)==n, Implies(n==0,G==0),
  ForAll([g,h], Implies(And(0<=g,g<h,h<=G), b(g)<b(h)), patterns=[MultiPattern(b(g),b(h))]),
  ForAll([g], Implies(And(0<=g,g<=G), And(0<=b(g),b(g)<=n)), patterns=[b(g)]),
  ForAll([t], Implies(And(0<=t,t<n), And(0<=grp(t),grp(t)<G, b(grp(t))<=t, t<b(grp(t)+1))), patterns=[grp(t)]),
  ForAll([g,t], Implies(And(0<=g,g<G,b(g)<=t,t<b(g+1)), And(key(S[t])==key(S[b(g)]), grp(t)==g)), patterns=[MultiPattern(b(g),S[t])]),
  ForAll([g,h], Implies(And(0<=g,g<h,h<G), key(S[b(g)])<key(S[b(h)])), patterns=[MultiPattern(b(g),b(h))]))
# loop: for g in groups: O[g]=min(group,key=dist) -> mi(g)
O=Array('O',IntSort(),IntSort()); mi=Function('mi',IntSort(),IntSort()); gi=Int('gi')
def Inv(gi,O):
    return And(0<=gi, gi<=G, ForAll([g], Implies(And(0<=g,g<gi), And(b(g)<=mi(g), mi(g)<b(g+1), O[g]==S[mi(g)],
        ForAll([t], Implies(And(b(g)<=t,t<b(g+1)), dist(S[mi(g)])<=dist(S[t])), patterns=[S[t]]))), patterns=[O[g]]))
def prove(name,hyp,goal,to=30000):
    s=Solver(); s.set(timeout=to); s.add(hyp); s.add(Not(goal)); t0=time.time(); r=s.check()
    print(name,'OK' if r==unsat else r,'%.2fs'%(time.time()-t0)); return r
pre=And(n>=0,sorted_c,groupby_c)
prove('init',pre,Inv(IntVal(0),O))
O2=Array('O2',IntSort(),IntSort()); m=Int('m')
min_c=And(b(gi)<=m,m<b(gi+1), ForAll([t],Implies(And(b(gi)<=t,t<b(gi+1)),dist(S[m])<=dist(S[t])),patterns=[S[t]]), mi(gi)==m)
prove('step',And(pre,Inv(gi,O),gi<G,min_c,O2==Store(O,gi,S[m])),Inv(gi+1,O2))
postH=And(pre,Inv(gi,O),Not(gi<G))
prove('post-keys-strict',postH,ForAll([g,h],Implies(And(0<=g,g<h,h<G),key(O[g])<key(O[h]))))
prove('post-member',postH,ForAll([g],Implies(And(0<=g,g<G),Exists([x],And(0<=x,x<n,O[g]==X[x])))))
prove('post-min',postH,ForAll([g,x],Implies(And(0<=g,g<G,0<=x,x<n,key(X[x])==key(O[g])),dist(O[g])<=dist(X[x]))))
prove('post-cover',postH,ForAll([x],Implies(And(0<=x,x<n),Exists([g],And(0<=g,g<G,key(O[g])==key(X[x]))))))
print('--- with witness hints')
prove('post-member-w',postH,ForAll([g],Implies(And(0<=g,g<G),And(0<=pi(mi(g)),pi(mi(g))<n,O[g]==X[pi(mi(g))])),patterns=[O[g]]))
prove('post-cover-w',postH,ForAll([x],Implies(And(0<=x,x<n),And(0<=grp(pinv(x)),grp(pinv(x))<G,key(O[grp(pinv(x))])==key(X[x]))),patterns=[X[x]]))
