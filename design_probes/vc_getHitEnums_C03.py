# Hand VCs for __getHitEnums with ghost replay cursor (feasibility probe)
from z3 import *
import time
R=Function('R',IntSort(),IntSort()); Q=Function('Q',IntSort(),IntSort()); m=Int('m'); d=Int('d')
k,j=Ints('k j')
pre=And(m>=1, Or(d==1,d==-1),
  ForAll([k,j],Implies(And(0<=k,k<j,j<m),R(k)<R(j)),patterns=[MultiPattern(R(k),R(j))]),
  ForAll([k],Implies(And(0<=k,k+1<m), d*(Q(k+1)-Q(k))>=1),patterns=[Q(k+1)]))
rl=R(m-1)
def Inv(ri,c,pq,gr,gq,gn):
    live=And(ri<=rl,0<=c,c<m,gn==c,gr==ri,R(c)>=ri,Implies(c>0,R(c-1)<ri),
        Or(And(c==0,pq==Q(0),gq==Q(0)),
           And(c>0,pq==Q(c-1),gq==pq+d),
           And(c>0,pq==Q(c),gq==Q(c))))
    done=And(ri==rl+1,c==m,gn==m)
    return Or(live,done)
def prove(name,hyp,goal,to=20000):
    s=Solver(); s.set(timeout=to); s.add(hyp); s.add(Not(goal)); t0=time.time(); r=s.check()
    print(name,'OK' if r==unsat else r,'%.2fs'%(time.time()-t0))
    if r==sat: print(s.model())
ri,c,pq,gr,gq,gn=Ints('ri c pq gr gq gn')
prove('init',pre,Inv(R(0),IntVal(0),Q(0),R(0),Q(0),IntVal(0)))
guard=ri<=rl     # range(R0, rl+1)
H=And(pre,Inv(ri,c,pq,gr,gq,gn),guard)
absv=lambda x: If(x>=0,x,-x)
qinc=absv(Q(c)-pq)
# safety: c<m when dereferencing currentPair
prove('safety-current-not-None',H,And(0<=c,c<m))
gq1=If(qinc>1,gq+d*(qinc-1),gq); pq1=If(qinc>1,Q(c),pq)
# match branch
prove('M-assert',And(H,R(c)==ri),And(gr==R(c),gq1==Q(c),gn==c))
prove('M-preserve',And(H,R(c)==ri),Inv(ri+1,c+1,Q(c),gr+1,gq1+d,gn+1))
prove('D-preserve',And(H,R(c)>ri),Inv(ri+1,c,pq1,gr+1,gq1,gn))
prove('else-infeasible',H,Not(R(c)<ri))
prove('exit',And(pre,Inv(ri,c,pq,gr,gq,gn),Not(guard)),gn==m)
prove('first-is-M',And(pre),R(0)==R(0))
