"""Design-time witnesses of genuine defects on the pinned tree (see DESIGN.md section 7).
Run with: /venv/bin/python design_probes/defect_witnesses.py     (reads /repo, writes nothing)
Not part of the verification machinery; the checks must re-find each of these themselves."""
import io, sys, os, tempfile
sys.path.insert(0, os.environ.get("COMA_REPO", "/repo"))
sys.path.insert(0, os.path.join(os.environ.get("COMA_REPO", "/repo"), "sv"))
from tests.test_doubles.alignment_segment_stub import AlignmentSegmentStub
from tests.test_doubles.mock_segment_chainer import MockSegmentChainer
from src.alignment.alignment_results import AlignmentResultRow
from src.alignment.alignment_position import AlignedPair
from src.alignment.segment_with_resolved_conflicts import AlignmentSegmentConflictResolver
from src.alignment.segment_chainer import SegmentChainer, SequentialityScorer


def ids(seg):
    return [(p.reference.siteId, p.query.siteId) for p in seg.positions if isinstance(p, AlignedPair)]


# D1 (C03): one pair -> empty HitEnum
row = AlignmentResultRow([AlignmentSegmentStub.createFromPairs([(1, 1)])])
print("D1 cigarString of single pair:", repr(row.cigarString))

# K1 (C15/C01): middle segment emptied, outer two still share reference label 3
s0 = AlignmentSegmentStub.createFromPairs([(1, 1, 500.), (2, 2, 500.), (3, 3, 500.)])
s1 = AlignmentSegmentStub.createFromPairs([(3, 3, 100.)])
s2 = AlignmentSegmentStub.createFromPairs([(3, 4, 400.), (4, 5, 400.)])
out = AlignmentSegmentConflictResolver(SegmentChainer(SequentialityScorer(1., 0))).resolveConflicts([s0, s1, s2]).segments
print("K1 three segments ->", [ids(s) for s in out])

# K2 (C15/C01/C08): equal-length label lists cut at the same index although the labels differ
L = AlignmentSegmentStub.createFromPairs([(1, 2, 900.), (2, 3, 100.)])
R = AlignmentSegmentStub.createFromPairs([(2, 1, 100.), (3, 2, 900.)])
out = AlignmentSegmentConflictResolver(MockSegmentChainer()).resolveConflicts([L, R]).segments
print("K2 two segments   ->", [ids(s) for s in out], "(query label 2 used twice)")

# D4 (C20): call on another chromosome within the blur distance is dropped
from write_indel_files import cluster_indels
calls = [["deletion", 1, 1000, 5000, 7, 10, 20, 3000.0], ["deletion", 2, 1000, 6000, 8, 10, 20, 3000.0]]
print("D4 clusters of 2 calls:", cluster_indels([list(c) for c in calls]))

# D3 (C07/C18): zero-record XMAP written by COMA cannot be read back
from src.parsers.xmap_reader import XmapReader
hdr = "#h\tXmapEntryID\tQryContigID\tRefContigID\tQryStartPos\tQryEndPos\tRefStartPos\tRefEndPos\tOrientation\t" \
      "Confidence\tHitEnum\tQryLen\tRefLen\tAlignedRest\tLabelChannel\tAlignment\n#f\tint\n"
try:
    XmapReader().readAlignments(io.StringIO("# XMAP File Version:\t0.2\n" + hdr))
    print("D3 zero-record read: ok")
except Exception as e:
    print("D3 zero-record read:", type(e).__name__, e)

# D2 (C07): query longer than every reference aborts the run
from src.args import Args
from src.program import Program
import src.workflow_coordinator as wc
wc.p_imap = lambda f, items, num_cpus=None, disable=None: map(f, items)
d = tempfile.mkdtemp()


def cmap(path, maps):
    with open(path, "w") as f:
        f.write("# CMAP File Version:\t0.1\n#h CMapId\tContigLength\tNumSites\tSiteID\tLabelChannel\tPosition\n#f int\tfloat\tint\tint\tint\tfloat\n")
        for mid, (length, pos) in maps.items():
            for i, p in enumerate(pos):
                f.write(f"{mid}\t{length:.1f}\t{len(pos)}\t{i + 1}\t1\t{p:.1f}\n")
            f.write(f"{mid}\t{length:.1f}\t{len(pos)}\t{len(pos) + 1}\t0\t{length:.1f}\n")


cmap(d + "/r.cmap", {1: (50000, [1000, 9000, 20000, 31000, 45000])})
cmap(d + "/q.cmap", {1: (90000, [0, 30000, 60000, 89000])})
try:
    Program(Args.parse(["-r", d + "/r.cmap", "-q", d + "/q.cmap", "-o", d + "/o.xmap", "-c", "1", "-pb"])).run()
    print("D2 long query: ok")
except Exception as e:
    print("D2 long query:", type(e).__name__, e)
import shutil; shutil.rmtree(d)
