"""Contract objects (sidecar specifications) and the views through which spec text reads symbolic state.

A FunctionSpec is attached to a function of /repo by (file, qualname).  Its clauses are Python
callables returning lists of (clause name, z3 Bool).  Obligation ids are
    <file>::<qualname>::<kind>[<site>]::<clause>
with sites keyed by kind and ordinal inside the function (for#0, while#1, yield#2, call#3), never by
line number.
"""
from __future__ import annotations

from dataclasses import dataclass, field
from typing import Callable, Dict, List, Optional, Set, Tuple, Any

import z3

from .kinds import *


@dataclass
class Loop:
    inv: Callable[[Any], List[Tuple[str, Any]]]
    decreases: Optional[Callable[[Any], Any]] = None
    unroll: Optional[int] = None       # for loops over lists of statically known length
    kinds: Dict[str, Kind] = field(default_factory=dict)   # kinds of variables whose shape is unknown at loop entry


@dataclass
class FunctionSpec:
    file: str
    qualname: str
    params: Dict[str, Kind]
    returns: Optional[Kind] = None
    yields: Optional[Kind] = None
    requires: Callable[[Any], list] = lambda C: []
    ensures: Callable[[Any, Any], list] = lambda C, res: []
    loops: Dict[str, Loop] = field(default_factory=dict)
    ghost: Dict[str, Callable[[Any], Any]] = field(default_factory=dict)
    ghost_at: Dict[str, Callable[[Any], None]] = field(default_factory=dict)
    raises: Dict[str, Callable[[Any], Any]] = field(default_factory=dict)
    inline: Set[str] = field(default_factory=set)
    trusted: bool = False               # Tier T: assumed contract, body is not verified
    axioms: Callable[[], list] = lambda: []     # global definitional axioms for ghost functions
    serves: Tuple[str, ...] = ()
    canary: Optional[str] = None        # name of an ensures clause whose negation must be satisfiable
    note: str = ""
    result_name: str = "res"
    # fields of mutable parameters the function may change: {param: [field,...]}; lists it may mutate
    modifies: Dict[str, List[str]] = field(default_factory=dict)
    ensures_raises: Dict[str, Callable[[Any], list]] = field(default_factory=dict)
    pure_defs: Dict[str, Any] = field(default_factory=dict)
    ghost_frozen: Set[str] = field(default_factory=set)   # ghosts assigned outside every loop: not havocked at loop heads
    # a second (third ...) contract of the same function: another shape of the arguments, or a partial-correctness reading.
    # Call sites use the variant named in the caller's `use_variant`, else the default contract, else the first variant the arguments fit.
    variant: str = ''
    use_variant: Dict[str, str] = field(default_factory=dict)     # callee qualname -> variant used at this function's call sites
    # exceptions the function is allowed to raise at any point (partial correctness: the postcondition speaks about normal returns only).
    # An out-of-range subscript / pop from an empty list then ends the path instead of being a safety obligation.
    may_raise: Set[str] = field(default_factory=set)
    keep_own_safety: bool = False      # with may_raise: only callees may raise; this function's own subscripts / pops stay safety obligations
    class_invariants: bool = False     # use the declared class invariants (schema.CLASS_INVARIANTS) as background axioms in this verification
    elementwise: Set[str] = field(default_factory=set)    # scalar parameters that may be given as a numpy array: the contract then holds element by element (assumed broadcasting)
    numpy_arrays: bool = False         # list-kinded values in this function are numpy arrays: + - * / between them are element-wise, not concatenation
    rows_as_tuples: bool = False       # list literals of mixed kinds (table rows such as ['insertion', 17, 1.5]) are fixed-length immutable rows (tuples)
    verify_only: bool = False          # the body is verified against this contract, but call sites keep inlining the body (constructors)

    @property
    def fid(self):
        return f"{self.file}::{self.qualname}" + (f"#{self.variant}" if self.variant else '')


# ------------------------------------------------------------------------------------------------ views
def view(engine, st, v):
    """turn a symbolic value into something spec text can compute with"""
    if isinstance(v, (VInt, VReal, VBool, VRaw)):
        return v.t
    if isinstance(v, VEnum):
        return v.t
    if isinstance(v, VNone):
        return None
    if isinstance(v, VListRef):
        return ListView(engine, st, st.lists[v.lid])
    if isinstance(v, VList):
        return ListView(engine, st, v)
    if isinstance(v, VObj):
        return ObjView(engine, st, v)
    if isinstance(v, VOpt):
        return OptView(v.none, view(engine, st, v.val), v)
    if isinstance(v, VExt):
        return ExtView(v.ninf, v.v)
    if isinstance(v, VTuple):
        return tuple(view(engine, st, i) for i in v.items)
    if isinstance(v, VRecord):
        return {n: view(engine, st, i) for n, i in v.items}
    if isinstance(v, VDict):
        return DictView(engine, st, v)
    if isinstance(v, VFunc):
        return FuncView(engine, st, v)
    if isinstance(v, VIter):
        l, pos = st.iters[v.iid]
        return IterView(pos, ListView(engine, st, l))
    return v


class DictView:
    """a read-only dict inside spec text"""
    def __init__(self, engine, st, d):
        self._e, self._st, self.v = engine, st, d
        engine.add_background(('dict', str(d.t)), z3.And(*d.axioms()))

    def _key(self, k):
        if isinstance(k, tuple):
            return VTuple(tuple(self._one(x, kk) for x, kk in zip(k, self.v.key.items)))
        return self._one(k, self.v.key)

    @staticmethod
    def _one(x, kind):
        if isinstance(x, V):
            return x
        if hasattr(x, 'v') and isinstance(x.v, V):
            return x.v
        return kind.from_cols([x])

    def has(self, k): return self.v.has(self._key(k))
    def __getitem__(self, k): return view(self._e, self._st, self.v.get(self._key(k)))
    @property
    def len(self): return self.v.n
    @property
    def keys(self): return ListView(self._e, self._st, self.v.keys_list())
    @property
    def values(self): return ListView(self._e, self._st, self.v.values_list())


class FuncView:
    """a callable value inside spec text: apply it to an object view (pure)"""
    def __init__(self, engine, st, vf):
        self._e, self._st, self.v = engine, st, vf

    def __call__(self, x):
        from .builtins_ import apply_pure
        arg = x.v if hasattr(x, 'v') else x
        sc = self._st.fork()
        r = apply_pure(self._e, sc, self.v, [arg])
        return view(self._e, sc, r)


class IterView:
    def __init__(self, pos, lst):
        self.pos, self.list = pos, lst


class ListView:
    def __init__(self, engine, st, vl: VList):
        self._e, self._st, self.v = engine, st, vl

    @property
    def len(self): return self.v.n

    @property
    def off(self): return self.v.off

    @property
    def arr(self):
        assert len(self.v.arrs) == 1
        return self.v.arrs[0]

    def __getitem__(self, k):
        if isinstance(k, int):
            k = z3.IntVal(k) if k >= 0 else self.v.n + k
        return view(self._e, self._st, self.v.at(k))

    def raw(self, k):
        return self.v.at(k)


class ObjView:
    def __init__(self, engine, st, o: VObj):
        object.__setattr__(self, '_e', engine)
        object.__setattr__(self, '_st', st)
        object.__setattr__(self, 'v', o)

    @property
    def ref(self): return self.v.t

    def isa(self, *classes):
        return self._e.isinstance_term(self.v, classes)

    def as_(self, *classes):
        """the same object viewed as an instance of the given classes (use under a guard isa(...))"""
        keep = tuple(c for c in self.v.classes if any(self._e._is_sub(c, b) for b in classes)) or tuple(classes)
        return ObjView(self._e, self._st, VObj(self.v.t, keep))

    def __getattr__(self, name):
        val = self._e.get_field(self._st, self.v, name, spec_mode=True)
        return view(self._e, self._st, val)


class OptView:
    def __init__(self, none, val, raw):
        self.none, self.val, self.raw = none, val, raw


class ExtView:
    def __init__(self, ninf, v):
        self.ninf, self.v = ninf, v


class Ctx:
    """access to named symbolic values (params at entry, locals at a loop head, ghosts)"""
    def __init__(self, engine, st, names: Dict[str, Any], extra=None):
        object.__setattr__(self, '_e', engine)
        object.__setattr__(self, '_st', st)
        object.__setattr__(self, '_names', names)
        object.__setattr__(self, '_extra', extra or {})
        # True where the clause is being PROVED (postcondition of the function under verification, invariant at init/preserve,
        # precondition at a call site): existential statements are then given by witness; False where it is ASSUMED (Skolem form)
        object.__setattr__(self, 'proving', False)

    def __getattr__(self, name):
        if name in self._extra:
            return self._extra[name]
        if name in self._names:
            return view(self._e, self._st, self._names[name])
        raise AttributeError(f"spec refers to unknown name '{name}' (known: {sorted(self._names)})")

    def __getitem__(self, name):
        return self.__getattr__(name)

    def has(self, name):
        return name in self._names or name in self._extra

    def note(self, name, default=None):
        """a witness recorded on THIS path by a library contract or a callee contract (falls back to the engine-wide last value)"""
        if name in self._st.notes:
            return self._st.notes[name]
        v = getattr(self._e, name, default)
        return v if v is not None else default

    def _view_list(self, vl):
        return ListView(self._e, self._st, vl)

    def raw(self, name):
        v = self._names[name]
        if isinstance(v, VListRef):
            return self._st.lists[v.lid]
        return v

    def set(self, name, value):
        """ghost assignment (only meaningful inside ghost_at handlers)"""
        self._e.ghost_set(self._st, name, value)

    def assert_(self, name, cond, site='ghost'):
        """ghost assertion: an obligation at the current program point"""
        self._e.check(self._st, cond, f"ghost_assert[{site}]::{name}", 'ghost-assert')


def forall(vars_, body, pats=None):
    if not isinstance(vars_, (list, tuple)):
        vars_ = [vars_]
    if pats:
        return z3.ForAll(list(vars_), body, patterns=pats)
    return z3.ForAll(list(vars_), body)


def rng(lo, k, hi):
    """lo <= k < hi"""
    return z3.And(lo <= k, k < hi)
