"""Path state of the symbolic executor."""
from __future__ import annotations

import itertools
from typing import Dict, List, Optional

import z3

from .kinds import *

_ids = itertools.count(1)


def new_id() -> int:
    return next(_ids)


class Frame:
    __slots__ = ('env', 'parent', 'module', 'cls', 'fn', 'ctr', 'spec', 'yields', 'label')

    def __init__(self, module, cls, fn, parent=None, spec=None):
        self.env: Dict[str, V] = {}
        self.parent: Optional[int] = parent     # lexically enclosing frame id (closures)
        self.module = module
        self.cls = cls                          # ClassInfo or None
        self.fn = fn
        self.ctr: Dict[str, int] = {}
        self.spec = spec
        self.yields = False
        self.label = ''

    def copy(self):
        f = Frame(self.module, self.cls, self.fn, self.parent, self.spec)
        f.env = dict(self.env)
        f.ctr = self.ctr            # site counters are per function text, shared is fine (static numbering)
        f.yields = self.yields
        f.label = self.label
        return f


class State:
    def __init__(self):
        self.frames: Dict[int, Frame] = {}
        self.cur: int = 0
        self.pc: List[z3.BoolRef] = []
        self.objs: Dict[tuple, V] = {}        # (ref key, field) -> value   (heap of known field values)
        self.lists: Dict[int, VList] = {}
        self.iters: Dict[int, tuple] = {}     # iid -> (VList, position term)
        self.guards: List[z3.BoolRef] = []    # local guards of short-circuit evaluation (for safety obligations)
        self.trace: List[str] = []
        self.bidx: set = set()               # indices into pc that are branch conditions (not facts)
        self.notes: dict = {}                # per-path notes of contract text (e.g. skolem witnesses handed from a callee contract to the caller's)

    def fork(self) -> 'State':
        s = State()
        s.frames = {k: f.copy() for k, f in self.frames.items()}
        s.cur = self.cur
        s.pc = list(self.pc)
        s.objs = dict(self.objs)
        s.lists = dict(self.lists)
        s.iters = dict(self.iters)
        s.guards = list(self.guards)
        s.trace = list(self.trace)
        s.bidx = set(self.bidx)
        s.notes = dict(self.notes)
        return s

    @property
    def frame(self) -> Frame:
        return self.frames[self.cur]

    def assume(self, *facts):
        for f in facts:
            if f is None:
                continue
            if z3.is_true(f):
                continue
            self.pc.append(f)

    def assume_branch(self, cond):
        """record a branch condition of a fork (kept apart from facts so that outcomes can be merged)"""
        self.bidx.add(len(self.pc))
        self.pc.append(cond)

    def lookup(self, name: str):
        fid = self.cur
        while fid is not None:
            fr = self.frames[fid]
            if name in fr.env:
                return fr.env[name]
            fid = fr.parent
        return None

    def bind(self, name: str, v: V):
        self.frame.env[name] = v

    def new_list(self, vl: VList) -> VListRef:
        lid = new_id()
        self.lists[lid] = vl
        return VListRef(lid)

    def freeze(self, ref: 'VListRef') -> 'VListRef':
        """mark a list object as a COPY of contents held elsewhere (a list stored in a read-only dict): mutating it would not reach the original, so any
        mutation leaves the modelled subset"""
        self.notes['frozen_lists'] = frozenset(self.notes.get('frozen_lists', frozenset()) | {ref.lid})
        return ref

    def is_frozen(self, ref) -> bool:
        return isinstance(ref, VListRef) and ref.lid in self.notes.get('frozen_lists', ())

    def lst(self, v) -> VList:
        if isinstance(v, VListRef):
            return self.lists[v.lid]
        return v
