"""Forward symbolic execution of Python function bodies (expressions).

`ev(node, st)` is a generator of (state, value) outcomes: an expression normally has one outcome;
inlined calls and dynamic dispatch may fork.  Boolean operators, conditional expressions and
comparisons produce terms (no fork).  Safety obligations (subscript range, None dereference,
exhausted iterator, division by zero) are emitted where the operation happens.
"""
from __future__ import annotations

import ast
from typing import Iterator, Tuple, List

import z3

from .kinds import *
from .state import State, Frame, new_id
from .engine import EngineBase, Unsupported, NeedsContract, cls_of
from . import builtins_ as B


class Raise(Exception):
    """control-flow signal used inside expression evaluation for a Python-level raise"""
    def __init__(self, st, exc):
        self.st, self.exc = st, exc


def zabs(x):
    return z3.If(x >= 0, x, -x)


class ExprMixin:
    # ------------------------------------------------------------------ helpers
    def truth(self, st: State, v: V) -> z3.BoolRef:
        """Python truthiness"""
        if isinstance(v, VBool):
            return v.t
        if isinstance(v, VInt):
            return v.t != 0
        if isinstance(v, VReal):
            return v.t != 0
        if isinstance(v, VExt):
            return z3.Or(v.ninf, v.v != 0)
        if isinstance(v, VNone):
            return z3.BoolVal(False)
        if isinstance(v, VOpt):
            return z3.And(z3.Not(v.none), self.truth(st, v.val))
        if isinstance(v, (VListRef, VList)):
            return st.lst(v).n > 0
        if isinstance(v, VObj):
            return z3.BoolVal(True)        # no __bool__/__len__ on repo classes used as conditions
        if isinstance(v, VEnum):
            return z3.BoolVal(True)
        if isinstance(v, VStr):
            return z3.BoolVal(len(v.s) > 0)
        if isinstance(v, VTuple):
            return z3.BoolVal(len(v.items) > 0)
        raise Unsupported(f"truthiness of {type(v).__name__}")

    def site(self, st: State, kind: str) -> str:
        raise NotImplementedError

    def num(self, v: V):
        if isinstance(v, (VInt, VReal)):
            return v.t
        if isinstance(v, VBool):
            return z3.If(v.t, 1, 0)
        raise Unsupported(f"numeric value expected, got {type(v).__name__}")

    # ------------------------------------------------------------------ expressions
    def ev(self, node: ast.expr, st: State) -> Iterator[Tuple[State, V]]:
        m = getattr(self, 'ev_' + type(node).__name__, None)
        if m is None:
            raise Unsupported(f"expression {type(node).__name__} at line {getattr(node, 'lineno', '?')}")
        yield from m(node, st)

    def ev1(self, node, st) -> Tuple[State, V]:
        """evaluate an expression that must not fork"""
        outs = list(self.ev(node, st))
        if len(outs) != 1:
            outs = self.merge(st, outs)
        return outs[0]

    def merge(self, base: State, outs):
        """merge forked outcomes of an evaluation into one value-level if-then-else.  Branch conditions
        (State.assume_branch) select the value; the facts gathered on each branch are kept as
        implications under that branch's condition."""
        if len(outs) == 1:
            return outs
        if not outs:
            raise Unsupported("expression has no feasible outcome")
        n = min(len(s.pc) for s, _ in outs)
        first = outs[0][0].pc
        for s, _ in outs[1:]:
            i = 0
            while i < n and (s.pc[i] is first[i] or s.pc[i].eq(first[i])):
                i += 1
            n = i
        if any(isinstance(v, VListRef) for _, v in outs):
            vals = self.align_lists(base, [s.lists[v.lid] if isinstance(v, VListRef) else v for s, v in outs])
            outs = [(s, v2) for (s, _), v2 in zip(outs, vals)]
        conds, facts = [], []
        for s, _ in outs:
            bc = [f for i, f in enumerate(s.pc) if i >= n and i in s.bidx]
            fc = [f for i, f in enumerate(s.pc) if i >= n and i not in s.bidx]
            if not bc:
                raise Unsupported("cannot merge outcomes: a fork without a recorded branch condition")
            conds.append(z3.simplify(z3.And(*bc)) if len(bc) > 1 else bc[0])
            facts.append(fc)
        val = outs[-1][1]
        for (s, v), c in zip(reversed(outs[:-1]), reversed(conds[:-1])):
            val = ite_val(c, v, val)
        common = list(first[:n])
        keep_b = {i for i in outs[0][0].bidx if i < n}
        res = base
        res.pc[:] = common
        res.bidx = keep_b
        res.cur = outs[0][0].cur                       # every outcome has returned to the same frame
        for fid_, fr_ in outs[0][0].frames.items():
            res.frames.setdefault(fid_, fr_)
        for c, fc in zip(conds, facts):
            if fc:
                res.assume(z3.Implies(c, z3.And(*fc)))
        res.assume(z3.Or(*conds))
        res.lists.update({k: v for s, _ in outs for k, v in s.lists.items() if k not in res.lists})
        for k2, v2 in outs[0][0].objs.items():
            if k2 not in res.objs and all(k2 in s.objs and s.objs[k2] == v2 for s, _ in outs[1:]):
                res.objs[k2] = v2
        if isinstance(val, VList):
            val = res.new_list(val)
        return [(res, val)]

    def ev_seq(self, nodes, st):
        """evaluate expressions left to right; forks are kept (cartesian over outcomes)"""
        if not nodes:
            yield st, []
            return
        for s, v in self.ev(nodes[0], st):
            for s2, rest in self.ev_seq(nodes[1:], s):
                yield s2, [v] + rest

    def ev_Constant(self, node, st):
        c = node.value
        if isinstance(c, bool):
            yield st, VBool(z3.BoolVal(c))
        elif isinstance(c, int):
            yield st, VInt(z3.IntVal(c))
        elif isinstance(c, float):
            yield st, VReal(z3.RealVal(repr(c)))
        elif c is None:
            yield st, VNone()
        elif isinstance(c, str):
            yield st, VStr(c)
        else:
            raise Unsupported(f"constant {c!r}")

    def ev_Name(self, node, st):
        v = st.lookup(node.id)
        if v is None:
            v = self.global_name(st, node.id)
        if v is None:
            raise Unsupported(f"unbound name {node.id} at line {node.lineno}")
        yield st, v

    def global_name(self, st, name):
        mod = st.frame.module
        if name in mod.functions:
            return VFunc('def', (mod.functions[name], mod, None, None))
        if name in mod.classes:
            return VFunc('class', (name,))
        if name in mod.imports:
            dotted, attr = mod.imports[name]
            m = self.repo.module_by_dotted(dotted)
            if m is not None and attr is not None:
                if attr in m.classes:
                    return VFunc('class', (attr,))
                if attr in m.functions:
                    return VFunc('def', (m.functions[attr], m, None, None))
            if attr is None:
                return VModule(dotted)
            return VFunc('builtin', (f"{dotted}.{attr}",))
        const = self.module_constant(mod, name)
        if const is not None:
            return const
        if name in B.BUILTINS:
            return VFunc('builtin', (name,))
        if name in ('ValueError', 'TypeError', 'IndexError', 'KeyError', 'Exception', 'StopIteration'):
            return VFunc('exc', (name,))
        if name in ('int', 'float', 'str', 'tuple', 'bool'):
            return VFunc('builtin', (name,))
        return None

    def module_constant(self, mod, name):
        """a module-level name bound exactly once, to a number / string / bool literal (possibly negated), and never rebound (no `global` statement
        names it): its value.  Anything else stays unbound (the function then leaves the subset)"""
        tree = getattr(mod, 'tree', None)
        if tree is None:
            return None
        hits = [n for n in tree.body if isinstance(n, (ast.Assign, ast.AnnAssign))
                and any(isinstance(t, ast.Name) and t.id == name for t in (n.targets if isinstance(n, ast.Assign) else [n.target]))]
        if len(hits) != 1 or hits[0].value is None:
            return None
        if any(isinstance(n, ast.Global) and name in n.names for n in ast.walk(tree)):
            return None
        val, neg = hits[0].value, False
        if isinstance(val, ast.UnaryOp) and isinstance(val.op, ast.USub):
            val, neg = val.operand, True
        if not isinstance(val, ast.Constant):
            return None
        c = val.value
        if isinstance(c, bool):
            return None if neg else VBool(z3.BoolVal(c))
        if isinstance(c, int):
            return VInt(z3.IntVal(-c if neg else c))
        if isinstance(c, float):
            return VReal(z3.RealVal(repr(-c if neg else c)))
        if isinstance(c, str) and not neg:
            return VStr(c)
        return None

    def ev_UnaryOp(self, node, st):
        for s, v in self.ev(node.operand, st):
            if isinstance(node.op, ast.Not):
                yield s, VBool(z3.Not(self.truth(s, v)))
            elif isinstance(node.op, ast.USub):
                if isinstance(v, VInt):
                    yield s, VInt(-v.t)
                elif isinstance(v, VReal):
                    yield s, VReal(-v.t)
                elif isinstance(v, VExt):
                    raise Unsupported("negation of extended real")
                elif isinstance(v, VFloatInf):
                    yield s, VExt(z3.BoolVal(True), z3.RealVal(0))
                elif isinstance(v, (VListRef, VList)) and s.lst(v).elem in (INT, REAL):
                    # numpy: element-wise negation of an array
                    self.assumptions.add('numpy array arithmetic is element-wise')
                    l = s.lst(v)
                    r = self.fresh_list(l.elem, 'neg', n=l.n)
                    k = z3.Int(fresh_name('nk'))
                    s.assume(z3.ForAll([k], z3.Implies(z3.And(0 <= k, k < l.n), z3.Select(r.arrs[0], k) == -l.at(k).t), patterns=[z3.Select(r.arrs[0], k)]))
                    yield s, s.new_list(r)
                else:
                    raise Unsupported(f"unary minus on {type(v).__name__}")
            else:
                raise Unsupported("unary op")

    def ev_BoolOp(self, node, st):
        # value-level: `a and b` = b if truth(a) else a ; later operands are evaluated under the guard
        # of the earlier ones (for their safety obligations).  Operand evaluation may fork.
        is_and = isinstance(node.op, ast.And)
        depth = len(st.guards)

        def rec(i, s, vals, truths):
            if i == len(node.values):
                yield s, vals, truths
                return
            for s1, v in self.ev(node.values[i], s):
                t = self.truth(s1, v)
                ts = z3.simplify(t)
                if (is_and and z3.is_false(ts)) or (not is_and and z3.is_true(ts)):
                    # short circuit decided statically: the later operands are not evaluated (Python does not evaluate them either)
                    yield s1, vals + [v], truths + [t]
                    continue
                s1.guards.append(t if is_and else z3.Not(t))
                yield from rec(i + 1, s1, vals + [v], truths + [t])

        for s, vals, truths in rec(0, st, [], []):
            del s.guards[depth:]
            yield from self._boolop_result(s, is_and, vals, truths)

    def _boolop_result(self, s, is_and, vals, truths):
        anylist = any(isinstance(v, (VListRef, VList)) for v in vals)
        vals = [s.lists[v.lid] if isinstance(v, VListRef) else v for v in vals]
        if anylist:
            vals = self.align_lists(s, vals)
            if len(vals) == 2 and not z3.is_true(z3.simplify(truths[0])) and not z3.is_false(z3.simplify(truths[0])):
                # lists are not merged into if-then-else arrays: fork on the truth of the first operand
                s2 = s.fork()
                s.assume_branch(truths[0])
                s2.assume_branch(z3.Not(truths[0]))
                first, second = (vals[1], vals[0]) if is_and else (vals[0], vals[1])
                if self.feasible(s):
                    yield s, (s.new_list(first) if isinstance(first, VList) else first)
                if self.feasible(s2):
                    yield s2, (s2.new_list(second) if isinstance(second, VList) else second)
                return
        res = vals[-1]
        for v, t in zip(reversed(vals[:-1]), reversed(truths[:-1])):
            try:
                if not is_and and isinstance(v, VOpt):
                    v = v.val          # `a or b` selects a only when a is truthy, hence not None
                res = ite_val(t, res, v) if is_and else ite_val(t, v, res)
            except TypeError:
                # heterogeneous operands: only the truth value is meaningful
                tt = z3.And(*truths) if is_and else z3.Or(*truths)
                res = VBool(tt)
                break
        if isinstance(res, VList):
            res = s.new_list(res)
        yield s, res

    def align_lists(self, st, vals):
        """give empty literal lists (element kind not yet known) the element kind of their siblings"""
        kinds = [v.elem for v in vals if isinstance(v, VList) and not (v.elem is NONE and not v.arrs)]
        if not kinds:
            return vals
        ek = self.join_kind(kinds)
        out = []
        for v in vals:
            if isinstance(v, VList):
                if v.elem is NONE and not v.arrs:
                    v = self.fresh_list(ek, 'empty', n=z3.IntVal(0))
                elif v.elem != ek:
                    v = self.coerce(st, v, LIST(ek))
            out.append(v)
        return out

    def ev_IfExp(self, node, st):
        s, c = self.ev1(node.test, st)
        t = self.truth(s, c)
        ts = z3.simplify(t)
        if z3.is_true(ts) or z3.is_false(ts):
            yield from self.ev(node.body if z3.is_true(ts) else node.orelse, s)      # only the selected branch is evaluated
            return
        depth = len(s.guards)
        s.guards.append(t)
        s, a = self.ev1(node.body, s)
        s.guards[depth] = z3.Not(t)
        s, b = self.ev1(node.orelse, s)
        del s.guards[depth:]
        if isinstance(a, VListRef):
            a = s.lists[a.lid]
        if isinstance(b, VListRef):
            b = s.lists[b.lid]
        if isinstance(a, VList) or isinstance(b, VList):
            a, b = self.align_lists(s, [a, b])
        if isinstance(a, VStr) and isinstance(b, VStr) and a.s != b.s:
            a, b = self.str_const(a.s), self.str_const(b.s)
        elif isinstance(a, VStr) and isinstance(b, VObj):
            a = self.str_const(a.s)
        elif isinstance(b, VStr) and isinstance(a, VObj):
            b = self.str_const(b.s)
        r = ite_val(t, a, b)
        if isinstance(r, VList):
            r = s.new_list(r)
        yield s, r

    def ev_BinOp(self, node, st):
        for s1, a in self.ev(node.left, st):
            for s2, b in self.ev(node.right, s1):
                yield s2, self.binop(s2, node.op, a, b, node)

    def binop(self, st, op, a, b, node=None):
        if isinstance(a, VObj) and a.classes != ('str',):
            name = {ast.Sub: '__sub__', ast.Add: '__add__'}.get(type(op))
            fm = self.repo.find_method(a.classes[0], name) if name else None
            if fm is None or any(self.repo.find_method(c, name) != fm and self.repo.find_method(c, name)[1] is not fm[1] for c in a.classes):
                raise Unsupported(f"operator {type(op).__name__} on objects of {a.classes}")
            ci, fn = fm
            outs = list(self.call_def(st, fn, ci.module, ci, [a, b], {}, node))
            outs = self.merge(st, outs)
            return outs[0][1]
        if isinstance(a, (VListRef, VList)) or isinstance(b, (VListRef, VList)):
            return self.list_binop(st, op, a, b)
        if isinstance(a, VTuple) and isinstance(b, VTuple) and isinstance(op, ast.Add):
            return VTuple(a.items + b.items)
        a, b = unify_num(a, b)
        if isinstance(a, VBool) and isinstance(b, VBool):
            a, b = VInt(z3.If(a.t, 1, 0)), VInt(z3.If(b.t, 1, 0))
        if isinstance(a, VExt) and isinstance(b, VExt):
            if isinstance(op, ast.Add):
                return VExt(z3.Or(a.ninf, b.ninf), a.v + b.v)
            if isinstance(op, ast.Sub):
                self.check(st, z3.Not(b.ninf), f"safety[{self.site(st, 'extsub')}]::no_inf_minus_inf", 'safety')
                return VExt(a.ninf, a.v - b.v)
            raise Unsupported("arithmetic on extended reals other than +/-")
        if not isinstance(a, (VInt, VReal)) or not isinstance(b, (VInt, VReal)):
            raise Unsupported(f"binary op on {type(a).__name__}, {type(b).__name__}")
        mk = VInt if isinstance(a, VInt) else VReal
        x, y = a.t, b.t
        if isinstance(op, ast.Add):
            return mk(x + y)
        if isinstance(op, ast.Sub):
            return mk(x - y)
        if isinstance(op, ast.Mult):
            return mk(x * y)
        if isinstance(op, ast.Div):
            self.check(st, y != 0, f"safety[{self.site(st, 'div')}]::nonzero_divisor", 'safety')
            if mk is VInt:
                self.assumptions.add('int/int division treated as exact rational (float-as-real)')
                return VReal(z3.ToReal(x) / z3.ToReal(y))
            return VReal(x / y)
        if isinstance(op, ast.FloorDiv):
            self.check(st, y != 0, f"safety[{self.site(st, 'div')}]::nonzero_divisor", 'safety')
            if mk is VInt:
                # python floor division: SMT div is euclidean; the two agree for a positive divisor
                self.check(st, y > 0, f"safety[{self.site(st, 'div')}]::positive_divisor_modelled", 'safety')
                return VInt(x / y)
            # float // float = floor of the real quotient (float-as-real); z3's ToInt is floor
            return VReal(z3.ToReal(z3.ToInt(x / y)))
        if isinstance(op, ast.Mod):
            self.check(st, y != 0, f"safety[{self.site(st, 'div')}]::nonzero_divisor", 'safety')
            if mk is VInt:
                self.check(st, y > 0, f"safety[{self.site(st, 'mod')}]::positive_modulus_modelled", 'safety')
                return VInt(x % y)
            raise Unsupported("modulo on reals")
        if isinstance(op, ast.Pow):
            if isinstance(node.right, ast.Constant) and node.right.value == 2:
                return mk(x * x)
            raise Unsupported("power other than **2")
        raise Unsupported(f"binary operator {type(op).__name__}")

    def ev_Compare(self, node, st):
        s, left = self.ev1(node.left, st)
        conj = []
        for op, rn in zip(node.ops, node.comparators):
            s, right = self.ev1(rn, s)
            conj.append(self.compare(s, op, left, right))
            left = right
        yield s, VBool(conj[0] if len(conj) == 1 else z3.And(*conj))

    def compare(self, st, op, a, b) -> z3.BoolRef:
        if isinstance(op, (ast.Is, ast.IsNot)):
            r = self.is_same(st, a, b)
            return r if isinstance(op, ast.Is) else z3.Not(r)
        if isinstance(op, (ast.In, ast.NotIn)):
            r = self.contains(st, b, a)
            return r if isinstance(op, ast.In) else z3.Not(r)
        if isinstance(op, (ast.Eq, ast.NotEq)):
            r = self.py_eq(st, a, b)
            return r if isinstance(op, ast.Eq) else z3.Not(r)
        # ordering
        if isinstance(a, VObj) and isinstance(b, VObj):
            return self.obj_lt(st, op, a, b)
        a, b = unify_num(a, b)
        if isinstance(a, VExt) and isinstance(b, VExt):
            # a > b  over extended reals with -inf only
            gt = z3.And(z3.Not(a.ninf), z3.Or(b.ninf, a.v > b.v))
            lt = z3.And(z3.Not(b.ninf), z3.Or(a.ninf, a.v < b.v))
            eq = z3.Or(z3.And(a.ninf, b.ninf), z3.And(z3.Not(a.ninf), z3.Not(b.ninf), a.v == b.v))
            return {ast.Gt: gt, ast.Lt: lt, ast.GtE: z3.Or(gt, eq), ast.LtE: z3.Or(lt, eq)}[type(op)]
        if isinstance(a, VOpt) or isinstance(b, VOpt) or isinstance(a, VNone) or isinstance(b, VNone):
            raise Unsupported("ordering comparison with a possibly-None value")
        x, y = self.num(a), self.num(b)
        return {ast.Lt: x < y, ast.LtE: x <= y, ast.Gt: x > y, ast.GtE: x >= y}[type(op)]

    def is_same(self, st, a, b):
        if isinstance(b, VNone):
            if isinstance(a, VNone):
                return z3.BoolVal(True)
            if isinstance(a, VOpt):
                return a.none
            return z3.BoolVal(False)
        if isinstance(a, VNone):
            return self.is_same(st, b, a)
        if isinstance(a, VObj) and isinstance(b, VObj):
            return a.t == b.t
        if isinstance(a, VEnum) and isinstance(b, VEnum):
            return a.t == b.t
        raise Unsupported("`is` on these operands")

    def py_eq(self, st, a, b) -> z3.BoolRef:
        """Python == : dispatches to __eq__ of repo classes (inlined through the pure evaluator)"""
        if isinstance(a, VOpt):
            if isinstance(b, VNone):
                return a.none
            if isinstance(b, VOpt):
                return z3.Or(z3.And(a.none, b.none), z3.And(z3.Not(a.none), z3.Not(b.none), self.py_eq(st, a.val, b.val)))
            return z3.And(z3.Not(a.none), self.py_eq(st, a.val, b))
        if isinstance(b, VOpt):
            return self.py_eq(st, b, a)
        if isinstance(a, VNone) or isinstance(b, VNone):
            return z3.BoolVal(isinstance(a, VNone) and isinstance(b, VNone))
        if isinstance(a, VObj) and isinstance(b, VObj):
            return self.obj_eq(st, a, b)
        if isinstance(a, VObj) and isinstance(b, VFunc) and a.classes != ('str',):
            # comparison of an object with a function / property object (e.g. `s != AlignmentSegment.empty`): the class's __eq__ decides
            terms = []
            for ca in a.classes:
                fm = self.repo.find_method(ca, '__eq__') if self.repo.cls(ca) else None
                if fm is None:
                    terms.append((ca, z3.BoolVal(False)))
                else:
                    terms.append((ca, self.truth(st, self.pure_call(st, fm[1], fm[0], [VObj(a.t, (ca,)), b]))))
            res = terms[-1][1]
            for ca, r in reversed(terms[:-1]):
                res = z3.If(cls_of(a.t) == self.cls_id(ca), r, res)
            return res
        if isinstance(a, VEnum) and isinstance(b, VEnum):
            return a.t == b.t
        if isinstance(a, VStr) and isinstance(b, VStr):
            return z3.BoolVal(a.s == b.s)
        if isinstance(a, VStr) and isinstance(b, VObj) or isinstance(b, VStr) and isinstance(a, VObj):
            s, o = (a, b) if isinstance(a, VStr) else (b, a)
            return o.t == self.str_const(s.s).t
        if isinstance(a, VTuple) and isinstance(b, VTuple):
            if len(a.items) != len(b.items):
                return z3.BoolVal(False)
            return z3.And(*[self.py_eq(st, x, y) for x, y in zip(a.items, b.items)]) if a.items else z3.BoolVal(True)
        if isinstance(a, (VListRef, VList)) and isinstance(b, (VListRef, VList)):
            la, lb = st.lst(a), st.lst(b)
            k = z3.Int(fresh_name('eqk'))
            ea, eb = la.at(k), lb.at(k)
            return z3.And(la.n == lb.n, z3.ForAll([k], z3.Implies(z3.And(0 <= k, k < la.n), self.py_eq(st, ea, eb))))
        a, b = unify_num(a, b)
        if isinstance(a, VExt) and isinstance(b, VExt):
            return z3.Or(z3.And(a.ninf, b.ninf), z3.And(z3.Not(a.ninf), z3.Not(b.ninf), a.v == b.v))
        if isinstance(a, (VInt, VReal, VBool)) and isinstance(b, (VInt, VReal, VBool)):
            if isinstance(a, VBool) and isinstance(b, VBool):
                return a.t == b.t
            return self.num(a) == self.num(b)
        raise Unsupported(f"== on {type(a).__name__}, {type(b).__name__}")

    def str_const(self, s: str) -> VObj:
        c = z3.Const('str:' + s, Ref)
        self._str_consts = getattr(self, '_str_consts', {})
        if s not in self._str_consts:
            for other, oc in self._str_consts.items():
                self.add_background(('strne', s, other), c != oc)
            self._str_consts[s] = c
        return VObj(c, ('str',))

    def obj_eq(self, st, a: VObj, b: VObj) -> z3.BoolRef:
        """a == b through the classes' __eq__ (pure inlining), default identity"""
        terms = []
        for ca in a.classes:
            fm = self.repo.find_method(ca, '__eq__') if self.repo.cls(ca) else None
            ci = self.repo.cls(ca)
            if ci is not None and ci.is_dataclass and fm is None:
                # dataclass equality: same class and field-wise equality
                conds = []
                for cb in b.classes:
                    if cb == ca:
                        fs = [f for f, _ in ci.dataclass_fields]
                        eqs = [self.py_eq(st, self.get_field(st, VObj(a.t, (ca,)), f), self.get_field(st, VObj(b.t, (cb,)), f)) for f in fs]
                        conds.append(z3.And(cls_of(b.t) == self.cls_id(cb), *eqs))
                r = z3.Or(*conds) if conds else z3.BoolVal(False)
            elif fm is None:
                r = a.t == b.t
            else:
                cinfo, fn = fm
                r = self.pure_call(st, fn, cinfo, [VObj(a.t, (ca,)), b])
                r = self.truth(st, r)
            terms.append((ca, r))
        res = terms[-1][1]
        for ca, r in reversed(terms[:-1]):
            res = z3.If(cls_of(a.t) == self.cls_id(ca), r, res)
        return res

    def obj_lt(self, st, op, a: VObj, b: VObj):
        name = {ast.Lt: '__lt__', ast.Gt: '__gt__', ast.LtE: '__le__', ast.GtE: '__ge__'}[type(op)]
        terms = []
        for ca in a.classes:
            fm = self.repo.find_method(ca, name)
            if fm is None:
                raise Unsupported(f"{ca} has no {name}")
            cinfo, fn = fm
            r = self.truth(st, self.pure_call(st, fn, cinfo, [VObj(a.t, (ca,)), b]))
            terms.append((ca, r))
        res = terms[-1][1]
        for ca, r in reversed(terms[:-1]):
            res = z3.If(cls_of(a.t) == self.cls_id(ca), r, res)
        return res

    def contains(self, st, container, x) -> z3.BoolRef:
        """x in container (Python semantics: identity or ==), container a list or a membership-only set"""
        from .builtins_ import VSetOf
        if isinstance(container, VSetOf):
            container = container.inner
        from .symex2 import VDictKeys
        if isinstance(container, VDictKeys):
            container = container.d
        if isinstance(container, VDict):
            return container.has(self.dict_key(st, container, x))
        if isinstance(container, (VListRef, VList)):
            l = st.lst(container)
            k = z3.Int(fresh_name('ink'))
            el = l.at(k)
            if isinstance(x, VObj) and isinstance(el, VObj):
                eq = z3.Or(el.t == x.t, self.obj_eq(st, el, x))
            else:
                eq = self.py_eq(st, el, x)
            return z3.Exists([k], z3.And(0 <= k, k < l.n, eq))
        raise Unsupported("`in` on non-list")

    def ev_Attribute(self, node, st):
        for s, base in self.ev(node.value, st):
            yield from self.getattr_(s, base, node.attr, node)

    def ev_Tuple(self, node, st):
        s, items = st, []
        for e in node.elts:
            s, v = self.ev1(e, s)
            items.append(v)
        yield s, VTuple(tuple(items))

    def ev_Lambda(self, node, st):
        yield st, VFunc('lambda', (node, st.cur))

    def ev_NamedExpr(self, node, st):
        outs = list(self.ev(node.value, st))
        if len(outs) != 1:
            outs = self.merge(st, outs)          # bind in the merged state: a binding made in a forked state would be lost by a later merge
        s, v = outs[0]
        s.bind(node.target.id, v)
        yield s, v

    def ev_JoinedStr(self, node, st):
        # f-strings are outside the modelled subset: an opaque string determined by its parts
        s, parts = st, []
        for p in node.values:
            if isinstance(p, ast.FormattedValue):
                s, v = self.ev1(p.value, s)
                parts.append(v)
        self.assumptions.add('f-string formatting is an injective function of its arguments (strings are opaque)')
        f = z3.Function(f'fstr@{node.lineno}:{node.col_offset}', *[c.sort() for p in parts for c in p.cols()], Ref)
        args = [c for p in parts for c in p.cols()]
        yield s, VObj(f(*args), ('str',))


@dataclass(frozen=True)
class VFloatInf(V):
    """math.inf (only ever negated)"""
    pass
