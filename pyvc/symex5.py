"""Loops: assert the invariant on entry, havoc what the body may modify, assume invariant ∧ guard,
execute the body once, assert the invariant again; the code after the loop continues from
invariant ∧ ¬guard (and from every `break`)."""
from __future__ import annotations

import ast
from typing import List, Set, Tuple

import z3

from .kinds import *
from .state import State
from .engine import Unsupported
from .symex4 import NORMAL
from .dsl import Loop

LIST_MUTATORS = {'append', 'pop', 'insert', 'extend', 'clear', 'remove', 'sort', 'reverse'}


class LoopMixin:
    # ------------------------------------------------------------------ modified-set analysis
    def modset(self, stmts: List[ast.AST], st: State):
        names: Set[str] = set()
        fields: Set[Tuple[str, str]] = set()
        lists: Set[Tuple[str, ...]] = set()
        yields = [False]
        seen = set()
        cls = st.frame.cls

        def path_of(e):
            if isinstance(e, ast.Name):
                return (e.id,)
            if isinstance(e, ast.Attribute) and isinstance(e.value, ast.Name):
                return (e.value.id, e.attr)
            if isinstance(e, ast.Subscript) and isinstance(e.value, ast.Name) and isinstance(e.slice, ast.Constant) and isinstance(e.slice.value, str):
                return (e.value.id, ('key', e.slice.value))        # a list held in a record (dict with constant string keys)
            return None

        def store(t, ren):
            if isinstance(t, ast.Name):
                if not ren:
                    names.add(t.id)
            elif isinstance(t, (ast.Tuple, ast.List)):
                for e in t.elts:
                    store(e.value if isinstance(e, ast.Starred) else e, ren)
            elif isinstance(t, ast.Attribute):
                p = path_of(t)
                if p is None:
                    raise Unsupported("attribute store through a compound receiver inside a loop")
                base = ren.get(p[0], p[0]) if ren else p[0]
                if base is not None:
                    fields.add((base, p[1]))
            elif isinstance(t, ast.Subscript):
                p = path_of(t.value)
                if p is None:
                    raise Unsupported("subscript store through a compound receiver inside a loop")
                p = (ren.get(p[0], None),) + p[1:] if ren else p
                if p[0] is not None:
                    lists.add(p)

        def walk(nodes, ren):
            for top in nodes:
                for n in ast.walk(top):
                    if isinstance(n, ast.Assign):
                        for t in n.targets:
                            store(t, ren)
                    elif isinstance(n, (ast.AugAssign, ast.AnnAssign)):
                        store(n.target, ren)
                    elif isinstance(n, ast.NamedExpr):
                        store(n.target, ren)
                    elif isinstance(n, (ast.For, ast.comprehension)):
                        if isinstance(n, ast.For):
                            store(n.target, ren)
                    elif isinstance(n, (ast.Yield, ast.YieldFrom)):
                        if not ren:
                            yields[0] = True
                    elif isinstance(n, ast.Call) and isinstance(n.func, ast.Name) and n.func.id == 'next' \
                            and n.args and isinstance(n.args[0], ast.Name):
                        if not ren:
                            names.add(n.args[0].id)
                    elif isinstance(n, ast.Call) and isinstance(n.func, ast.Attribute):
                        if n.func.attr in LIST_MUTATORS:
                            p = path_of(n.func.value)
                            if p is not None:
                                p = (ren.get(p[0], None),) + p[1:] if ren else p
                                if p[0] is not None:
                                    lists.add(p)
                            elif not isinstance(n.func.value, (ast.Call, ast.Constant, ast.JoinedStr)):
                                # a receiver the analysis cannot name (x.y.z.append, rows[i].append): whether it is a list that outlives the loop
                                # is unknown, so nothing may be assumed about any list after the loop
                                raise Unsupported(f"list mutator .{n.func.attr} through a compound receiver inside a loop")
                        recv = n.func.value
                        if isinstance(recv, ast.Name) and cls is not None:
                            base = ren.get(recv.id, None) if ren else recv.id
                            v = st.lookup(base) if base else None
                            if isinstance(v, VObj):
                                for c in v.classes:
                                    fm = self.repo.find_method(c, n.func.attr) if self.repo.cls(c) else None
                                    if fm is None:
                                        continue
                                    ci, fn = fm
                                    if self.spec_for(fn, ci.module, ci) is not None and not self._inlined(fn, ci):
                                        continue
                                    if (ci.name, fn.name) in seen or not fn.args.args:
                                        continue
                                    seen.add((ci.name, fn.name))
                                    walk(fn.body, {fn.args.args[0].arg: base})

        walk(stmts, {})
        return names, fields, lists, yields[0]

    def _inlined(self, fn, ci):
        top = self.top_spec
        qn = self.qualname(fn, ci)
        return top is not None and (qn in top.inline or '*' in top.inline)

    def havoc_value(self, st, v, name, kinds):
        if name in kinds:
            k = kinds[name]
            nv = k.fresh('hv_' + name)
            if isinstance(nv, VList):
                nv = VList(nv.elem, nv.arrs, z3.IntVal(0), nv.n)       # fresh contents: offset 0 w.l.o.g.
                st.assume(*self.wf(nv, st))
                if isinstance(v, VListRef):
                    st.lists[v.lid] = nv
                    return v
                return st.new_list(nv)
            st.assume(*self.wf(nv, st))
            return nv
        if isinstance(v, VListRef):
            old = st.lists[v.lid]
            if old.elem is NONE and not old.arrs:
                raise Unsupported(f"loop modifies list '{name}' whose element kind is unknown at loop entry: "
                                  f"declare it in Loop.kinds")
            nl = self.fresh_list(old.elem, 'hv_' + name)
            st.lists[v.lid] = nl
            st.assume(*self.wf(nl, st))
            return v
        if isinstance(v, VNone):
            raise Unsupported(f"loop assigns '{name}' which is None at loop entry: declare its kind in Loop.kinds")
        if isinstance(v, (VInt, VReal, VBool, VExt, VObj, VEnum, VOpt, VTuple, VRaw)):
            nv = v.kind.fresh('hv_' + name)
            st.assume(*self.wf(nv, st))
            return nv
        if isinstance(v, (VFunc, VStr)):
            return v
        if isinstance(v, VIter):
            l, pos = st.iters[v.iid]
            np_ = z3.Int(fresh_name('hv_itpos'))
            st.assume(0 <= np_, np_ <= l.n)
            st.iters[v.iid] = (l, np_)
            return v
        raise Unsupported(f"cannot havoc '{name}' of shape {type(v).__name__}")

    def havoc(self, st: State, body_nodes, loop: Loop, extra_names=()):
        names, fields, lists, yields = self.modset(body_nodes, st)
        names |= set(extra_names)
        kinds = getattr(loop, 'kinds', None) or {}
        spec = st.frame.spec
        gnames = (set(self.top_spec.ghost.keys()) - set(self.top_spec.ghost_frozen)) if self.top_spec is not None else set()
        tenv = st.frames[self.top_frame].env if self.top_frame in st.frames else {}
        for g in sorted(gnames):
            if g in tenv:
                tenv[g] = self.havoc_value(st, tenv[g], g, kinds)
        for n in sorted(names - gnames - (set(self.top_spec.ghost_frozen) if self.top_spec is not None else set())):
            v = st.lookup(n)
            if v is None:
                if n in kinds:
                    st.bind(n, self.havoc_value(st, None, n, kinds))
                continue
            nv = self.havoc_value(st, v, n, kinds)
            self._frame_of(st, n).env[n] = nv
        for base, f in sorted(fields):
            o = st.lookup(base)
            if not isinstance(o, VObj):
                raise Unsupported(f"loop stores to {base}.{f} but {base} is not an object")
            cur = self.get_field(st, o, f)
            self.set_field(st, o, f, self.havoc_value(st, cur, f"{base}.{f}", kinds))
        for p in sorted(lists):
            v = st.lookup(p[0])
            if v is None:
                continue
            if len(p) == 2 and isinstance(p[1], tuple):
                if not isinstance(v, VRecord) or v.get(p[1][1]) is None:
                    raise Unsupported("list mutation through a subscript of something else than a record")
                v = v.get(p[1][1])
                rk = kinds.get(p[0])
                if isinstance(rk, RECORD) and f"{p[0]}[{p[1][1]}]" not in kinds:
                    kinds = dict(kinds, **{f"{p[0]}[{p[1][1]}]": dict(rk.fields)[p[1][1]]})
                p = (f"{p[0]}[{p[1][1]}]",)
            elif len(p) == 2:
                if not isinstance(v, VObj):
                    raise Unsupported("list mutation through a non-object")
                v = self.get_field(st, v, p[1])
            if isinstance(v, VListRef):
                self.havoc_value(st, v, '.'.join(p), kinds)
        if yields and '@out' in st.frame.env:
            ref = st.frame.env['@out']
            old = st.lists[ref.lid]
            ek = old.elem
            if ek is NONE and not old.arrs:
                if spec is not None and spec.yields is not None and st.cur == self.top_frame:
                    ek = spec.yields
                elif '@out' in kinds:
                    ek = kinds['@out']
                else:
                    raise Unsupported("loop yields but the element kind of the output is unknown (spec.yields)")
            nl = self.fresh_list(ek, 'hv_out')
            st.lists[ref.lid] = nl
            st.assume(*self.wf(nl, st))

    # ------------------------------------------------------------------ loop specs
    def loop_spec(self, st, node) -> Tuple[str, Loop]:
        lid = node._site
        fr = st.frame
        key = lid if st.cur == self.top_frame else f"{fr.label}:{lid}"
        top = self.top_spec
        if top is not None and key in top.loops:
            return key, top.loops[key]
        return key, None

    def precoerce(self, st, loop: Loop):
        """variables whose kind is declared in Loop.kinds take that shape already at loop entry (None -> OPT ...)"""
        for name, kind in (loop.kinds or {}).items():
            if name.startswith('@') or '.' in name:
                continue
            v = st.lookup(name)
            if v is None:
                continue
            if isinstance(v, VRecord) and isinstance(kind, RECORD):
                for (fname, fkind), (vname, item) in zip(kind.fields, v.items):
                    if fname == vname and isinstance(item, VListRef) and isinstance(fkind, LIST):
                        l = st.lists[item.lid]
                        if l.elem is NONE and not l.arrs and z3.is_int_value(z3.simplify(l.n)) and z3.simplify(l.n).as_long() == 0:
                            st.lists[item.lid] = self.fresh_list(fkind.elem, 'empty', n=z3.IntVal(0))
                continue
            if isinstance(v, VListRef):
                l = st.lists[v.lid]
                if isinstance(kind, LIST) and l.elem != kind.elem:
                    if l.elem is NONE and not l.arrs and z3.is_int_value(z3.simplify(l.n)) and z3.simplify(l.n).as_long() == 0:
                        st.lists[v.lid] = self.fresh_list(kind.elem, 'empty', n=z3.IntVal(0))
                    else:
                        st.lists[v.lid] = self.coerce_list(st, l, kind.elem)
                continue
            cv = self.coerce(st, v, kind)
            if cv is not None:
                self._frame_of(st, name).env[name] = cv

    def check_inv(self, st, loop: Loop, key: str, phase: str):
        self.precoerce(st, loop)
        L = self.local_ctx(st)
        object.__setattr__(L, 'proving', True)
        for name, term in loop.inv(L):
            self.check(st, term, f"{phase}[{key}]::{name}", phase)

    def assume_inv(self, st, loop: Loop):
        L = self.local_ctx(st)
        for name, term in loop.inv(L):
            st.assume(term)

    # ------------------------------------------------------------------ while
    def ex_While(self, node, st):
        key, loop = self.loop_spec(st, node)
        if node.orelse:
            raise Unsupported("while-else")
        if loop is None:
            raise Unsupported(f"loop {key} has no invariant in the contract")
        self.check_inv(st, loop, key, 'inv_init')
        self.havoc(st, node.body + [node.test], loop)
        self.assume_inv(st, loop)
        s0, c = self.ev1(node.test, st)
        t = self.truth(s0, c)
        s_exit = s0.fork()
        s_exit.assume(z3.Not(t))
        self.narrow(s_exit, node.test, False)
        s0.assume(t)
        self.narrow(s0, node.test, True)
        r = self.check_sat(s0, f"vacuity[{key}]::inv_and_guard_satisfiable")
        if r != 'unsat':
            for s, flow in self.exec_block(node.body, s0):
                if flow is NORMAL or flow[0] == 'continue':
                    self.check_inv(s, loop, key, 'inv_preserve')
                    self.stats['paths'] += 1
                elif flow[0] == 'break':
                    yield s, NORMAL
                else:
                    yield s, flow
        if self.feasible(s_exit):
            yield s_exit, NORMAL

    # ------------------------------------------------------------------ for
    def ex_For(self, node, st):
        key, loop = self.loop_spec(st, node)
        if node.orelse:
            raise Unsupported("for-else")
        for s, src in self.ev(node.iter, st):
            yield from self._for(node, s, src, key, loop)

    def _for(self, node, st, src, key, loop):
        it = self.iterable(st, src)
        n = z3.simplify(it.n)
        idxname = '@' + key.split(':')[-1]
        # statically short loops are unrolled
        if (loop is None or loop.unroll) and z3.is_int_value(n) and n.as_long() <= (loop.unroll if loop and loop.unroll else 4):
            yield from self._unroll(node, st, it, n.as_long(), 0)
            return
        if loop is None:
            raise Unsupported(f"loop {key} has no invariant in the contract")
        st.assume(*it.facts)
        st.bind(idxname, VInt(z3.IntVal(0)))
        self.check_inv(st, loop, key, 'inv_init')
        tnames = [x.id for x in ast.walk(node.target) if isinstance(x, ast.Name)]
        self.havoc(st, node.body, loop, extra_names=tnames)
        i = z3.Int(fresh_name('i_' + key))
        st.bind(idxname, VInt(i))
        st.assume(0 <= i, i <= n)
        self.assume_inv(st, loop)
        s_exit = st.fork()
        s_exit.assume(i >= n)
        st.assume(i < n)
        r = self.check_sat(st, f"vacuity[{key}]::inv_and_guard_satisfiable")
        if r != 'unsat':
            x = it.at(i)
            st.assume(*self.wf(x, st))
            self.bind_target_general(st, node.target, x) if isinstance(node.target, (ast.Tuple, ast.List)) \
                else self.assign(st, node.target, x)
            for s, flow in self.exec_block(node.body, st):
                if flow is NORMAL or flow[0] == 'continue':
                    s.bind(idxname, VInt(z3.simplify(i + 1)))
                    self.check_inv(s, loop, key, 'inv_preserve')
                    self.stats['paths'] += 1
                elif flow[0] == 'break':
                    yield s, NORMAL
                else:
                    yield s, flow
        if self.feasible(s_exit):
            yield s_exit, NORMAL

    def _unroll(self, node, st, it, n, k):
        if k >= n:
            yield st, NORMAL
            return
        x = it.at(z3.IntVal(k))
        if isinstance(node.target, (ast.Tuple, ast.List)):
            self.bind_target_general(st, node.target, x)
        else:
            self.assign(st, node.target, x)
        for s, flow in self.exec_block(node.body, st):
            if flow is NORMAL or flow[0] == 'continue':
                yield from self._unroll(node, s, it, n, k + 1)
            elif flow[0] == 'break':
                yield s, NORMAL
            else:
                yield s, flow
