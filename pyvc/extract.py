"""Mechanical extraction of the real source: parse /repo's files with `ast` on every run and index
modules, classes (with bases, methods, decorators) and functions.  Nothing is cached between runs.

What extraction drops (no semantic content for the obligations): type annotations, docstrings,
imports (used only for name resolution), __repr__ bodies, decorators other than
@staticmethod/@property/@dataclass/@abstractmethod.  Everything else is symbolically executed as written.
"""
from __future__ import annotations

import ast
import hashlib
import os
from dataclasses import dataclass, field
from typing import Dict, List, Optional, Tuple


class ExtractError(Exception):
    pass


@dataclass
class ClassInfo:
    name: str
    module: 'ModuleInfo'
    node: ast.ClassDef
    bases: List[str]
    methods: Dict[str, ast.FunctionDef]
    decorators: Dict[str, List[str]]          # method name -> decorator names
    is_dataclass: bool
    dataclass_fields: List[Tuple[str, Optional[ast.expr]]]   # (name, default expr)
    class_attrs: Dict[str, ast.expr]


@dataclass
class ModuleInfo:
    path: str            # repo-relative path
    tree: ast.Module
    source: str
    imports: Dict[str, Tuple[str, Optional[str]]] = field(default_factory=dict)  # local name -> (module dotted, attr or None)
    classes: Dict[str, ClassInfo] = field(default_factory=dict)
    functions: Dict[str, ast.FunctionDef] = field(default_factory=dict)
    assigns: Dict[str, ast.expr] = field(default_factory=dict)


def _decorator_names(fn: ast.FunctionDef) -> List[str]:
    out = []
    for d in fn.decorator_list:
        if isinstance(d, ast.Name):
            out.append(d.id)
        elif isinstance(d, ast.Attribute):
            out.append(d.attr)
        elif isinstance(d, ast.Call):
            f = d.func
            out.append(f.id if isinstance(f, ast.Name) else getattr(f, 'attr', '?'))
    return out


class Repo:
    def __init__(self, root: str):
        self.root = root
        self.modules: Dict[str, ModuleInfo] = {}
        self.class_index: Dict[str, ClassInfo] = {}
        # index every module of the code base (class hierarchy and imports are global facts)
        for top in ('src', 'sv'):
            for dirpath, _, files in os.walk(os.path.join(root, top)):
                for f in sorted(files):
                    if f.endswith('.py'):
                        rel = os.path.relpath(os.path.join(dirpath, f), root)
                        try:
                            self.module(rel)
                        except ExtractError:
                            pass

    # ------------------------------------------------------------------ loading
    def module(self, relpath: str) -> ModuleInfo:
        if relpath in self.modules:
            return self.modules[relpath]
        full = os.path.join(self.root, relpath)
        if not os.path.isfile(full):
            raise ExtractError(f"source file vanished: {relpath}")
        with open(full, encoding='utf-8') as f:
            src = f.read()
        try:
            tree = ast.parse(src, filename=relpath)
        except SyntaxError as e:
            raise ExtractError(f"cannot parse {relpath}: {e}")
        mi = ModuleInfo(relpath, tree, src)
        self.modules[relpath] = mi
        for node in tree.body:
            if isinstance(node, ast.ImportFrom) and node.module:
                for a in node.names:
                    mi.imports[a.asname or a.name] = (node.module, a.name)
            elif isinstance(node, ast.Import):
                for a in node.names:
                    mi.imports[a.asname or a.name.split('.')[0]] = (a.name, None)
            elif isinstance(node, ast.ClassDef):
                ci = self._class_info(node, mi)
                mi.classes[node.name] = ci
                self.class_index.setdefault(node.name, ci)
            elif isinstance(node, ast.FunctionDef):
                mi.functions[node.name] = node
            elif isinstance(node, ast.Assign) and len(node.targets) == 1:
                t = node.targets[0]
                if isinstance(t, ast.Name):
                    mi.assigns[t.id] = node.value
                elif isinstance(t, ast.Attribute) and isinstance(t.value, ast.Name):
                    mi.assigns[f"{t.value.id}.{t.attr}"] = node.value
        return mi

    def _class_info(self, node: ast.ClassDef, mi: ModuleInfo) -> ClassInfo:
        bases = []
        for b in node.bases:
            if isinstance(b, ast.Name):
                bases.append(b.id)
            elif isinstance(b, ast.Attribute):
                bases.append(b.attr)
        methods, decos, dfields, cattrs = {}, {}, [], {}
        for item in node.body:
            if isinstance(item, ast.FunctionDef):
                methods[item.name] = item
                decos[item.name] = _decorator_names(item)
            elif isinstance(item, ast.AnnAssign) and isinstance(item.target, ast.Name):
                dfields.append((item.target.id, item.value))
                if item.value is not None:
                    cattrs[item.target.id] = item.value
            elif isinstance(item, ast.Assign) and len(item.targets) == 1 and isinstance(item.targets[0], ast.Name):
                cattrs[item.targets[0].id] = item.value
        is_dc = any((isinstance(d, ast.Name) and d.id == 'dataclass') or
                    (isinstance(d, ast.Call) and getattr(d.func, 'id', '') == 'dataclass')
                    for d in node.decorator_list)
        return ClassInfo(node.name, mi, node, bases, methods, decos, is_dc, dfields, cattrs)

    def module_by_dotted(self, dotted: str) -> Optional[ModuleInfo]:
        rel = dotted.replace('.', '/') + '.py'
        if os.path.isfile(os.path.join(self.root, rel)):
            return self.module(rel)
        rel2 = os.path.join('sv', dotted + '.py')
        if os.path.isfile(os.path.join(self.root, rel2)):
            return self.module(rel2)
        return None

    # ------------------------------------------------------------------ classes
    def cls(self, name: str, frm: Optional[ModuleInfo] = None) -> Optional[ClassInfo]:
        if frm is not None:
            if name in frm.classes:
                return frm.classes[name]
            if name in frm.imports:
                mod, attr = frm.imports[name]
                m = self.module_by_dotted(mod)
                if m is not None and attr in m.classes:
                    return m.classes[attr]
        return self.class_index.get(name)

    def mro(self, name: str) -> List[ClassInfo]:
        """C3 linearisation over the classes defined in the repository (external bases such as ABC,
        NamedTuple, Enum are ignored)."""
        def lin(n):
            ci = self.cls(n)
            if ci is None:
                return []
            seqs = [lin(b) for b in ci.bases if self.cls(b) is not None]
            seqs.append([b for b in ci.bases if self.cls(b) is not None])
            res = [n]
            seqs = [list(s) for s in seqs if s]
            while seqs:
                for s in seqs:
                    h = s[0]
                    if not any(h in t[1:] for t in seqs):
                        break
                else:
                    raise ExtractError(f"inconsistent MRO for {name}")
                res.append(h)
                seqs = [[x for x in t if x != h] for t in seqs]
                seqs = [t for t in seqs if t]
            return res

        return [self.cls(n) for n in lin(name)]

    def find_method(self, cls: str, meth: str) -> Optional[Tuple[ClassInfo, ast.FunctionDef]]:
        for ci in self.mro(cls):
            if meth in ci.methods:
                return ci, ci.methods[meth]
        return None

    def is_subclass(self, cls: str, base: str) -> bool:
        return any(ci.name == base for ci in self.mro(cls))

    def mangle(self, name: str, cls: Optional[str]) -> str:
        return name

    # ------------------------------------------------------------------ functions
    def find_function(self, relpath: str, qualname: str):
        mi = self.module(relpath)
        parts = qualname.split('.')
        if len(parts) == 1:
            if parts[0] not in mi.functions:
                raise ExtractError(f"function {qualname} not found in {relpath}")
            return mi.functions[parts[0]], mi, None
        cname, mname = parts[0], parts[1]
        if cname not in mi.classes:
            raise ExtractError(f"class {cname} not found in {relpath}")
        ci = mi.classes[cname]
        if mname not in ci.methods:
            raise ExtractError(f"method {qualname} not found in {relpath}")
        return ci.methods[mname], mi, ci

    @staticmethod
    def fn_hash(fn: ast.AST) -> str:
        return hashlib.sha256(ast.dump(fn, include_attributes=False).encode()).hexdigest()[:16]

    def file_hash(self, relpath: str) -> str:
        with open(os.path.join(self.root, relpath), 'rb') as f:
            return hashlib.sha256(f.read()).hexdigest()[:16]

    def mutable_fields(self, cls: str) -> set:
        """fields of `cls` assigned (self.x = / self.x op=) outside __init__ anywhere in its MRO"""
        out = set()
        for ci in self.mro(cls):
            for mname, fn in ci.methods.items():
                if mname == '__init__':
                    continue
                args = fn.args.args
                if not args or 'staticmethod' in ci.decorators.get(mname, []):
                    continue
                selfname = args[0].arg
                for n in ast.walk(fn):
                    tgts = []
                    if isinstance(n, ast.Assign):
                        tgts = n.targets
                    elif isinstance(n, (ast.AugAssign, ast.AnnAssign)):
                        tgts = [n.target]
                    for t in tgts:
                        for tt in ast.walk(t):
                            if isinstance(tt, ast.Attribute) and isinstance(tt.value, ast.Name) \
                                    and tt.value.id == selfname and isinstance(tt.ctx, ast.Store):
                                out.add(tt.attr)
        return out
