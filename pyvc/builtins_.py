"""Assumed contracts of Python builtins / itertools / math used by the verified functions (Tier T).

Each contract is stated once here; the names actually used in a run are recorded in
engine.assumptions and end up in the evidence.  The contracts are exercised against CPython by
pyvc/selfcheck.py (reference implementations compared with the real functions on enumerated inputs).
"""
from __future__ import annotations

import ast
from dataclasses import dataclass
from typing import Callable

import z3

from .kinds import *
from .engine import Unsupported, cls_of

BUILTINS = {'len', 'abs', 'min', 'max', 'sum', 'any', 'all', 'list', 'iter', 'next', 'sorted', 'range',
            'enumerate', 'zip', 'isinstance', 'map', 'reversed', 'round', 'set', 'frozenset'}


@dataclass(frozen=True)
class VSetOf(V):
    """a set/frozenset known only through membership: x in s  <=>  x == some element of `inner` (a list value).
    Elements must be value-compared scalars (int, float, bool, str, tuples of those); iteration order, len and mutation
    are outside the modelled subset."""
    inner: V


@dataclass(frozen=True)
class VEnumerate(V):
    inner: V
    start: z3.ArithRef


@dataclass(frozen=True)
class VZip(V):
    items: tuple


class VGroups(V):
    """result of itertools.groupby(S, key) over a list S: runs S[b(g):b(g+1)], g in [0,G)"""
    def __init__(self, S: VList, G, b, keyterm: Callable, engine):
        self.S, self.G, self.b, self.keyterm, self.e = S, G, b, keyterm, engine

    def key_at(self, g):
        return self.keyterm(self.S.at(self.b(g)))

    def group_at(self, g):
        S = self.S
        return VList(S.elem, S.arrs, z3.simplify(S.off + self.b(g)), z3.simplify(self.b(g + 1) - self.b(g)))


def zabs(x):
    return z3.If(x >= 0, x, -x)


def _materialize(e, st, v):
    """turn any iterable value into a VList"""
    from .symex2 import VGen
    if isinstance(v, VListRef):
        return st, st.lists[v.lid]
    if isinstance(v, VList):
        return st, v
    if isinstance(v, VGen):
        node = v.node
        comp = ast.ListComp(elt=node.elt, generators=node.generators)
        ast.copy_location(comp, node)
        saved = st.cur
        st.cur = v.fid
        outs = list(e.comprehension(comp, st))
        s, r = outs[0]
        s.cur = saved
        return s, s.lists[r.lid]
    if isinstance(v, VIter):
        l, pos = st.iters[v.iid]
        st.iters[v.iid] = (l, l.n)
        return st, VList(l.elem, l.arrs, z3.simplify(l.off + pos), z3.simplify(l.n - pos))
    if isinstance(v, (VRange, VEnumerate, VZip, VGroups)):
        it = e.iterable(st, v)
        k = z3.Int(fresh_name('mk'))
        x = it.at(k)
        if isinstance(x, VListRef):
            x = st.lists[x.lid]
        r = e.fresh_list(x.kind, 'mat', n=it.n)
        eqs = [z3.Select(ra, k) == c for ra, c in zip(r.arrs, x.cols())]
        if eqs:
            st.assume(z3.ForAll([k], z3.Implies(z3.And(0 <= k, k < it.n), z3.And(*eqs)),
                                patterns=[z3.Select(r.arrs[0], k)]))
        return st, r
    raise Unsupported(f"cannot materialise {type(v).__name__} as a list")


def apply_pure(e, st, fv, args):
    """apply a callable inside a quantified context; must be side-effect free; outcomes are merged"""
    outs = list(e.call(st, fv, list(args), {}, None))
    outs = e.merge(st, outs)
    s, v = outs[0]
    return v


def key_term(e, st, keyf, x):
    """numeric key of element x under key function keyf (None = the element itself)"""
    if keyf is None or isinstance(keyf, VNone):
        return x
    return apply_pure(e, st, keyf, [x])


def call_builtin(e, st, name, args, kwargs, node):
    from .symex2 import VGen, VExc
    h = globals().get('bi_' + name.replace('.', '_'))
    if h is None:
        raise Unsupported(f"builtin/library function {name} has no assumed contract")
    res = h(e, st, args, kwargs, node)
    if hasattr(res, '__next__'):
        yield from res
    else:
        yield res


def _value_hashed(k):
    if isinstance(k, TUPLE):
        return all(_value_hashed(x) for x in k.items)
    return k in (INT, REAL, BOOL, STR, NONE)


def make_set(e, st, lst):
    l = st.lst(lst)
    n0 = z3.simplify(l.n)
    if not (z3.is_int_value(n0) and n0.as_long() == 0) and not _value_hashed(l.elem):
        raise Unsupported(f"set of {l.elem} (only value-hashed scalars are modelled)")
    return VSetOf(lst)


def bi_set(e, st, args, kw, node):
    if not args:
        return st, VSetOf(st.new_list(VList(NONE, (), z3.IntVal(0), z3.IntVal(0))))
    s, v = bi_list(e, st, args, kw, node)
    return s, make_set(e, s, v)


bi_frozenset = bi_set


# ---------------------------------------------------------------------------------------------- simple
def bi_len(e, st, args, kw, node):
    v = args[0]
    if isinstance(v, (VListRef, VList)):
        return st, VInt(st.lst(v).n)
    if isinstance(v, VTuple):
        return st, VInt(z3.IntVal(len(v.items)))
    if isinstance(v, (VRange, VEnumerate, VZip)):
        return st, VInt(e.iterable(st, v).n)
    if isinstance(v, VDict):
        e.add_background(('dict', str(v.t)), z3.And(*v.axioms()))
        return st, VInt(v.n)
    raise Unsupported(f"len of {type(v).__name__}")


def bi_abs(e, st, args, kw, node):
    v = args[0]
    if isinstance(v, VInt):
        return st, VInt(zabs(v.t))
    if isinstance(v, VReal):
        return st, VReal(zabs(v.t))
    raise Unsupported("abs of non-number")


def _minmax(e, st, args, kw, node, is_min):
    if len(args) >= 2:
        acc = args[0]
        for b in args[1:]:
            a2, b2 = unify_num(acc, b)
            if isinstance(a2, VExt):
                raise Unsupported("min/max over extended reals")
            c = (e.num(a2) <= e.num(b2)) if is_min else (e.num(a2) >= e.num(b2))
            acc = ite_val(c, a2, b2)        # python returns the first on ties
        return st, acc
    # over an iterable, optional key / default
    st, l = _materialize(e, st, args[0])
    keyf = kw.get('key')
    default = kw.get('default')
    e.assumptions.add(('min' if is_min else 'max') + '(iterable, key): an element with extremal key, the first such')
    site = e.site(st, 'call')
    if default is None:
        e.check(st, l.n >= 1, f"safety[{site}]::{'min' if is_min else 'max'}_of_nonempty", 'safety')
    # quantified over ABSOLUTE indices T of the base array (patterns free of arithmetic)
    M = z3.Int(fresh_name('argM'))
    T = z3.Int(fresh_name('mT'))
    base = VList(l.elem, l.arrs, z3.IntVal(0), l.n)
    e.qvars.append(T)
    try:
        kk = e.num(key_term(e, st, keyf, base.at(T)))
    finally:
        e.qvars.pop()
    km = z3.substitute(kk, (T, M))
    lo, hi = l.off, l.off + l.n
    facts = [lo <= M, M < hi,
             z3.ForAll([T], z3.Implies(z3.And(lo <= T, T < hi), km <= kk if is_min else km >= kk),
                       patterns=[z3.Select(l.arrs[0], T)]),
             z3.ForAll([T], z3.Implies(z3.And(lo <= T, T < M), km < kk if is_min else km > kk),
                       patterns=[z3.Select(l.arrs[0], T)])]
    m = z3.simplify(M - l.off)
    e.last_argm = m
    e.last_argM = M
    st.notes['last_argM'] = M
    if default is None:
        st.assume(*facts)
        return st, base.at(M)
    st.assume(z3.Implies(l.n >= 1, z3.And(*facts)))
    return st, ite_val(l.n >= 1, base.at(M), default)


def bi_min(e, st, args, kw, node):
    return _minmax(e, st, args, kw, node, True)


def bi_max(e, st, args, kw, node):
    return _minmax(e, st, args, kw, node, False)


def bi_isinstance(e, st, args, kw, node):
    x, c = args

    def names(c):
        if isinstance(c, VTuple):
            out = []
            for i in c.items:
                out += names(i)
            return out
        if isinstance(c, VFunc) and c.tag in ('class', 'builtin'):
            return [c.data[0]]
        raise Unsupported("isinstance class argument")

    cs = names(c)

    def test(x):
        if isinstance(x, VObj):
            return e.isinstance_term(x, cs)
        if isinstance(x, VBool):
            return z3.BoolVal(any(n in ('int', 'bool') for n in cs))
        if isinstance(x, VInt):
            return z3.BoolVal('int' in cs)
        if isinstance(x, VReal):
            return z3.BoolVal('float' in cs)
        if isinstance(x, VNone):
            return z3.BoolVal(False)
        if isinstance(x, VOpt):
            return z3.And(z3.Not(x.none), test(x.val))
        if isinstance(x, VTuple):
            return z3.BoolVal('tuple' in cs or 'Sized' in cs)
        if isinstance(x, (VListRef, VList)):
            return z3.BoolVal('list' in cs or 'Sized' in cs)
        if isinstance(x, VStr):
            return z3.BoolVal('str' in cs)
        if isinstance(x, VFunc) and all(e.repo.cls(n) is not None for n in cs):
            return z3.BoolVal(False)             # a function / property / class object is not an instance of a repository class
        raise Unsupported(f"isinstance on {type(x).__name__}")

    return st, VBool(test(x))


def bi_range(e, st, args, kw, node):
    if len(args) == 1:
        return st, VRange(z3.IntVal(0), e.num(args[0]))
    if len(args) == 2:
        return st, VRange(e.num(args[0]), e.num(args[1]))
    raise Unsupported("range with step")


def bi_enumerate(e, st, args, kw, node):
    start = e.num(args[1]) if len(args) > 1 else z3.IntVal(0)
    return st, VEnumerate(args[0], start)


@dataclass(frozen=True)
class VZipStar(V):
    """zip(*rows) over a list of k-tuples: yields k sequences if the list is non-empty, NOTHING if it is empty"""
    rows: VList


def bi_zip(e, st, args, kw, node):
    if '*' in kw:
        if args:
            raise Unsupported("zip(x, *rest)")
        st, l = _materialize(e, st, kw['*'])
        if not isinstance(l.elem, TUPLE):
            raise Unsupported("zip(*rows) over rows that are not tuples")
        e.assumptions.add('zip(*rows): transposition of a list of equal-length tuples; yields nothing for an empty list')
        return st, VZipStar(l)
    return st, VZip(tuple(args))


def bi_list(e, st, args, kw, node):
    if not args:
        return st, st.new_list(VList(NONE, (), z3.IntVal(0), z3.IntVal(0)))
    st, l = _materialize(e, st, args[0])
    return st, st.new_list(l)


def bi_iter(e, st, args, kw, node):
    st, l = _materialize(e, st, args[0])
    iid = len(st.iters) + 1 + max(list(st.iters) + [0])
    st.iters[iid] = (l, z3.IntVal(0))
    return st, VIter(iid)


def bi_itertools_tee(e, st, args, kw, node):
    """itertools.tee(iterable[, n=2]): n independent iterators over the same sequence"""
    if len(args) > 1 or kw:
        raise Unsupported("itertools.tee with an explicit count")
    e.assumptions.add('itertools.tee(xs): two independent iterators over the elements of xs, in order')
    st, l = _materialize(e, st, args[0])
    out = []
    for _ in range(2):
        iid = len(st.iters) + 1 + max(list(st.iters) + [0])
        st.iters[iid] = (l, z3.IntVal(0))
        out.append(VIter(iid))
    return st, VTuple(tuple(out))


def bi_next(e, st, args, kw, node):
    from .symex2 import VGen
    it = args[0]
    if isinstance(it, (VGen, VList, VListRef)):
        # a generator expression, or a groupby group (an iterator over a run): the first element is taken
        st, l = _materialize(e, st, it)
        pos = z3.IntVal(0)
        iid = None
    elif isinstance(it, VIter):
        l, pos = st.iters[it.iid]
        iid = it.iid
    else:
        raise Unsupported("next() on a non-iterator")
    site = e.site(st, 'call')
    if len(args) == 1:
        e.check(st, pos < l.n, f"safety[{site}]::next_on_nonexhausted_iterator", 'safety')
        if iid is not None:
            st.iters[iid] = (l, z3.simplify(pos + 1))
        return st, l.at(pos)
    default = args[1]
    has = pos < l.n
    if iid is not None:
        st.iters[iid] = (l, z3.simplify(z3.If(has, pos + 1, pos)))
    return st, ite_val(has, l.at(pos), default)


def bi_sum(e, st, args, kw, node):
    from .symex2 import VGen
    src = args[0]
    if len(args) > 1:
        raise Unsupported("sum with start")
    e.assumptions.add('sum(iterable): left-to-right sum, tied to a prefix-sum function Pf(0)=0, Pf(t+1)=Pf(t)+x[t]')
    if isinstance(src, VGen):
        gnode = src.node
        if len(gnode.generators) != 1:
            raise Unsupported("sum over nested generators")
        g = gnode.generators[0]
        saved = st.cur
        st.cur = src.fid
        st, base = e.ev1(g.iter, st)
        st.cur = saved
        st, l = _materialize(e, st, base)
        if g.ifs and isinstance(gnode.elt, ast.Constant) and gnode.elt.value == 1:
            # sum(1 for x in xs if c): a counting function
            return _count(e, st, l, g, gnode, src.fid)
        if g.ifs:
            raise Unsupported("filtered sum")
        return st, VReal(e.psum(st, l, gnode.elt, g.target, src.fid)) if True else None
    st, l = _materialize(e, st, src)
    return st, e.num_kind(l.elem)(e.psum(st, l, None, None, st.cur))


def _count(e, st, l, g, gnode, fid):
    key = ('cnt', tuple(a.sexpr() for a in l.arrs), ast.dump(g.ifs[0]), ast.dump(g.target))
    Cf = e.count_fn(st, l, g, fid, key)
    return st, VInt(Cf(l.off + l.n) - Cf(l.off))


def bi_any(e, st, args, kw, node):
    st, l = _materialize(e, st, args[0])
    k = z3.Int(fresh_name('ak'))
    return st, VBool(z3.Exists([k], z3.And(0 <= k, k < l.n, e.truth(st, l.at(k)))))


def bi_all(e, st, args, kw, node):
    st, l = _materialize(e, st, args[0])
    k = z3.Int(fresh_name('ak'))
    return st, VBool(z3.ForAll([k], z3.Implies(z3.And(0 <= k, k < l.n), e.truth(st, l.at(k)))))


def bi_int(e, st, args, kw, node):
    v = args[0]
    if isinstance(v, VInt):
        return st, v
    if isinstance(v, VBool):
        return st, VInt(z3.If(v.t, 1, 0))
    if isinstance(v, VReal):
        # truncation toward zero
        t = v.t
        return st, VInt(z3.If(t >= 0, z3.ToInt(t), -z3.ToInt(-t)))
    raise Unsupported("int() of this value")


def bi_float(e, st, args, kw, node):
    v = args[0]
    if isinstance(v, VInt):
        return st, VReal(z3.ToReal(v.t))
    if isinstance(v, VReal):
        return st, v
    raise Unsupported("float() of this value")


def bi_statistics_fmean(e, st, args, kw, node):
    """statistics.fmean(xs): ASSUMED to lie between the smallest and the largest element of a non-empty sequence (StatisticsError on an empty one)"""
    st, l = _materialize(e, st, args[0])
    site = e.site(st, 'call')
    e.assumptions.add('statistics.fmean(xs): a value between min(xs) and max(xs); requires a non-empty sequence')
    e.check(st, l.n >= 1, f"safety[{site}]::fmean_of_nonempty", 'safety')
    r = z3.Real(fresh_name('fmean'))
    k = z3.Int(fresh_name('fk'))
    x = e.num(l.at(k))
    lo, hi = z3.Real(fresh_name('fmean.lo')), z3.Real(fresh_name('fmean.hi'))
    st.assume(z3.ForAll([k], z3.Implies(z3.And(0 <= k, k < l.n), z3.And(lo <= x, x <= hi)), patterns=[z3.Select(l.arrs[0], l.off + k)]),
              z3.Exists([k], z3.And(0 <= k, k < l.n, x == lo)), z3.Exists([k], z3.And(0 <= k, k < l.n, x == hi)), lo <= r, r <= hi)
    return st, VReal(r)


def bi_math_ceil(e, st, args, kw, node):
    v = args[0]
    e.assumptions.add('math.ceil(x) of a float-computed quotient equals the exact ceiling (operands below 2^53)')
    if isinstance(v, VInt):
        return st, v
    t = v.t
    return st, VInt(z3.If(z3.ToReal(z3.ToInt(t)) == t, z3.ToInt(t), z3.ToInt(t) + 1))


bi_ceil = bi_math_ceil


def bi_map(e, st, args, kw, node):
    f, src = args[0], args[1]
    st, l = _materialize(e, st, src)
    k = z3.Int(fresh_name('mk'))
    sc = st.fork()
    sc.assume(0 <= k, k < l.n)
    n0 = len(sc.pc)
    e.qvars.append(k)
    try:
        y = apply_pure(e, sc, f, [l.at(k)])
    finally:
        e.qvars.pop()
    facts = sc.pc[n0:]
    if isinstance(y, VListRef):
        y = sc.lists[y.lid]
    r = e.fresh_list(y.kind, 'map', n=l.n)
    eqs = [z3.Select(ra, k) == c for ra, c in zip(r.arrs, y.cols())]
    st.assume(z3.ForAll([k], z3.Implies(z3.And(0 <= k, k < l.n), z3.And(*(eqs + facts))),
                        patterns=[z3.Select(r.arrs[0], k)]))
    return st, st.new_list(r)


@dataclass(frozen=True)
class VZipLongest(V):
    """result of zip_longest(*rows, fillvalue=c): M tuples, tuple k = cells[k][0 .. nrows) (a list value at offset 0: no arithmetic in its element terms)"""
    elem: Kind
    cells: Any
    M: Any
    nrows: Any

    def at(self, k):
        return VList(self.elem, (z3.Select(self.cells, k),), z3.IntVal(0), self.nrows)


def bi_itertools_zip_longest(e, st, args, kw, node):
    """itertools.zip_longest(*rows, fillvalue=c): ASSUMED to yield, for k below the greatest row length, the tuple of the rows' k-th elements with c
    standing in where a row is exhausted; nothing for no rows.  Result: a list (length M) of lists (length = number of rows)."""
    if args or '*' not in kw:
        raise Unsupported("zip_longest other than zip_longest(*rows, fillvalue=c)")
    st, rows = _materialize(e, st, kw['*'])
    if not isinstance(rows.elem, LIST) or len(rows.elem.elem.cols()) != 1:
        raise Unsupported("zip_longest over rows that are not lists of scalars")
    fill = kw.get('fillvalue')
    if fill is None:
        raise Unsupported("zip_longest without fillvalue")
    e.assumptions.add('itertools.zip_longest(*rows, fillvalue=c): k-th tuple = the rows\' k-th elements, c where a row is exhausted; length = the greatest row length')
    ek = rows.elem.elem
    fillv = e.coerce(st, fill, ek)
    if fillv is None:
        raise Unsupported("zip_longest fill value of another kind than the elements")
    M = z3.Int(fresh_name('zl.len'))
    srt = ek.cols()[0][1]
    A_arr = z3.Const(fresh_name('zl.cells'), z3.ArraySort(z3.IntSort(), z3.ArraySort(z3.IntSort(), srt)))
    k, j = z3.Int(fresh_name('zk')), z3.Int(fresh_name('zj'))
    row = lambda jj: rows.at(jj)                      # VList value of row jj
    st.assume(M >= 0, z3.Implies(rows.n == 0, M == 0),
              z3.ForAll([j], z3.Implies(z3.And(0 <= j, j < rows.n), row(j).n <= M), patterns=[row(j).n]),
              z3.Implies(rows.n > 0, z3.Exists([j], z3.And(0 <= j, j < rows.n, row(j).n == M))),
              z3.ForAll([k, j], z3.Implies(z3.And(0 <= k, k < M, 0 <= j, j < rows.n),
                                           z3.Select(z3.Select(A_arr, k), j) == z3.If(k < row(j).n, row(j).at(k).cols()[0], fillv.cols()[0])),
                        patterns=[z3.Select(z3.Select(A_arr, k), j)]))
    st.notes['last_zip_longest'] = dict(cells=A_arr, M=M, rows=rows)
    return st, VZipLongest(ek, A_arr, M, rows.n)


bi_zip_longest = bi_itertools_zip_longest


def _np_list(e, st, v):
    st, l = _materialize(e, st, v)
    return st, l


def bi_numpy_ones(e, st, args, kw, node):
    n = e.num(args[0])
    r = e.fresh_list(REAL, 'ones', n=z3.If(n > 0, n, 0))
    k = z3.Int(fresh_name('onk'))
    st.assume(z3.ForAll([k], z3.Implies(z3.And(0 <= k, k < r.n), z3.Select(r.arrs[0], k) == 1), patterns=[z3.Select(r.arrs[0], k)]))
    return st, st.new_list(r)


def bi_numpy_sum(e, st, args, kw, node):
    """np.sum(a): ASSUMED the sum of the elements (tied to the same prefix-sum function as sum())"""
    st, l = _materialize(e, st, args[0])
    e.assumptions.add('numpy.sum(a): the sum of the elements')
    return st, VReal(z3.ToReal(e.psum(st, l, None, None, st.cur)) if l.elem is INT else e.psum(st, l, None, None, st.cur))


def bi_numpy_max(e, st, args, kw, node):
    """np.max(a): ASSUMED an element that is >= every element; ValueError on an empty array"""
    st, l = _materialize(e, st, args[0])
    site = e.site(st, 'call')
    e.assumptions.add('numpy.max(a): the largest element; requires a non-empty array')
    e.check(st, l.n >= 1, f"safety[{site}]::max_of_nonempty_array", 'safety')
    m = z3.Real(fresh_name('npmax'))
    k = z3.Int(fresh_name('mxk'))
    x = e.num(l.at(k))
    st.assume(z3.ForAll([k], z3.Implies(z3.And(0 <= k, k < l.n), m >= x), patterns=[z3.Select(l.arrs[0], l.off + k)]),
              z3.Exists([k], z3.And(0 <= k, k < l.n, m == x)))
    return st, VReal(m)


def bi_scipy_signal_correlate(e, st, args, kw, node):
    """scipy.signal.correlate(a, b, mode='valid'): ASSUMED an array of len(a) - len(b) + 1 values when a is at least as long as b (values unconstrained:
    floating-point FFT numerics are outside the verifier)"""
    st, a = _materialize(e, st, args[0])
    st, b = _materialize(e, st, args[1])
    mode = kw.get('mode')
    if not (isinstance(mode, VStr) and mode.s == 'valid'):
        raise Unsupported("correlate in a mode other than 'valid'")
    e.assumptions.add("scipy.signal.correlate(a, b, mode='valid'): len(a) - len(b) + 1 values for len(a) >= len(b) >= 1; the values themselves are not modelled")
    r = e.fresh_list(REAL, 'corr')
    st.assume(r.n >= 0, z3.Implies(z3.And(a.n >= b.n, b.n >= 1), r.n == a.n - b.n + 1))
    return st, st.new_list(r)


def bi_scipy_signal_find_peaks(e, st, args, kw, node):
    """scipy.signal.find_peaks(x, ...): ASSUMED (positions, properties): strictly increasing indices into x and one entry per peak in each property array"""
    st, x = _materialize(e, st, args[0])
    e.assumptions.add('scipy.signal.find_peaks(x, ...): strictly increasing indices into x; properties peak_heights / left_ips / right_ips with one entry per peak')
    P = e.fresh_list(INT, 'peaks')
    k, k2 = z3.Int(fresh_name('fpk')), z3.Int(fresh_name('fpk2'))
    p = lambda i: z3.Select(P.arrs[0], i)
    st.assume(P.n >= 0, P.n <= x.n,
              z3.ForAll([k], z3.Implies(z3.And(0 <= k, k < P.n), z3.And(0 <= p(k), p(k) < x.n)), patterns=[p(k)]),
              z3.ForAll([k, k2], z3.Implies(z3.And(0 <= k, k < k2, k2 < P.n), p(k) < p(k2)), patterns=[MP(p(k), p(k2))]))
    props = []
    for name in ('peak_heights', 'left_ips', 'right_ips'):
        a = e.fresh_list(REAL, 'fp_' + name, n=P.n)
        props.append((name, a))
    return st, VTuple((P, VRecord(tuple(props))))


def bi_warnings_simplefilter(e, st, args, kw, node):
    return st, VNone()


def bi_numpy_argpartition(e, st, args, kw, node):
    """np.argpartition(a, kth): ASSUMED a permutation p of 0..n-1 with a[p[i]] <= a[p[kth]] <= a[p[j]] for i < kth < j; requires 0 <= kth < n"""
    st, a = _materialize(e, st, args[0])
    kth = e.num(args[1])
    site = e.site(st, 'call')
    e.assumptions.add('numpy.argpartition(a, kth): a permutation p of the indices with a[p[i]] <= a[p[kth]] <= a[p[j]] for i < kth < j; requires 0 <= kth < len(a)')
    e.check(st, z3.And(0 <= kth, kth < a.n), f"safety[{site}]::argpartition::kth_in_range", 'safety')
    n = a.n
    P = e.fresh_list(INT, 'argpart', n=n)
    inv = z3.Function(fresh_name('apinv'), z3.IntSort(), z3.IntSort())
    i, j = z3.Int(fresh_name('api')), z3.Int(fresh_name('apj'))
    p = lambda x: z3.Select(P.arrs[0], x)
    val = lambda x: e.num(a.at(x))
    st.assume(z3.ForAll([i], z3.Implies(z3.And(0 <= i, i < n), z3.And(0 <= p(i), p(i) < n, inv(p(i)) == i)), patterns=[p(i)]),
              z3.ForAll([j], z3.Implies(z3.And(0 <= j, j < n), z3.And(0 <= inv(j), inv(j) < n, p(inv(j)) == j)), patterns=[inv(j)]),
              z3.ForAll([i], z3.Implies(z3.And(0 <= i, i < kth), val(p(i)) <= val(p(kth))), patterns=[p(i)]),
              z3.ForAll([j], z3.Implies(z3.And(kth < j, j < n), val(p(kth)) <= val(p(j))), patterns=[p(j)]))
    st.notes['last_argpartition'] = dict(P=P, inv=inv, kth=kth, a=a)
    return st, st.new_list(P)


def bi_numpy_arange(e, st, args, kw, node):
    """np.arange(n): 0, 1, ..., n-1"""
    if len(args) != 1:
        raise Unsupported("numpy.arange with start / step")
    n = e.num(args[0])
    r = e.fresh_list(INT, 'arange', n=z3.If(n > 0, n, 0))
    k = z3.Int(fresh_name('ark'))
    st.assume(z3.ForAll([k], z3.Implies(z3.And(0 <= k, k < r.n), z3.Select(r.arrs[0], k) == k), patterns=[z3.Select(r.arrs[0], k)]))
    return st, st.new_list(r)


def bi_numpy_array(e, st, args, kw, node):
    """np.array(list of numbers): ASSUMED to hold the same elements in the same order (indexing, len and iteration as for the list)"""
    st, l = _materialize(e, st, args[0])
    e.assumptions.add('numpy.array(xs): the same elements in the same order')
    return st, st.new_list(l)


def bi_p_tqdm_p_imap(e, st, args, kw, node):
    """p_tqdm.p_imap(f, items, num_cpus=None, disable=...): ASSUMED to return f(x) for every item, in input order, for every worker count;
    a process pool needs at least one worker (multiprocessing.Pool raises ValueError otherwise): precondition on num_cpus"""
    e.assumptions.add('p_tqdm.p_imap(f, items, num_cpus): the results f(x) in input order for every worker count; requires num_cpus None or >= 1')
    nc = kw.get('num_cpus')
    if nc is not None and not isinstance(nc, VNone):
        site = e.site(st, 'call')
        if isinstance(nc, VOpt):
            cond = z3.Or(nc.none, e.num(nc.val) >= 1)
        else:
            cond = e.num(nc) >= 1
        e.check(st, cond, f"safety[{site}]::p_imap::worker_count_none_or_at_least_one", 'safety')
    return bi_map(e, st, args[:2], {}, node)


# ---------------------------------------------------------------------------------------------- itertools
def _first_failing(e, st, pred, l, name):
    """c = number of leading elements satisfying pred (facts quantified over absolute indices)"""
    c = z3.Int(fresh_name(name))
    T = z3.Int(fresh_name('tT'))
    base = VList(l.elem, l.arrs, z3.IntVal(0), l.n)
    sc = st.fork()
    sc.assume(l.off <= T, T < l.off + l.n)
    e.qvars.append(T)
    try:
        p = e.truth(sc, apply_pure(e, sc, pred, [base.at(T)]))
    finally:
        e.qvars.pop()
    st.assume(0 <= c, c <= l.n,
              z3.ForAll([T], z3.Implies(z3.And(l.off <= T, T < l.off + c), p), patterns=[z3.Select(l.arrs[0], T)]),
              z3.Implies(c < l.n, z3.Not(z3.substitute(p, (T, z3.simplify(l.off + c))))))
    return c, (lambda a: z3.substitute(p, (T, z3.simplify(l.off + a))))


def bi_itertools_takewhile(e, st, args, kw, node):
    pred, src = args
    st, l = _materialize(e, st, src)
    e.assumptions.add('itertools.takewhile(p, xs): the prefix of xs before the first element falsifying p')
    c, p = _first_failing(e, st, pred, l, 'tw')
    e.last_takewhile = dict(c=c, pred=p, src=l)
    st.notes['last_takewhile'] = e.last_takewhile
    return st, st.new_list(VList(l.elem, l.arrs, l.off, c))


bi_takewhile = bi_itertools_takewhile


def bi_itertools_dropwhile(e, st, args, kw, node):
    pred, src = args
    st, l = _materialize(e, st, src)
    e.assumptions.add('itertools.dropwhile(p, xs): the suffix of xs from the first element falsifying p')
    c, p = _first_failing(e, st, pred, l, 'dw')
    e.last_dropwhile = dict(c=c, pred=p, src=l)
    st.notes['last_dropwhile'] = e.last_dropwhile
    return st, st.new_list(VList(l.elem, l.arrs, z3.simplify(l.off + c), z3.simplify(l.n - c)))


bi_dropwhile = bi_itertools_dropwhile


def bi_itertools_chain(e, st, args, kw, node):
    e.assumptions.add('itertools.chain(a, b, ...): concatenation')
    st, acc = _materialize(e, st, args[0])
    for a in args[1:]:
        st, l = _materialize(e, st, a)
        acc = e.concat(st, acc, l)
    return st, st.new_list(acc)


bi_chain = bi_itertools_chain


def bi_sorted(e, st, args, kw, node):
    st, X = _materialize(e, st, args[0])
    X = e.copy0(st, X)
    keyf = kw.get('key')
    rev = kw.get('reverse')
    reverse = False
    if rev is not None:
        t = z3.simplify(e.truth(st, rev))
        if not (z3.is_true(t) or z3.is_false(t)):
            raise Unsupported("sorted with symbolic reverse flag")
        reverse = z3.is_true(t)
    e.assumptions.add('sorted(xs, key, reverse): a stable ordered permutation of xs (equal keys keep input order, also with reverse=True)')
    n = X.n
    S = e.fresh_list(X.elem, 'sorted', n=n)
    pi = z3.Function(fresh_name('pi'), z3.IntSort(), z3.IntSort())
    pinv = z3.Function(fresh_name('pinv'), z3.IntSort(), z3.IntSort())
    i, j = z3.Int(fresh_name('si')), z3.Int(fresh_name('sj'))
    sel = lambda L, k: [z3.Select(a, L.off + k) for a in L.arrs]
    eq_cols = lambda a, b: z3.And(*[x == y for x, y in zip(a, b)])
    st.assume(z3.ForAll([i], z3.Implies(z3.And(0 <= i, i < n),
                                        z3.And(0 <= pi(i), pi(i) < n, eq_cols(sel(S, i), sel(X, pi(i))), pinv(pi(i)) == i)),
                        patterns=[pi(i), z3.Select(S.arrs[0], S.off + i)]))
    st.assume(z3.ForAll([j], z3.Implies(z3.And(0 <= j, j < n),
                                        z3.And(0 <= pinv(j), pinv(j) < n, pi(pinv(j)) == j, eq_cols(sel(S, pinv(j)), sel(X, j)))),
                        patterns=[pinv(j), z3.Select(X.arrs[0], X.off + j)]))
    # ordering
    sc = st.fork()
    sc.assume(0 <= i, i < n, 0 <= j, j < n)
    e.qvars.extend([i, j])
    try:
        if keyf is not None and not isinstance(keyf, VNone):
            ki = key_term(e, sc, keyf, S.at(i))
            kj = key_term(e, sc, keyf, S.at(j))
            if isinstance(ki, VObj):
                raise Unsupported("sorted key returning objects")
            ki, kj = e.num(ki), e.num(kj)
            le = (ki >= kj) if reverse else (ki <= kj)
            eqk = ki == kj
        else:
            a, b = S.at(i), S.at(j)
            if isinstance(a, VObj):
                lt_ba = e.obj_lt(sc, ast.Lt(), b, a)
                lt_ab = e.obj_lt(sc, ast.Lt(), a, b)
                le = z3.Not(lt_ab) if reverse else z3.Not(lt_ba)
                eqk = z3.And(z3.Not(lt_ab), z3.Not(lt_ba))
            else:
                ki, kj = e.num(a), e.num(b)
                le = (ki >= kj) if reverse else (ki <= kj)
                eqk = ki == kj
    finally:
        del e.qvars[-2:]
    pat = MP(z3.Select(S.arrs[0], S.off + i), z3.Select(S.arrs[0], S.off + j))
    st.assume(z3.ForAll([i, j], z3.Implies(z3.And(0 <= i, i <= j, j < n), le), patterns=[pat]))
    st.assume(z3.ForAll([i, j], z3.Implies(z3.And(0 <= i, i < j, j < n, eqk), pi(i) < pi(j)),
                        patterns=[MP(pi(i), pi(j))]))
    st.assume(*e.wf(S, st))
    e.last_sorted = dict(S=S, X=X, pi=pi, pinv=pinv)
    e.sorted_log.append(e.last_sorted)
    st.notes['last_sorted'] = e.last_sorted
    st.notes['sorted_log'] = st.notes.get('sorted_log', ()) + (e.last_sorted,)
    return st, st.new_list(S)


def bi_itertools_groupby(e, st, args, kw, node):
    st, S = _materialize(e, st, args[0])
    keyf = args[1] if len(args) > 1 else kw.get('key')
    e.assumptions.add('itertools.groupby(S, key): maximal runs of consecutive equal keys, in order')
    n = S.n
    G = z3.Int(fresh_name('G'))
    b = z3.Function(fresh_name('gb'), z3.IntSort(), z3.IntSort())
    grp = z3.Function(fresh_name('grp'), z3.IntSort(), z3.IntSort())
    g, h, t = z3.Int(fresh_name('g')), z3.Int(fresh_name('h')), z3.Int(fresh_name('t'))
    sc = st.fork()
    sc.assume(0 <= t, t < n, 0 <= g, g < G, 0 <= b(g), b(g) < n, 0 <= b(g + 1), b(g + 1) <= n)

    def keyterm(x):
        v = key_term(e, sc, keyf, x)
        return v

    def kt(idx):
        return e.num(keyterm(S.at(idx)))

    e.qvars.extend([g, t])
    try:
        kS_t, kS_bg = kt(t), kt(b(g))
        kS_bg1 = kt(b(g + 1))
    finally:
        del e.qvars[-2:]
    selS = lambda k: z3.Select(S.arrs[0], S.off + k)
    st.assume(G >= 0, b(0) == 0, b(G) == n, z3.Implies(n == 0, G == 0), z3.Implies(n > 0, G > 0),
              z3.ForAll([g, h], z3.Implies(z3.And(0 <= g, g < h, h <= G), b(g) < b(h)),
                        patterns=[MP(b(g), b(h))]),
              z3.ForAll([g], z3.Implies(z3.And(0 <= g, g <= G), z3.And(0 <= b(g), b(g) <= n)), patterns=[b(g)]),
              z3.ForAll([t], z3.Implies(z3.And(0 <= t, t < n),
                                        z3.And(0 <= grp(t), grp(t) < G, b(grp(t)) <= t, t < b(grp(t) + 1))),
                        patterns=[grp(t)]),
              z3.ForAll([g, t], z3.Implies(z3.And(0 <= g, g < G, b(g) <= t, t < b(g + 1)),
                                           z3.And(kS_t == kS_bg, grp(t) == g)),
                        patterns=[MP(b(g), selS(t))]),
              # maximality: neighbouring runs have different keys
              z3.ForAll([g], z3.Implies(z3.And(0 <= g, g + 1 < G), kS_bg != kS_bg1), patterns=[b(g + 1)]))
    vg = VGroups(S, G, b, keyterm, e)
    vg.grp = grp
    e.last_groupby = vg
    e.groupby_log.append(vg)
    st.notes['last_groupby'] = vg
    st.notes['groupby_log'] = st.notes.get('groupby_log', ()) + (vg,)
    return st, vg


bi_groupby = bi_itertools_groupby


# ---------------------------------------------------------------------------------------------- list methods
def bi_TextIO_close(e, st, args, kw, node):
    e.assumptions.add('file.close() returns None and changes nothing the verified code reads')
    return st, VNone()


def call_dictmeth(e, st, d: VDict, name, args, node, kwargs=None):
    from .symex2 import VDictKeys
    e.add_background(('dict', str(d.t)), z3.And(*d.axioms()))
    e.assumptions.add('dicts given as arguments are only read (has / get / insertion-ordered key and value tables, keys compared by value)')
    if name == 'keys' and not args:
        yield st, VDictKeys(d)
    elif name == 'values' and not args:
        yield st, st.freeze(st.new_list(d.values_list()))
    elif name == 'items' and not args:
        yield st, VZip((st.freeze(st.new_list(d.keys_list())), st.freeze(st.new_list(d.values_list()))))
    elif name == 'get' and len(args) in (1, 2):
        key = e.dict_key(st, d, args[0])
        dflt = args[1] if len(args) == 2 else VNone()
        got = d.get(key)
        if isinstance(got, VList):
            raise Unsupported("dict.get of a list value")
        yield st, ite_val(d.has(key), got, dflt) if not isinstance(dflt, VNone) else VOpt(z3.Not(d.has(key)), got)
    else:
        raise Unsupported(f"dict method {name}")


def call_listmeth(e, st, ref: VListRef, name, args, node, kwargs=None):
    if st.is_frozen(ref) and name in ('append', 'pop', 'insert', 'extend', 'clear', 'remove', 'sort', 'reverse'):
        raise Unsupported(f"list.{name} on a list held in a read-only dict")
    l = st.lists[ref.lid]
    site = e.site(st, 'call')
    if name == 'append':
        v = args[0]
        if isinstance(v, VListRef):
            v = st.lists[v.lid]
        if l.elem is NONE and not l.arrs:
            l = e.fresh_list(v.kind, 'lst', n=z3.IntVal(0))
        cv = e.coerce(st, v, l.elem)
        if cv is None:
            nk = e.join2(l.elem, v.kind)
            l = e.coerce_list(st, l, nk)
            cv = e.coerce(st, v, nk)
        st.lists[ref.lid] = e.list_append(l, cv)
        yield st, VNone()
    elif name == 'pop':
        if args:
            raise Unsupported("list.pop(i)")
        e.safety(st, l.n >= 1, f"safety[{site}]::pop_from_nonempty")
        x = l.at(z3.simplify(l.n - 1))
        st.lists[ref.lid] = VList(l.elem, l.arrs, l.off, z3.simplify(l.n - 1))
        yield st, x
    elif name == 'insert':
        idx, v = args
        i = z3.simplify(e.num(idx))
        if not (z3.is_int_value(i) and i.as_long() == 0):
            raise Unsupported("list.insert at an index other than 0")
        if isinstance(v, VListRef):
            v = st.lists[v.lid]
        one = e.list_of(st, [v])
        if l.elem is NONE and not l.arrs:
            st.lists[ref.lid] = one
        else:
            st.lists[ref.lid] = e.concat(st, e.coerce(st, one, LIST(l.elem)) or one, l)
        yield st, VNone()
    elif name == 'extend':
        st2, other = _materialize(e, st, args[0])
        st.lists[ref.lid] = e.concat(st, l, other)
        yield st, VNone()
    elif name == 'max':
        # numpy array method a.max(initial=c): ASSUMED at least c and at least every element
        e.assumptions.add('numpy array.max(initial=c): a value >= c and >= every element')
        init = (kwargs or {}).get('initial')
        if args or init is None:
            raise Unsupported("array.max() without initial=")
        m = z3.Real(fresh_name('amax'))
        k = z3.Int(fresh_name('mxk'))
        st.assume(m >= z3.ToReal(e.num(init)) if z3.is_int(e.num(init)) else m >= e.num(init),
                  z3.ForAll([k], z3.Implies(z3.And(0 <= k, k < l.n), m >= e.num(l.at(k))), patterns=[z3.Select(l.arrs[0], l.off + k)]))
        yield st, VReal(m)
    elif name == 'index':
        x = args[0]
        e.assumptions.add('list.index(x): the first index whose element == x; ValueError if none')
        k = z3.Int(fresh_name('ix'))
        m = z3.Int(fresh_name('ixr'))
        eqk = e.py_eq(st, l.at(k), x)
        e.check(st, z3.Exists([k], z3.And(0 <= k, k < l.n, eqk)), f"safety[{site}]::index_of_present_value", 'safety',
                assume_after=False)
        st.assume(0 <= m, m < l.n, z3.substitute(eqk, (k, m)),
                  z3.ForAll([k], z3.Implies(z3.And(0 <= k, k < m), z3.Not(eqk))))
        yield st, VInt(m)
    else:
        raise Unsupported(f"list method {name}")


def bi_str_join(e, st, args, kw, node):
    """sep.join(xs) for a constant separator: an opaque function of the list of strings (strings are not modelled)"""
    st, l = _materialize(e, st, args[0])
    e.assumptions.add('str.join: an (uninterpreted) function of the sequence of strings; "" for the empty sequence')
    if not l.arrs:
        return st, VStr('')
    f = z3.Function('str_join', l.arrs[0].sort(), z3.IntSort(), z3.IntSort(), Ref)
    r = VObj(f(l.arrs[0], l.off, l.n), ('str',))
    st.assume(z3.Implies(l.n == 0, r.t == e.str_const('').t))
    # a join whose first element is a non-empty string is non-empty
    st.assume(z3.Implies(z3.And(l.n >= 1, z3.Select(l.arrs[0], l.off) != e.str_const('').t), r.t != e.str_const('').t))
    return st, r


def bi_itertools_chain_from_iterable(e, st, args, kw, node):
    """chain.from_iterable(xs): concatenation of the iterables; modelled as a list of the common element kind whose
    length and contents are otherwise unconstrained here (callers needing more use a contract)"""
    from .symex2 import VGen
    src = args[0]
    e.assumptions.add('itertools.chain.from_iterable: order-preserving concatenation of the inner iterables')
    if isinstance(src, VGen):
        # chain.from_iterable(f(x) for x in xs): order-preserving concatenation of the inner iterables; element j of the result is element pi(j) of
        # the inner iterable of outer index ci(j); what the inner expression guarantees (e.g. a callee's postcondition) holds for every outer index
        g = src.node.generators[0]
        if len(src.node.generators) != 1 or g.ifs:
            raise Unsupported("chain.from_iterable over a filtered or nested generator")
        saved = st.cur
        st.cur = src.fid
        st2, outer = e.ev1(g.iter, st)
        it = e.iterable(st2, outer)
        k = z3.Int(fresh_name('cf'))
        sc = st2.fork()
        sc.assume(0 <= k, k < it.n)
        n0 = len(sc.pc)
        e.qvars.append(k)
        try:
            e.bind_target(sc, g.target, it.at(k))
            sc, inner = e.ev1(src.node.elt, sc)
        finally:
            e.qvars.pop()
        st.cur = saved
        inner = sc.lst(inner)
        facts = [f for f in sc.pc[n0:]]
        ek = inner.elem
        m = z3.Int(fresh_name('flat.len'))
        r = e.fresh_list(ek, 'chained', n=m)
        ci = z3.Function(fresh_name('ci'), z3.IntSort(), z3.IntSort())
        pi = z3.Function(fresh_name('pi'), z3.IntSort(), z3.IntSort())
        j, j2 = z3.Int(fresh_name('fj')), z3.Int(fresh_name('fj2'))
        sub = lambda t, x: z3.substitute(t, (k, x))
        inn_n = lambda x: sub(inner.n, x)
        inn_at = lambda x, y: [sub(c, x) for c in VList(inner.elem, inner.arrs, inner.off, inner.n).at(y).cols()]
        st.assume(m >= 0)
        body = [0 <= ci(j), ci(j) < it.n, 0 <= pi(j), pi(j) < inn_n(ci(j))] + \
               [z3.Select(ra, j) == c for ra, c in zip(r.arrs, inn_at(ci(j), pi(j)))] + [sub(f, ci(j)) for f in facts]
        st.assume(z3.ForAll([j], z3.Implies(z3.And(0 <= j, j < m), z3.And(*body)), patterns=[z3.Select(r.arrs[0], j), ci(j)] if r.arrs else [ci(j)]))
        st.assume(z3.ForAll([j, j2], z3.Implies(z3.And(0 <= j, j < j2, j2 < m), z3.Or(ci(j) < ci(j2), z3.And(ci(j) == ci(j2), pi(j) < pi(j2)))),
                            patterns=[MP(ci(j), ci(j2))]))
        st.assume(*e.wf(r, st))
        st.notes['last_flatten'] = dict(ci=ci, pi=pi, m=m, n0=it.n, r=r, outer_at=it.at)
        st.lists.update({i: v for i, v in sc.lists.items() if i not in st.lists})
        return st, st.new_list(r)
    if isinstance(src, (VListRef, VList)) and isinstance(st.lst(src).elem, LIST):
        # a list of lists: order-preserving flattening described by ghost index maps ci(j), pi(j) (outer / inner index of element j)
        # and their inverse pos(a, b), exactly as for a nested comprehension
        L = st.lst(src)
        ek = L.elem.elem
        m = z3.Int(fresh_name('flat.len'))
        r = e.fresh_list(ek, 'flat', n=m)
        ci = z3.Function(fresh_name('ci'), z3.IntSort(), z3.IntSort())
        pi = z3.Function(fresh_name('pi'), z3.IntSort(), z3.IntSort())
        pos = z3.Function(fresh_name('pos'), z3.IntSort(), z3.IntSort(), z3.IntSort())
        j, j2, a, b = (z3.Int(fresh_name(x)) for x in ('fj', 'fj2', 'fa', 'fb'))
        inner = lambda x: L.at(x)
        inn = inner(ci(j))
        eqs = [z3.Select(ra, j) == c for ra, c in zip(r.arrs, inn.at(pi(j)).cols())]
        st.assume(m >= 0)
        st.assume(z3.ForAll([j], z3.Implies(z3.And(0 <= j, j < m), z3.And(0 <= ci(j), ci(j) < L.n, 0 <= pi(j), pi(j) < inn.n, pos(ci(j), pi(j)) == j, *eqs)),
                            patterns=[z3.Select(r.arrs[0], j), ci(j)] if r.arrs else [ci(j)]))
        st.assume(z3.ForAll([a, b], z3.Implies(z3.And(0 <= a, a < L.n, 0 <= b, b < inner(a).n),
                                               z3.And(0 <= pos(a, b), pos(a, b) < m, ci(pos(a, b)) == a, pi(pos(a, b)) == b)), patterns=[pos(a, b)]))
        st.assume(z3.ForAll([j, j2], z3.Implies(z3.And(0 <= j, j < j2, j2 < m), z3.Or(ci(j) < ci(j2), z3.And(ci(j) == ci(j2), pi(j) < pi(j2)))),
                            patterns=[MP(ci(j), ci(j2))]))
        st.assume(*e.wf(r, st))
        st.notes['last_flatten'] = dict(ci=ci, pi=pi, pos=pos, m=m, n0=L.n, n1=lambda x: inner(x).n, r=r, src=L)
        e.assumptions.add('itertools.chain.from_iterable(list of lists): order-preserving concatenation')
        return st, st.new_list(r)
    raise Unsupported("chain.from_iterable over this argument")


bi_chain_from_iterable = bi_itertools_chain_from_iterable
