"""Engine base: obligations, solver interface, object model (class tags, field functions, heap)."""
from __future__ import annotations

import subprocess
import tempfile
import time
import os
from dataclasses import dataclass, field
from typing import Dict, List, Optional, Tuple

import z3

from .kinds import *
from .state import State, new_id
from .extract import Repo


class Unsupported(Exception):
    """the function left the modelled subset (checker cannot apply, never a violation)"""


class NeedsContract(Unsupported):
    pass


@dataclass
class Obligation:
    oid: str
    kind: str
    status: str                 # discharged | refuted | unknown
    backend: str
    time_s: float
    model: Optional[str] = None
    model_vals: Optional[dict] = None
    smt2: Optional[str] = None


cls_of = z3.Function('cls_of', Ref, z3.IntSort())


def _has_quantifier(f) -> bool:
    seen = set()
    stack = [f]
    while stack:
        x = stack.pop()
        if z3.is_quantifier(x):
            return True
        i = x.get_id()
        if i in seen:
            continue
        seen.add(i)
        stack.extend(x.children())
    return False


class EngineBase:
    def __init__(self, repo: Repo, schema: Dict[str, Dict[str, Kind]], specs: Dict[str, object],
                 timeout_ms: int = 10000, use_cvc5: bool = True, both: bool = False):
        self.repo = repo
        self.schema = schema
        self.specs = specs                   # fid -> FunctionSpec
        self.timeout_ms = timeout_ms
        self.use_cvc5 = use_cvc5
        self.both = both
        self.background: List[z3.BoolRef] = []
        self._bg_keys = set()
        self.obligations: List[Obligation] = []
        self._cls_ids: Dict[str, int] = {}
        self._field_fns: Dict[tuple, list] = {}
        self.assumptions: set = set()        # names of assumed library contracts / encodings actually used
        self.stats = {'feasibility_checks': 0, 'paths': 0}
        self.current_fid = ''
        self.sat_checks: List[Tuple[str, str]] = []
        self.keep_smt2 = 3
        self.track_models = True

    # ---------------------------------------------------------------- background axioms
    def add_background(self, key, axiom):
        if key in self._bg_keys:
            return
        self._bg_keys.add(key)
        self.background.append(axiom)

    # ---------------------------------------------------------------- solver
    def _solver(self, timeout=None):
        s = z3.Solver()
        s.set(timeout=timeout or self.timeout_ms)
        return s

    def feasible(self, st: State) -> bool:
        self.stats['feasibility_checks'] += 1
        s = self._solver(400)
        s.add(*self.background)
        s.add(*st.pc)
        r = s.check()
        return r != z3.unsat

    def check(self, st: State, goal, oid: str, kind: str = 'assert', assume_after=True) -> str:
        """emit obligation  background ∧ pc ∧ guards ⇒ goal ; record the verdict; continue under goal"""
        oid = f"{self.current_fid}::{oid}"
        t0 = time.time()
        status, backend, model, mvals, smt2 = 'unknown', 'z3', None, None, None
        if z3.is_true(z3.simplify(goal)) if z3.is_bool(goal) else False:
            status = 'discharged'
            backend = 'simplifier'
        elif any(goal.eq(h) for h in st.pc):
            status = 'discharged'                  # the goal is literally one of the hypotheses (e.g. a callee postcondition passed on)
            backend = 'hypothesis'
        else:
            allh = list(self.background) + list(st.pc) + list(st.guards)
            r = z3.unknown
            # budget discipline: once an obligation of this function has stayed `unknown` after the full ladder the function is
            # undecided anyway, so later obligations get the short ladder (they can still be refuted or discharged); past the
            # per-function wall deadline the budgets shrink further.  `unknown` is never reported as a violation.
            late = bool(getattr(self, 'deadline', None)) and time.time() > self.deadline
            short = late or getattr(self, 'had_unknown', False)
            base_ms = min(self.timeout_ms, 3000) if late else self.timeout_ms
            if len(allh) > 40:
                # small query first: only hypotheses sharing an uninterpreted symbol with the goal (sound: a subset); `unsat` is definitive
                s1 = self._solver(min(1200, self.timeout_ms))
                s1.add(*self.relevant(allh, goal, 1))
                s1.add(z3.Not(goal))
                if s1.check() == z3.unsat:
                    r = z3.unsat
                    backend = 'z3(relevance-1)'
            s = self._solver(base_ms)
            s.add(*self.background)
            s.add(*st.pc)
            s.add(*st.guards)
            s.add(z3.Not(goal))
            if r != z3.unsat:
                r = s.check()
            if r == z3.unknown and not short:
                # relevance filtering: retry with only the hypotheses connected to the goal through shared
                # uninterpreted symbols (sound: a subset of the hypotheses); widening radius
                for depth in (2, 3):
                    hyps = self.relevant(allh, goal, depth)
                    s2 = self._solver(max(3000, self.timeout_ms // 2))
                    s2.add(*hyps)
                    s2.add(z3.Not(goal))
                    r2 = s2.check()
                    if r2 == z3.unsat:
                        r = r2
                        backend = f'z3(relevance-{depth})'
                        break
            if r == z3.unknown and not short and not getattr(self, 'no_long_retry', False):
                # one retry with a longer budget and another seed: verdicts must not flip when the machine is busy
                s = self._solver(self.timeout_ms * 3)
                s.set(random_seed=7)
                s.add(*self.background)
                s.add(*st.pc)
                s.add(*st.guards)
                s.add(z3.Not(goal))
                r = s.check()
            if r == z3.unsat:
                status = 'discharged'
            elif r == z3.sat:
                status = 'refuted'
                m = s.model()
                model = str(m)[:4000]
                mvals = self._model_vals(m)
            if status == 'unknown' and self.use_cvc5 or (self.both and status != 'refuted'):
                smt2 = s.to_smt2()
                r2 = self._cvc5(smt2)
                if status == 'unknown':
                    if r2 == 'unsat':
                        status, backend = 'discharged', 'cvc5'
                elif self.both:
                    backend = 'z3+cvc5' if r2 == 'unsat' else 'z3 (cvc5: %s)' % r2
                    if r2 == 'sat':
                        status = 'solver-disagreement'
            if len([o for o in self.obligations if o.smt2]) < self.keep_smt2 and status == 'discharged':
                smt2 = smt2 or s.to_smt2()
            else:
                smt2 = None
        if status == 'unknown':
            self.had_unknown = True
        ob = Obligation(oid, kind, status, backend, round(time.time() - t0, 4), model, mvals, smt2)
        # the same obligation id can be reached on several paths: keep all, the report aggregates
        self.obligations.append(ob)
        if assume_after:
            st.assume(goal)
        return status

    def safety(self, st, cond, oid, exc='IndexError'):
        """a run-time check of the interpreter (subscript range, pop from empty ...): a safety obligation, unless the contract under
        verification permits that exception (partial-correctness variant) - then the failing branch just ends and the path continues
        under the condition"""
        top = getattr(self, 'top_spec', None)
        if top is not None and exc in getattr(top, 'may_raise', ()) and not getattr(top, 'keep_own_safety', False):
            self.may_raise_points = getattr(self, 'may_raise_points', 0) + 1
            st.assume(cond)
            return 'permitted'
        return self.check(st, cond, oid, 'safety')

    _sym_cache = {}

    def symbols(self, f):
        key = f.get_id()
        c = self._sym_cache.get(key)
        if c is not None:
            return c
        out, stack, seen = set(), [f], set()
        while stack:
            x = stack.pop()
            i = x.get_id()
            if i in seen:
                continue
            seen.add(i)
            if z3.is_quantifier(x):
                stack.append(x.body())
                continue
            if z3.is_app(x):
                d = x.decl()
                if d.kind() == z3.Z3_OP_UNINTERPRETED:
                    out.add(d.name())
                stack.extend(x.children())
        self._sym_cache[key] = out
        return out

    def relevant(self, hyps, goal, depth):
        syms = set(self.symbols(goal))
        chosen = [False] * len(hyps)
        hs = [self.symbols(h) for h in hyps]
        for _ in range(depth):
            new = set()
            for i, h in enumerate(hyps):
                if not chosen[i] and (hs[i] & syms or not hs[i]):
                    chosen[i] = True
                    new |= hs[i]
            if not new - syms:
                break
            syms |= new
        return [h for h, c in zip(hyps, chosen) if c]

    def _model_vals(self, m):
        out = {}
        try:
            for d in m.decls():
                if d.arity() == 0:
                    out[d.name()] = str(m[d])
        except Exception:
            pass
        return out

    def _cvc5(self, smt2: str) -> str:
        self.assumptions.add('solver:cvc5')
        try:
            with tempfile.NamedTemporaryFile('w', suffix='.smt2', delete=False) as f:
                f.write("(set-logic ALL)\n" + smt2)
                path = f.name
            try:
                p = subprocess.run(['/usr/bin/cvc5', '--lang=smt2', f'--tlimit={self.timeout_ms}', path],
                                   capture_output=True, text=True, timeout=self.timeout_ms / 1000 + 5)
                out = p.stdout.strip().splitlines()
                return out[0] if out else 'unknown'
            finally:
                os.unlink(path)
        except Exception:
            return 'unknown'

    def check_sat(self, st: State, what: str, extra=()) -> str:
        """vacuity guard: hypotheses must be satisfiable.  Quantified hypotheses usually make z3 answer
        `unknown`; then the quantifier-free part is checked (a contradiction among ground facts is what
        a wrong precondition or a dead path typically produces) and the answer is reported as sat(qf)."""
        s = self._solver(400)
        s.add(*self.background)
        s.add(*st.pc)
        s.add(*extra)
        r = str(s.check())
        if r == 'unknown':
            s2 = self._solver(2000)
            for f in list(st.pc) + list(extra):
                if not _has_quantifier(f):
                    s2.add(f)
            r2 = str(s2.check())
            r = 'unsat' if r2 == 'unsat' else ('sat(qf)' if r2 == 'sat' else 'unknown')
        self.sat_checks.append((f"{self.current_fid}::{what}", r))
        return r

    # ---------------------------------------------------------------- classes
    def cls_id(self, name: str) -> int:
        if name not in self._cls_ids:
            self._cls_ids[name] = len(self._cls_ids) + 1
        return self._cls_ids[name]

    def concrete(self, classes) -> Tuple[str, ...]:
        return tuple(classes)

    def isinstance_term(self, o: VObj, classes) -> z3.BoolRef:
        """isinstance(o, classes) as a term over the class tag, using the hierarchy read from the AST"""
        yes = [c for c in o.classes if any(self._is_sub(c, b) for b in classes)]
        if len(yes) == len(o.classes):
            return z3.BoolVal(True)
        if not yes:
            return z3.BoolVal(False)
        return z3.Or(*[cls_of(o.t) == self.cls_id(c) for c in yes])

    def _is_sub(self, c: str, base: str) -> bool:
        if c == base:
            return True
        if self.repo.cls(c) is None:
            return False
        return self.repo.is_subclass(c, base)

    def type_fact(self, o: VObj):
        if not o.classes or o.classes == ('str',):
            return z3.BoolVal(True)
        return z3.Or(*[cls_of(o.t) == self.cls_id(c) for c in o.classes]) if len(o.classes) > 1 \
            else cls_of(o.t) == self.cls_id(o.classes[0])

    def wf(self, v: V, st: State = None):
        """well-formedness facts of a freshly introduced symbolic value (type invariants of inputs)"""
        out = []
        if isinstance(v, VObj):
            out.append(self.type_fact(v))
        elif isinstance(v, VOpt):
            out += [z3.Implies(z3.Not(v.none), f) for f in self.wf(v.val, st)]
        elif isinstance(v, VTuple):
            for i in v.items:
                out += self.wf(i, st)
        elif isinstance(v, VRecord):
            for _, i in v.items:
                out += self.wf(i, st)
        elif isinstance(v, VListRef):
            out += self.wf(st.lists[v.lid], st)
        elif isinstance(v, VList):
            out.append(v.n >= 0)
            out.append(v.off >= 0)
            # quantified over the absolute index of the base array so that any mention of arr[T] triggers it
            T = z3.Int(fresh_name('wf_T'))
            el = VList(v.elem, v.arrs, z3.IntVal(0), v.n).at(T)
            facts = self.wf(el, st)
            facts = [f for f in facts if not z3.is_true(f)]
            if facts:
                pats = [z3.Select(v.arrs[0], T)] if len(v.arrs) >= 1 else None
                out.append(z3.ForAll([T], z3.Implies(z3.And(v.off <= T, T < v.off + v.n), z3.And(*facts)),
                                     patterns=pats))
        return out

    # ---------------------------------------------------------------- fields
    def field_kind(self, cls: str, fname: str) -> Optional[Tuple[str, Kind]]:
        """(declaring class, kind) of field `fname` for class `cls` per the schema, following the MRO"""
        for ci in self.repo.mro(cls) or []:
            if ci.name in self.schema and fname in self.schema[ci.name]:
                return ci.name, self.schema[ci.name][fname]
        if cls in self.schema and fname in self.schema[cls]:
            return cls, self.schema[cls][fname]
        return None

    def field_fns(self, decl: str, fname: str, kind: Kind):
        key = (decl, fname)
        if key not in self._field_fns:
            fns = [z3.Function(f"{decl}.{fname}{sfx}", Ref, srt) for sfx, srt in kind.cols()]
            self._field_fns[key] = fns
            # global typing axioms of the field
            o = z3.Const('o', Ref)
            if isinstance(kind, OBJ) and kind.classes != ('str',):
                v = VObj(fns[0](o), kind.classes)
                self.add_background(('ft', key), z3.ForAll([o], self.type_fact(v), patterns=[fns[0](o)]))
            if isinstance(kind, ENUM):
                eci = self.repo.cls(kind.cls)
                if eci is not None and 'Enum' in eci.bases:
                    self.add_background(('fe', key), z3.ForAll([o], z3.And(0 <= fns[0](o), fns[0](o) < len(eci.class_attrs)), patterns=[fns[0](o)]))
            if isinstance(kind, LIST):
                self.add_background(('fl', key), z3.ForAll([o], z3.And(fns[-1](o) >= 0, fns[-2](o) >= 0),
                                                           patterns=[fns[-1](o)]))
                if isinstance(kind.elem, OBJ) and kind.elem.classes != ('str',):
                    k = z3.Int('k')
                    el = VObj(z3.Select(fns[0](o), k), kind.elem.classes)
                    self.add_background(('fle', key), z3.ForAll([o, k], self.type_fact(el),
                                                                patterns=[z3.Select(fns[0](o), k)]))
        return self._field_fns[key]

    @staticmethod
    def refkey(o: VObj) -> str:
        return o.t.sexpr()

    def get_field(self, st: State, o: VObj, fname: str, spec_mode=False) -> V:
        key = (self.refkey(o), fname)
        if key in st.objs:
            return st.objs[key]
        # resolve declaring class / kind over the possible classes
        found = {}
        for c in o.classes:
            fk = self.field_kind(c, fname)
            if fk is None:
                raise Unsupported(f"no schema for field {c}.{fname}")
            found.setdefault(fk, []).append(c)
        if len(found) == 1:
            (decl, kind), _ = next(iter(found.items()))
            val = self._read_field(st, o, decl, fname, kind)
        else:
            # class-dependent layout: value-level ite over the class tag
            items = list(found.items())
            (decl, kind), _ = items[-1]
            val = self._read_field(st, o, decl, fname, kind)
            for (decl, kind), classes in reversed(items[:-1]):
                cond = z3.Or(*[cls_of(o.t) == self.cls_id(c) for c in classes])
                val = ite_val(cond, self._read_field(st, o, decl, fname, kind), val)
        if isinstance(val, VList):
            val = st.new_list(val)
            st.objs[key] = val
        return val

    def _read_field(self, st, o, decl, fname, kind) -> V:
        fns = self.field_fns(decl, fname, kind)
        return kind.from_cols([f(o.t) for f in fns])

    def set_field(self, st: State, o: VObj, fname: str, val: V):
        st.objs[(self.refkey(o), fname)] = val

    def field_eq_facts(self, st: State, o: VObj, cls: str, fname: str, val: V):
        """facts  field_fn(o) == val  for an immutable object's field (asserted once, after __init__)"""
        fk = self.field_kind(cls, fname)
        if fk is None:
            return []
        decl, kind = fk
        fns = self.field_fns(decl, fname, kind)
        cv = self.coerce(st, val, kind)
        if cv is None:
            return []
        return [f(o.t) == c for f, c in zip(fns, cv.cols())]

    def coerce(self, st: State, v: V, kind: Kind) -> Optional[V]:
        """coerce value to kind (numeric promotion, None -> OPT, list ref -> list value)"""
        if isinstance(v, VListRef):
            v = st.lists[v.lid]
        if isinstance(kind, OPT):
            if isinstance(v, VNone):
                return VOpt(z3.BoolVal(True), kind.base.fresh('none_payload'))
            if isinstance(v, VOpt):
                inner = self.coerce(st, v.val, kind.base)
                return None if inner is None else VOpt(v.none, inner)
            inner = self.coerce(st, v, kind.base)
            return None if inner is None else VOpt(z3.BoolVal(False), inner)
        if kind is REAL:
            if isinstance(v, VInt):
                return VReal(z3.ToReal(v.t))
            if isinstance(v, VBool):
                return VReal(z3.If(v.t, z3.RealVal(1), z3.RealVal(0)))
            return v if isinstance(v, VReal) else None
        if kind is INT:
            if isinstance(v, VBool):
                return VInt(z3.If(v.t, 1, 0))
            return v if isinstance(v, VInt) else None
        if kind is EXT:
            if isinstance(v, VInt):
                return VExt(z3.BoolVal(False), z3.ToReal(v.t))
            if isinstance(v, VReal):
                return VExt(z3.BoolVal(False), v.t)
            return v if isinstance(v, VExt) else None
        if kind is BOOL:
            return v if isinstance(v, VBool) else None
        if kind is STR:
            if isinstance(v, VStr):
                return self.str_const(v.s)
            return v if isinstance(v, VObj) else None
        if isinstance(kind, OBJ):
            if isinstance(v, VStr) and kind.classes == ('str',):
                return self.str_const(v.s)
            return v if isinstance(v, VObj) else None
        if isinstance(kind, ENUM):
            return v if isinstance(v, VEnum) else None
        if isinstance(kind, LIST):
            if isinstance(v, VList):
                if v.elem == kind.elem:
                    return v
                if v.elem is NONE and not v.arrs:
                    n = z3.simplify(v.n)
                    if z3.is_int_value(n) and n.as_long() == 0:
                        return self.fresh_list(kind.elem, 'empty', n=z3.IntVal(0))     # the empty literal fits every list kind
                if isinstance(kind.elem, OBJ) and isinstance(v.elem, OBJ):
                    return VList(kind.elem, v.arrs, v.off, v.n)
            return None
        if isinstance(kind, RECORD):
            if not isinstance(v, VRecord) or tuple(n for n, _ in v.items) != tuple(n for n, _ in kind.fields):
                return None          # the key ORDER is part of the shape: dict order is observable (list(d.values())[0])
            items = []
            for (n, fk), (_, item) in zip(kind.fields, v.items):
                if isinstance(item, VListRef):
                    item = st.lists[item.lid]
                c = self.coerce(st, item, fk)
                if c is None:
                    return None
                items.append((n, c))
            return VRecord(tuple(items))
        if isinstance(kind, TUPLE) and isinstance(v, VTuple):
            items = [self.coerce(st, i, k) for i, k in zip(v.items, kind.items)]
            return None if any(i is None for i in items) else VTuple(tuple(items))
        if kind is NONE:
            return v if isinstance(v, VNone) else None
        return None

    # ---------------------------------------------------------------- lists
    def fresh_list(self, elem: Kind, base: str, st: State = None, n=None) -> VList:
        arrs = tuple(z3.Const(fresh_name(base + sfx), z3.ArraySort(z3.IntSort(), srt)) for sfx, srt in elem.cols())
        ln = n if n is not None else z3.Int(fresh_name(base + '.len'))
        return VList(elem, arrs, z3.IntVal(0), ln)

    def empty_list(self, elem: Kind) -> VList:
        return self.fresh_list(elem, 'empty', n=z3.IntVal(0))

    def list_append(self, vl: VList, v: V) -> VList:
        idx = z3.simplify(vl.off + vl.n)
        arrs = tuple(z3.Store(a, idx, c) for a, c in zip(vl.arrs, v.cols()))
        return VList(vl.elem, arrs, vl.off, z3.simplify(vl.n + 1))
