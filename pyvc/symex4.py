"""Symbolic execution of statements; loops are cut at the invariants given in the sidecar spec."""
from __future__ import annotations

import ast
from typing import Iterator, Tuple, List, Dict

import z3

from .kinds import *
from .state import State, Frame, new_id
from .engine import Unsupported, NeedsContract, cls_of
from .symex2 import VGen, VSuper, VExc
from .dsl import Ctx, view, FunctionSpec, Loop

NORMAL = ('normal',)


def label_sites(fn):
    """static, line-number-free site ids: <kind>#<ordinal in source order within the function>"""
    if getattr(fn, '_labelled', False):
        return
    counters: Dict[str, int] = {}

    def lab(node, kind):
        k = counters.get(kind, 0)
        counters[kind] = k + 1
        node._site = f"{kind}#{k}"
        if kind == 'call':
            # second, edit-tolerant name for ghost hooks: call:<callee name>#<ordinal among calls of that name>
            f = node.func
            nm = f.attr if isinstance(f, ast.Attribute) else (f.id if isinstance(f, ast.Name) else None)
            if nm is not None:
                k2 = counters.get('call:' + nm, 0)
                counters['call:' + nm] = k2 + 1
                node._site2 = f"call:{nm}#{k2}"

    def visit(node):
        for child in ast.iter_child_nodes(node):
            if isinstance(child, ast.For):
                lab(child, 'for')
            elif isinstance(child, ast.While):
                lab(child, 'while')
            elif isinstance(child, (ast.Yield, ast.YieldFrom)):
                lab(child, 'yield')
            elif isinstance(child, ast.Call):
                lab(child, 'call')
            elif isinstance(child, ast.Subscript):
                lab(child, 'sub')
            elif isinstance(child, ast.Attribute):
                lab(child, 'attr')
            elif isinstance(child, ast.BinOp):
                lab(child, 'binop')
            elif isinstance(child, ast.Raise):
                lab(child, 'raise')
            elif isinstance(child, ast.Return):
                lab(child, 'return')
            elif isinstance(child, (ast.Assign, ast.AugAssign)):
                lab(child, 'assign')
            elif isinstance(child, (ast.ListComp, ast.GeneratorExp)):
                lab(child, 'comp')
            visit(child)

    visit(fn)
    fn._labelled = True


class StmtMixin:
    def site(self, st: State, kind: str) -> str:
        node = self._node
        s = getattr(node, '_site', None) or kind
        lab = st.frame.label
        return f"{lab}:{s}" if lab and st.cur != self.top_frame else s

    def ev(self, node, st):
        if hasattr(node, '_site'):
            self._node = node
        m = getattr(self, 'ev_' + type(node).__name__, None)
        if m is None:
            raise Unsupported(f"expression {type(node).__name__} at line {getattr(node, 'lineno', '?')}")
        yield from m(node, st)

    # ------------------------------------------------------------------ blocks
    def exec_block(self, stmts: List[ast.stmt], st: State) -> Iterator[Tuple[State, tuple]]:
        if st.frame.fn is not None:
            label_sites(st.frame.fn)
        if not stmts:
            yield st, NORMAL
            return
        head, rest = stmts[0], stmts[1:]
        for s, flow in self.exec_stmt(head, st):
            if flow is NORMAL:
                yield from self.exec_block(rest, s)
            else:
                yield s, flow

    def exec_stmt(self, node: ast.stmt, st: State):
        if hasattr(node, '_site'):
            self._node = node
        m = getattr(self, 'ex_' + type(node).__name__, None)
        if m is None:
            raise Unsupported(f"statement {type(node).__name__} at line {node.lineno}")
        yield from m(node, st)

    def ex_Pass(self, node, st):
        yield st, NORMAL

    def ex_Expr(self, node, st):
        if isinstance(node.value, ast.Constant):       # docstring
            yield st, NORMAL
            return
        if isinstance(node.value, ast.Yield):
            yield from self.do_yield(node.value, st)
            return
        for s, _ in self.ev(node.value, st):
            yield s, NORMAL

    def do_yield(self, node: ast.Yield, st):
        self._node = node
        for s, v in self.ev(node.value, st) if node.value is not None else [(st, VNone())]:
            fr = s.frame
            ref = fr.env['@out']
            l = s.lists[ref.lid]
            if isinstance(v, VListRef):
                v = s.lists[v.lid]
            if l.elem is NONE and not l.arrs:
                ek = fr.spec.yields if (fr.spec is not None and fr.spec.yields is not None and s.cur == self.top_frame) else v.kind
                l = VList(ek, tuple(z3.K(z3.IntSort(), c) if False else z3.Const(fresh_name('out' + sfx), z3.ArraySort(z3.IntSort(), srt))
                                    for (sfx, srt), c in zip(ek.cols(), ek.cols())), l.off, l.n)
            cv = self.coerce(s, v, l.elem)
            if cv is None:
                raise Unsupported(f"yielded value of kind {v.kind} does not fit {l.elem}")
            # ghost hook
            self.run_ghost(s, getattr(node, '_site', 'yield'), extra={'yielded': cv})
            l = s.lists[ref.lid] if (s.lists[ref.lid].arrs or s.lists[ref.lid].elem is not NONE) else l
            s.lists[ref.lid] = self.list_append(l, cv)
            yield s, NORMAL

    def run_ghost(self, st, site, extra=None, site2=None):
        spec = self.top_spec
        if spec is None or not spec.ghost_at:
            return
        key = site if st.cur == self.top_frame else f"{st.frame.label}:{site}"
        h = spec.ghost_at.get(key)
        if h is None and site2 is not None:
            key = site2 if st.cur == self.top_frame else f"{st.frame.label}:{site2}"
            h = spec.ghost_at.get(key)
        if h is None:
            return
        self.ghost_sites_hit.add(key)
        L = self.local_ctx(st, extra)
        h(L)

    def local_ctx(self, st, extra=None) -> Ctx:
        names = dict(st.frame.env)
        fid = st.frame.parent
        while fid is not None:
            for k, v in st.frames[fid].env.items():
                names.setdefault(k, v)
            fid = st.frames[fid].parent
        # ghost variables live in the frame of the function under verification
        if self.top_spec is not None and self.top_frame in st.frames:
            tenv = st.frames[self.top_frame].env
            for g in self.top_spec.ghost:
                if g in tenv:
                    names[g] = tenv[g]
            if '@out' in tenv:
                names.setdefault('@out', tenv['@out'])
        ex = {}
        if '@out' in names:
            ex['out'] = view(self, st, names['@out'])
        for k, v in list(names.items()):
            if k.startswith('@'):
                ex[k[1:].replace('#', '_')] = view(self, st, v)
        for k, v in (extra or {}).items():
            ex[k] = view(self, st, v) if isinstance(v, V) else v
        return Ctx(self, st, names, ex)

    def ghost_set(self, st, name, value):
        env = st.frames[self.top_frame].env if (self.top_spec is not None and name in self.top_spec.ghost
                                                and self.top_frame in st.frames) else st.frame.env
        if not isinstance(value, V):
            if z3.is_bool(value):
                value = VBool(value)
            elif z3.is_int(value):
                value = VInt(value)
            elif z3.is_real(value):
                value = VReal(value)
            elif isinstance(value, int):
                value = VInt(z3.IntVal(value))
            elif z3.is_expr(value):
                value = VRaw(value)
            else:
                raise Unsupported("ghost value")
        old = env.get(name)
        if isinstance(old, VListRef) and isinstance(value, VList):
            st.lists[old.lid] = value
            return
        if isinstance(value, VList):
            value = st.new_list(value)
        env[name] = value

    def ex_Assign(self, node, st):
        for s, v in self.ev(node.value, st):
            for tgt in node.targets:
                self.assign(s, tgt, v)
            if self.top_spec is not None and self.top_spec.ghost_at:
                self.run_ghost(s, getattr(node, '_site', 'assign'))
            yield s, NORMAL

    def ex_AnnAssign(self, node, st):
        if node.value is None:
            yield st, NORMAL
            return
        for s, v in self.ev(node.value, st):
            self.assign(s, node.target, v)
            yield s, NORMAL

    def ex_AugAssign(self, node, st):
        load = ast.copy_location(self._as_load(node.target), node.target)
        for s, cur in self.ev(load, st):
            for s2, rhs in self.ev(node.value, s):
                if isinstance(cur, VListRef) and isinstance(node.op, ast.Add):
                    # in-place extend
                    s2.lists[cur.lid] = self.concat(s2, s2.lists[cur.lid], s2.lst(rhs))
                    yield s2, NORMAL
                    continue
                self._node = node
                v = self.binop(s2, node.op, cur, rhs, node)
                self.assign(s2, node.target, v)
                yield s2, NORMAL

    @staticmethod
    def _as_load(t):
        if isinstance(t, ast.Name):
            return ast.Name(id=t.id, ctx=ast.Load())
        if isinstance(t, ast.Attribute):
            n = ast.Attribute(value=t.value, attr=t.attr, ctx=ast.Load())
            if hasattr(t, '_site'):
                n._site = t._site
            return n
        if isinstance(t, ast.Subscript):
            n = ast.Subscript(value=t.value, slice=t.slice, ctx=ast.Load())
            if hasattr(t, '_site'):
                n._site = t._site
            return n
        raise Unsupported("augmented assignment target")

    def assign(self, st, tgt, v):
        if isinstance(tgt, ast.Name):
            st.bind(tgt.id, v)
        elif isinstance(tgt, (ast.Tuple, ast.List)):
            if any(isinstance(e, ast.Starred) for e in tgt.elts):
                self.assign_starred(st, tgt, v)
                return
            self.bind_target_general(st, tgt, v)
        elif isinstance(tgt, ast.Attribute):
            s, base = self.ev1(tgt.value, st)
            if not isinstance(base, VObj):
                raise Unsupported("attribute store on non-object")
            self.set_field(st, base, tgt.attr, v)
        elif isinstance(tgt, ast.Subscript):
            s, base = self.ev1(tgt.value, st)
            s, idx = self.ev1(tgt.slice, st)
            if not isinstance(base, VListRef):
                raise Unsupported("subscript store on non-list")
            if st.is_frozen(base):
                raise Unsupported("subscript store into a list held in a read-only dict")
            l = st.lists[base.lid]
            i = self.num(idx)
            self._node = tgt
            self.check(st, z3.And(0 <= i, i < l.n), f"safety[{self.site(st, 'sub')}]::store_index_in_range", 'safety')
            if isinstance(v, VListRef):
                v = st.lists[v.lid]
            ek = l.elem
            cv = self.coerce(st, v, ek)
            if cv is None:
                # widen the element kind (e.g. a list of None receiving ints)
                nk = self.join2(ek, v.kind)
                l2 = self.coerce_list(st, l, nk)
                cv = self.coerce(st, v, nk)
                l = l2
            arrs = tuple(z3.Store(a, z3.simplify(l.off + i), c) for a, c in zip(l.arrs, cv.cols()))
            st.lists[base.lid] = VList(l.elem, arrs, l.off, l.n)
        else:
            raise Unsupported("assignment target")

    def coerce_list(self, st, l: VList, nk: Kind) -> VList:
        """element-wise widening of a list to a larger element kind"""
        r = self.fresh_list(nk, 'widen', n=l.n)
        k = z3.Int(fresh_name('wk'))
        el = self.coerce(st, l.at(k), nk)
        if el is None:
            raise Unsupported(f"cannot widen list of {l.elem} to {nk}")
        eqs = [z3.Select(ra, k) == c for ra, c in zip(r.arrs, el.cols())]
        st.assume(z3.ForAll([k], z3.Implies(z3.And(0 <= k, k < l.n), z3.And(*eqs)),
                            patterns=[z3.Select(r.arrs[0], k)]))
        return r

    def bind_target_general(self, st, tgt, v):
        if isinstance(v, VTuple):
            if len(v.items) != len(tgt.elts):
                self.check(st, z3.BoolVal(False), f"safety[{self.site(st, 'unpack')}]::unpack_arity", 'safety')
                raise Unsupported("unpack arity mismatch")
            for e, i in zip(tgt.elts, v.items):
                self.assign(st, e, i)
            return
        from .builtins_ import VZipStar
        if isinstance(v, VZipStar):
            rows = v.rows
            k = len(rows.elem.items)
            # zip(*[]) yields nothing: unpacking into k names needs at least one row
            self.check(st, rows.n >= 1, f"safety[{self.site(st, 'unpack')}]::unpack_arity", 'safety')
            if k != len(tgt.elts):
                self.check(st, z3.BoolVal(False), f"safety[{self.site(st, 'unpack')}]::unpack_arity", 'safety')
                raise Unsupported("unpack arity mismatch")
            j = z3.Int(fresh_name('zj'))
            for c, e in enumerate(tgt.elts):
                comp = rows.at(j).items[c]
                col = self.fresh_list(comp.kind, 'zipcol', n=rows.n)
                eqs = [z3.Select(ra, j) == x for ra, x in zip(col.arrs, comp.cols())]
                if eqs:
                    st.assume(z3.ForAll([j], z3.Implies(z3.And(0 <= j, j < rows.n), z3.And(*eqs)), patterns=[z3.Select(col.arrs[0], j)]))
                self.assign(st, e, st.new_list(col))
            return
        if isinstance(v, (VListRef, VList)):
            l = st.lst(v)
            self.check(st, l.n == len(tgt.elts), f"safety[{self.site(st, 'unpack')}]::unpack_arity", 'safety')
            for i, e in enumerate(tgt.elts):
                self.assign(st, e, l.at(z3.IntVal(i)))
            return
        raise Unsupported(f"unpacking {type(v).__name__}")

    def assign_starred(self, st, tgt, v):
        # `*_, last = iterable`
        elts = tgt.elts
        if len(elts) == 2 and isinstance(elts[0], ast.Starred) and isinstance(v, (VListRef, VList)):
            l = st.lst(v)
            self.check(st, l.n >= 1, f"safety[{self.site(st, 'unpack')}]::unpack_arity", 'safety')
            self.assign(st, elts[0].value, st.new_list(VList(l.elem, l.arrs, l.off, z3.simplify(l.n - 1))))
            self.assign(st, elts[1], l.at(z3.simplify(l.n - 1)))
            return
        raise Unsupported("starred assignment form")

    def ex_Return(self, node, st):
        if node.value is None:
            yield st, ('return', VNone())
            return
        for s, v in self.ev(node.value, st):
            yield s, ('return', v)

    def ex_Raise(self, node, st):
        name = 'Exception'
        if node.exc is not None:
            e = node.exc
            f = e.func if isinstance(e, ast.Call) else e
            name = f.id if isinstance(f, ast.Name) else getattr(f, 'attr', 'Exception')
        yield st, ('raise', name, getattr(node, '_site', 'raise'))

    def ex_If(self, node, st):
        s0, c = self.ev1(node.test, st)
        t = self.truth(s0, c)
        ts = z3.simplify(t)
        if z3.is_true(ts):
            yield from self.exec_block(node.body, s0)
            return
        if z3.is_false(ts):
            yield from self.exec_block(node.orelse, s0)
            return
        s1 = s0.fork()
        s1.assume_branch(t)
        narrowed = self.narrow(s1, node.test, True)
        if self.feasible(s1):
            yield from self.exec_block(node.body, s1)
        s0.assume_branch(z3.Not(t))
        self.narrow(s0, node.test, False)
        if self.feasible(s0):
            yield from self.exec_block(node.orelse, s0)

    def narrow(self, st, test, positive: bool):
        """flow-sensitive narrowing of Optional locals and class sets after a test"""
        def narrow_name(name, to_none):
            v = st.lookup(name)
            if isinstance(v, VOpt):
                fr = self._frame_of(st, name)
                fr.env[name] = VNone() if to_none else v.val
        t = test
        if isinstance(t, ast.UnaryOp) and isinstance(t.op, ast.Not):
            return self.narrow(st, t.operand, not positive)
        if isinstance(t, ast.Name):
            v = st.lookup(t.id)
            if isinstance(v, VOpt) and positive:
                narrow_name(t.id, False)
            return
        if isinstance(t, ast.Compare) and len(t.ops) == 1 and isinstance(t.left, ast.NamedExpr):
            t = ast.Compare(left=ast.Name(id=t.left.target.id, ctx=ast.Load()), ops=t.ops, comparators=t.comparators)
        if isinstance(t, ast.Compare) and len(t.ops) == 1 and isinstance(t.left, ast.Name) \
                and isinstance(t.comparators[0], ast.Constant) and t.comparators[0].value is None:
            is_ = isinstance(t.ops[0], ast.Is)
            isnot = isinstance(t.ops[0], ast.IsNot)
            if is_ or isnot:
                none_branch = positive if is_ else not positive
                narrow_name(t.left.id, none_branch)
            return
        if isinstance(t, ast.Call) and isinstance(t.func, ast.Name) and t.func.id == 'isinstance' \
                and isinstance(t.args[0], ast.Name):
            v = st.lookup(t.args[0].id)
            if isinstance(v, VObj):
                classes = self._class_names(t.args[1])
                keep = tuple(c for c in v.classes if any(self._is_sub(c, b) for b in classes) == positive)
                if keep:
                    self._frame_of(st, t.args[0].id).env[t.args[0].id] = VObj(v.t, keep)
            return
        if isinstance(t, ast.BoolOp) and isinstance(t.op, ast.And) and positive:
            for sub in t.values:
                self.narrow(st, sub, True)
        if isinstance(t, ast.BoolOp) and isinstance(t.op, ast.Or) and not positive:
            for sub in t.values:
                self.narrow(st, sub, False)

    def _class_names(self, node):
        if isinstance(node, ast.Name):
            return (node.id,)
        if isinstance(node, ast.Tuple):
            return tuple(e.id for e in node.elts if isinstance(e, ast.Name))
        raise Unsupported("isinstance class expression")

    def _frame_of(self, st, name):
        fid = st.cur
        while fid is not None:
            fr = st.frames[fid]
            if name in fr.env:
                return fr
            fid = fr.parent
        return st.frame

    def ex_FunctionDef(self, node, st):
        st.bind(node.name, VFunc('def', (node, st.frame.module, None, st.cur)))
        yield st, NORMAL

    def ex_With(self, node, st):
        # in the subset: `with warnings.catch_warnings():` and `with <file object>:` (no `as`): executed as the body
        files = []
        for item in node.items:
            e = item.context_expr
            if isinstance(e, ast.Call) and isinstance(e.func, ast.Attribute) and e.func.attr == 'catch_warnings':
                continue
            if item.optional_vars is None:
                st, v = self.ev1(e, st)
                if isinstance(v, VObj) and v.classes == ('TextIO',):
                    self.assumptions.add("`with <file>:` runs its body and then only closes the file")
                    files.append(v.t)
                    continue
            raise Unsupported("with statement other than warnings.catch_warnings() / an open file")
        before = st.notes.get('with_files', ())
        st.notes['with_files'] = before + tuple(files)          # the files whose `with` block is being executed (contract text may ask which)
        for s2, flow in self.exec_block(node.body, st):
            s2.notes['with_files'] = before
            yield s2, flow

    def ex_Break(self, node, st):
        yield st, ('break',)

    def ex_Continue(self, node, st):
        yield st, ('continue',)

    def ex_Assert(self, node, st):
        s, c = self.ev1(node.test, st)
        self.check(s, self.truth(s, c), f"assert[{self.site(s, 'assert')}]", 'assert')
        yield s, NORMAL
