"""Symbolic execution: subscripts, slices, list construction, comprehensions, attribute access."""
from __future__ import annotations

import ast
from typing import Iterator, Tuple, List

import z3

from .kinds import *
from .state import State, Frame, new_id
from .engine import Unsupported, NeedsContract, cls_of
from .symex import VFloatInf


@dataclass(frozen=True)
class VGen(V):
    """an unevaluated generator expression / comprehension source (consumed by a builtin)"""
    node: ast.AST
    fid: int


@dataclass(frozen=True)
class VSuper(V):
    obj: VObj
    after: str          # class name after which the MRO lookup starts


@dataclass(frozen=True)
class VExc(V):
    name: str


@dataclass(frozen=True)
class VMap(V):
    """an uninterpreted finite map (dict used read-only): key columns -> value kind"""
    name: str
    vkind: Kind


@dataclass(frozen=True)
class VDictKeys(V):
    """d.keys(): membership and iteration only"""
    d: VDict


class Iterable_:
    """uniform view of something a for loop / comprehension can run over: length term + element at k"""
    def __init__(self, n, at, facts=()):
        self.n, self.at, self.facts = n, at, list(facts)


class Expr2Mixin:
    # ------------------------------------------------------------------ subscripts
    def ev_Subscript(self, node, st):
        for s, base in self.ev(node.value, st):
            if isinstance(node.slice, ast.Slice):
                yield from self.ev_slice(node, s, base)
                continue
            s, idx = self.ev1(node.slice, s)
            yield s, self.index(s, base, idx, node)

    def index(self, st, base, idx, node=None):
        if isinstance(base, VOpt):
            self.check(st, z3.Not(base.none), f"safety[{self.site(st, 'sub')}]::subscript_of_None", 'safety')
            base = base.val
        if isinstance(base, VTuple):
            if isinstance(idx, VInt) and z3.is_int_value(z3.simplify(idx.t)):
                i = z3.simplify(idx.t).as_long()
                if not -len(base.items) <= i < len(base.items):
                    self.check(st, z3.BoolVal(False), f"safety[{self.site(st, 'sub')}]::tuple_index_in_range", 'safety')
                    raise Unsupported("tuple index out of range")
                return base.items[i]
            raise Unsupported("symbolic tuple index")
        if isinstance(base, VDict):
            key = self.dict_key(st, base, idx)
            self.safety(st, base.has(key), f"safety[{self.site(st, 'sub')}]::key_present", 'KeyError')
            v = base.get(key)
            return st.freeze(st.new_list(v)) if isinstance(v, VList) else v
        if isinstance(base, VRecord):
            if not isinstance(idx, VStr) or base.get(idx.s) is None:
                raise Unsupported("record (dict with fixed keys) read by something else than one of its constant keys")
            v = base.get(idx.s)
            return st.new_list(v) if isinstance(v, VList) else v
        if isinstance(base, (VListRef, VList)) and isinstance(idx, (VListRef, VList)):
            # numpy fancy indexing a[indices]: ASSUMED element-wise gather; every index must be in range
            l, ix = st.lst(base), st.lst(idx)
            if ix.elem is not INT:
                raise Unsupported("array indexed by a non-integer array")
            self.assumptions.add('numpy fancy indexing a[idx]: the elements a[idx[0]], a[idx[1]], ... (every index in range)')
            k = z3.Int(fresh_name('gk'))
            i = ix.at(k).t
            self.check(st, z3.ForAll([k], z3.Implies(z3.And(0 <= k, k < ix.n), z3.And(0 <= i, i < l.n))), f"safety[{self.site(st, 'sub')}]::gather_indices_in_range", 'safety')
            r = self.fresh_list(l.elem, 'gather', n=ix.n)
            eqs = [z3.Select(ra, k) == c for ra, c in zip(r.arrs, l.at(i).cols())]
            st.assume(z3.ForAll([k], z3.Implies(z3.And(0 <= k, k < ix.n), z3.And(*eqs)), patterns=[z3.Select(r.arrs[0], k)]))
            st.assume(*self.wf(r, st))
            return st.new_list(r)
        if not isinstance(base, (VListRef, VList)):
            raise Unsupported(f"subscript of {type(base).__name__}")
        l = st.lst(base)
        if not isinstance(idx, (VInt, VBool)):
            raise Unsupported("non-integer list index")
        i = z3.simplify(self.num(idx))
        site = self.site(st, 'sub')
        if z3.is_int_value(i) and i.as_long() < 0:
            k = l.n + i
            self.safety(st, k >= 0, f"safety[{site}]::index_in_range")
            return l.at(k)
        self.safety(st, z3.And(-l.n <= i, i < l.n), f"safety[{site}]::index_in_range")
        if z3.is_int_value(i):
            return l.at(i)
        # python wraps negative indices
        nonneg = self._entails(st, i >= 0)
        if nonneg:
            return l.at(i)
        return ite_val(i >= 0, l.at(i), l.at(l.n + i))

    def dict_key(self, st, d: VDict, idx):
        """the subscript as a key of the dict's key kind; only value-compared keys (int, str, tuples of them) are modelled"""
        from .builtins_ import _value_hashed
        if not _value_hashed(d.key) or d.key is REAL:
            raise Unsupported(f"dict keyed by {d.key}")
        if isinstance(idx, VReal) or (isinstance(idx, VTuple) and any(isinstance(i, VReal) for i in idx.items)):
            raise Unsupported("float used as a key of a dict with integer keys")
        key = self.coerce(st, idx, d.key)
        if key is None:
            raise Unsupported(f"key of kind {getattr(idx, 'kind', type(idx).__name__)} for a dict keyed by {d.key}")
        self.assumptions.add('dicts given as arguments are only read (has / get / insertion-ordered key and value tables, keys compared by value)')
        self.add_background(('dict', str(d.t)), z3.And(*d.axioms()))
        return key

    def _entails(self, st, fact) -> bool:
        s = self._solver(1500)
        s.add(*self.background)
        s.add(*st.pc)
        s.add(*st.guards)
        s.add(z3.Not(fact))
        return s.check() == z3.unsat

    def ev_slice(self, node, st, base):
        sl = node.slice
        if isinstance(base, VOpt):
            self.check(st, z3.Not(base.none), f"safety[{self.site(st, 'sub')}]::subscript_of_None", 'safety')
            base = base.val
        if not isinstance(base, (VListRef, VList)):
            raise Unsupported(f"slice of {type(base).__name__}")
        l = st.lst(base)
        s = st
        if sl.step is not None:
            if sl.lower is None and sl.upper is None and isinstance(sl.step, ast.UnaryOp) \
                    and isinstance(sl.step.op, ast.USub) and isinstance(sl.step.operand, ast.Constant) \
                    and sl.step.operand.value == 1:
                yield s, s.new_list(self.reversed_list(s, l))
                return
            raise Unsupported("slice step")
        n = l.n

        def bound(e, default):
            nonlocal s
            if e is None:
                return default
            s, v = self.ev1(e, s)
            if isinstance(v, VNone):
                return default
            if not isinstance(v, (VInt, VBool)):
                raise Unsupported("non-integer slice bound")
            x = z3.simplify(self.num(v))
            if z3.is_int_value(x) and x.as_long() == 0:
                return z3.IntVal(0)
            if self._entails(s, z3.And(x >= 0, x <= n)):
                return x                                        # in range: no clamping needed
            if z3.is_int_value(x) and x.as_long() > 0:
                return z3.If(x > n, n, x)
            x = z3.If(x < 0, x + n, x)
            return z3.If(x < 0, 0, z3.If(x > n, n, x))        # python clamps

        lo = z3.simplify(bound(sl.lower, z3.IntVal(0)))
        hi = z3.simplify(bound(sl.upper, n))
        ln = z3.simplify(z3.If(hi >= lo, hi - lo, 0))
        if self._entails(s, hi >= lo):
            ln = z3.simplify(hi - lo)
        yield s, s.new_list(self.normalize_list(s, VList(l.elem, l.arrs, z3.simplify(l.off + lo), ln)))

    @staticmethod
    def _has_ite(t):
        stack, seen = [t], set()
        while stack:
            x = stack.pop()
            if x.get_id() in seen:
                continue
            seen.add(x.get_id())
            if z3.is_app(x) and x.decl().kind() == z3.Z3_OP_ITE:
                return True
            stack.extend(x.children())
        return False

    def normalize_list(self, st, vl: VList) -> VList:
        """a slice whose offset is an if-then-else term is copied to a fresh array at offset 0, so that element
        terms stay usable as e-matching patterns"""
        if not self._has_ite(vl.off) or not vl.arrs:
            return vl
        r = self.fresh_list(vl.elem, 'slice', n=vl.n)
        k = z3.Int(fresh_name('sk'))
        eqs = [z3.Select(ra, k) == z3.Select(a, vl.off + k) for ra, a in zip(r.arrs, vl.arrs)]
        st.assume(z3.ForAll([k], z3.Implies(z3.And(0 <= k, k < vl.n), z3.And(*eqs)), patterns=[z3.Select(r.arrs[0], k)]))
        return r

    def copy0(self, st, vl: VList) -> VList:
        """a list whose offset is not literally 0 copied to a fresh array at offset 0, with the correspondence stated in both
        directions (fresh[k] triggers on the copy, src[T] on the absolute index of the source) - no arithmetic inside patterns"""
        off = z3.simplify(vl.off)
        if (z3.is_int_value(off) and off.as_long() == 0) or not vl.arrs:
            return vl
        r = self.fresh_list(vl.elem, 'copy', n=vl.n)
        k, T = z3.Int(fresh_name('ck')), z3.Int(fresh_name('cT'))
        eqs = [z3.Select(ra, k) == z3.Select(a, off + k) for ra, a in zip(r.arrs, vl.arrs)]
        st.assume(z3.ForAll([k], z3.Implies(z3.And(0 <= k, k < vl.n), z3.And(*eqs)), patterns=[z3.Select(r.arrs[0], k)]))
        eqs2 = [z3.Select(ra, T - off) == z3.Select(a, T) for ra, a in zip(r.arrs, vl.arrs)]
        st.assume(z3.ForAll([T], z3.Implies(z3.And(off <= T, T < off + vl.n), z3.And(*eqs2)), patterns=[z3.Select(vl.arrs[0], T)]))
        st.assume(*self.wf(r, st))
        return r

    def reversed_list(self, st, l: VList) -> VList:
        r = self.fresh_list(l.elem, 'rev', n=l.n)
        k = z3.Int(fresh_name('rk'))
        eqs = [z3.Select(ra, k) == z3.Select(a, l.off + l.n - 1 - k) for ra, a in zip(r.arrs, l.arrs)]
        if eqs:
            st.assume(z3.ForAll([k], z3.Implies(z3.And(0 <= k, k < l.n), z3.And(*eqs)),
                                patterns=[z3.Select(r.arrs[0], k)]))
        st.assume(*self.wf(r, st))
        return r

    # ------------------------------------------------------------------ list construction
    def ev_List(self, node, st):
        if any(isinstance(e, ast.Starred) for e in node.elts):
            raise Unsupported("starred list element")
        for s, items in self.ev_seq(list(node.elts), st):
            if not items:
                yield s, s.new_list(VList(NONE, (), z3.IntVal(0), z3.IntVal(0)))     # element kind fixed on first append
            else:
                top = getattr(self, 'top_spec', None)
                if top is not None and getattr(top, 'rows_as_tuples', False):
                    try:
                        self.join_kind([(s.lists[i.lid] if isinstance(i, VListRef) else i).kind for i in items])
                    except Unsupported:
                        # a list literal of mixed kinds (a table row): modelled as an immutable fixed-length row; every list operation other than
                        # reading by constant index then leaves the modelled subset
                        self.assumptions.add('list literals of mixed kinds (table rows) are fixed-length rows that are not mutated afterwards')
                        yield s, VTuple(tuple(items))
                        continue
                yield s, s.new_list(self.list_of(s, items))

    def ev_Dict(self, node, st):
        """a dict literal whose keys are string constants: a record (dict with a fixed set of keys, read by constant key); the values keep their identity,
        so a list stored in it is the same list object when read back"""
        if not node.keys or any(not (isinstance(k, ast.Constant) and isinstance(k.value, str)) for k in node.keys):
            raise Unsupported("dict literal with other than constant string keys")
        for s, items in self.ev_seq(list(node.values), st):
            yield s, VRecord(tuple((k.value, v) for k, v in zip(node.keys, items)))

    def list_of(self, st, items: List[V]) -> VList:
        items = [st.lists[i.lid] if isinstance(i, VListRef) else i for i in items]
        k0 = self.join_kind([i.kind for i in items])
        l = self.fresh_list(k0, 'lit', n=z3.IntVal(0))
        for it in items:
            l = self.list_append(l, self.coerce(st, it, k0))
        return l

    def join_kind(self, kinds: List[Kind]) -> Kind:
        k = kinds[0]
        for o in kinds[1:]:
            k = self.join2(k, o)
        return k

    def join2(self, a: Kind, b: Kind) -> Kind:
        if a == b:
            return a
        if a is NONE:
            return b if isinstance(b, OPT) else OPT(b)
        if b is NONE:
            return a if isinstance(a, OPT) else OPT(a)
        if isinstance(a, OPT) or isinstance(b, OPT):
            ab = a.base if isinstance(a, OPT) else a
            bb = b.base if isinstance(b, OPT) else b
            return OPT(self.join2(ab, bb))
        order = [BOOL, INT, REAL, EXT]
        if a in order and b in order:
            return order[max(order.index(a), order.index(b))]
        if isinstance(a, OBJ) and isinstance(b, OBJ):
            return OBJ(*dict.fromkeys(a.classes + b.classes))
        if isinstance(a, LIST) and isinstance(b, LIST):
            return LIST(self.join2(a.elem, b.elem))
        if isinstance(a, TUPLE) and isinstance(b, TUPLE) and len(a.items) == len(b.items):
            return TUPLE(*[self.join2(x, y) for x, y in zip(a.items, b.items)])
        raise Unsupported(f"cannot join kinds {a} and {b}")

    def list_binop(self, st, op, a, b):
        top = getattr(self, 'top_spec', None)
        if top is not None and getattr(top, 'numpy_arrays', False) and isinstance(op, (ast.Add, ast.Sub, ast.Mult, ast.Div)):
            # numpy semantics (the contract declares its list-kinded values to be numpy arrays): element-wise arithmetic with a scalar or an array of
            # the same length.  Only the length is modelled; the values are floating-point numerics outside the verifier
            self.assumptions.add('numpy array arithmetic is element-wise (only the length of the result is modelled)')
            l = st.lst(a) if isinstance(a, (VListRef, VList)) else st.lst(b)
            if isinstance(a, (VListRef, VList)) and isinstance(b, (VListRef, VList)):
                self.check(st, st.lst(a).n == st.lst(b).n, f"safety[{self.site(st, 'binop')}]::arrays_of_the_same_length", 'safety')
            return st.new_list(self.fresh_list(REAL, 'nparith', n=l.n))
        if isinstance(op, ast.Add):
            la, lb = st.lst(a), st.lst(b)
            return st.new_list(self.concat(st, la, lb))
        if isinstance(op, ast.Mult):
            if isinstance(a, (VInt, VBool)):
                a, b = b, a
            l = st.lst(a)
            cnt = self.num(b)
            ln = z3.simplify(l.n)
            if not (z3.is_int_value(ln) and ln.as_long() == 1):
                raise Unsupported("list repetition of a non-singleton list")
            x = l.at(z3.IntVal(0))
            r = self.fresh_list(l.elem, 'rep', n=z3.If(cnt > 0, cnt, 0))
            k = z3.Int(fresh_name('pk'))
            eqs = [z3.Select(ra, k) == c for ra, c in zip(r.arrs, x.cols())]
            if eqs:
                st.assume(z3.ForAll([k], z3.Implies(z3.And(0 <= k, k < r.n), z3.And(*eqs)),
                                    patterns=[z3.Select(r.arrs[0], k)]))
            return st.new_list(r)
        raise Unsupported("list operator")

    def concat(self, st, la: VList, lb: VList) -> VList:
        if la.elem is NONE and z3.is_int_value(z3.simplify(la.n)) and z3.simplify(la.n).as_long() == 0:
            return lb
        if lb.elem is NONE and z3.is_int_value(z3.simplify(lb.n)) and z3.simplify(lb.n).as_long() == 0:
            return la
        ek = self.join2(la.elem, lb.elem)
        la = self.coerce(st, la, LIST(ek)) if la.elem != ek else la
        lb = self.coerce(st, lb, LIST(ek)) if lb.elem != ek else lb
        if la is None or lb is None:
            raise Unsupported("concatenation of lists with incompatible element kinds")
        # b of statically known small length: append one by one (no quantifier)
        nb = z3.simplify(lb.n)
        if z3.is_int_value(nb) and nb.as_long() <= 4:
            r = la
            for i in range(nb.as_long()):
                r = self.list_append(r, lb.at(z3.IntVal(i)))
            return r
        na = z3.simplify(la.n)
        if z3.is_int_value(na) and na.as_long() <= 4 and la.arrs:
            # short constant prefix (e.g. list.insert(0, x)): patterns stay free of arithmetic
            c = na.as_long()
            r = self.fresh_list(ek, 'pre', n=z3.simplify(c + lb.n))
            for i in range(c):
                st.assume(*[z3.Select(ra, i) == col for ra, col in zip(r.arrs, la.at(z3.IntVal(i)).cols())])
            k = z3.Int(fresh_name('pk'))
            e1 = [z3.Select(ra, k) == z3.Select(b, lb.off + k - c) for ra, b in zip(r.arrs, lb.arrs)]
            st.assume(z3.ForAll([k], z3.Implies(z3.And(c <= k, k < c + lb.n), z3.And(*e1)), patterns=[z3.Select(r.arrs[0], k)]))
            if z3.is_int_value(z3.simplify(lb.off)) and z3.simplify(lb.off).as_long() == 0:
                e2 = [z3.Select(ra, k + c) == z3.Select(b, k) for ra, b in zip(r.arrs, lb.arrs)]
                st.assume(z3.ForAll([k], z3.Implies(z3.And(0 <= k, k < lb.n), z3.And(*e2)), patterns=[z3.Select(lb.arrs[0], k)]))
            return r
        r = self.fresh_list(ek, 'cat', n=z3.simplify(la.n + lb.n))
        k = z3.Int(fresh_name('ck'))
        if r.arrs:
            e1 = [z3.Select(ra, k) == z3.Select(a, la.off + k) for ra, a in zip(r.arrs, la.arrs)]
            e2 = [z3.Select(ra, la.n + k) == z3.Select(b, lb.off + k) for ra, b in zip(r.arrs, lb.arrs)]
            st.assume(z3.ForAll([k], z3.Implies(z3.And(0 <= k, k < la.n), z3.And(*e1)),
                                patterns=[z3.Select(r.arrs[0], k)]))
            st.assume(z3.ForAll([k], z3.Implies(z3.And(0 <= k, k < lb.n), z3.And(*e2)),
                                patterns=[z3.Select(lb.arrs[0], lb.off + k)]))
            # inverse direction trigger for the second half
            j = z3.Int(fresh_name('cj'))
            e3 = [z3.Select(ra, j) == z3.Select(b, lb.off + j - la.n) for ra, b in zip(r.arrs, lb.arrs)]
            st.assume(z3.ForAll([j], z3.Implies(z3.And(la.n <= j, j < la.n + lb.n), z3.And(*e3)),
                                patterns=[z3.Select(r.arrs[0], j)]))
        return r

    # ------------------------------------------------------------------ iteration sources
    def iterable(self, st, v) -> Iterable_:
        from .builtins_ import VEnumerate, VZip, VGroups
        if isinstance(v, (VListRef, VList)):
            l = st.lst(v)
            return Iterable_(l.n, lambda k: l.at(k))
        if isinstance(v, VDictKeys):
            v = v.d
        if isinstance(v, VDict):
            self.add_background(('dict', str(v.t)), z3.And(*v.axioms()))
            l = v.keys_list()
            return Iterable_(l.n, lambda k: l.at(k))
        if isinstance(v, VRange):
            n = z3.If(v.hi > v.lo, v.hi - v.lo, 0)
            return Iterable_(z3.simplify(n), lambda k: VInt(z3.simplify(v.lo + k)))
        if isinstance(v, VEnumerate):
            inner = self.iterable(st, v.inner)
            return Iterable_(inner.n, lambda k: VTuple((VInt(z3.simplify(v.start + k)), inner.at(k))), inner.facts)
        if isinstance(v, VZip):
            its = [self.iterable(st, x) for x in v.items]
            n = its[0].n
            for i in its[1:]:
                n = z3.If(i.n < n, i.n, n)
            return Iterable_(z3.simplify(n), lambda k: VTuple(tuple(i.at(k) for i in its)))
        if isinstance(v, VGroups):
            return Iterable_(v.G, lambda g: VTuple((v.key_at(g), v.group_at(g))))
        from .builtins_ import VZipLongest
        if isinstance(v, VZipLongest):
            return Iterable_(v.M, lambda k: v.at(k))
        if isinstance(v, VIter):
            l, pos = st.iters[v.iid]
            return Iterable_(z3.simplify(l.n - pos), lambda k: l.at(z3.simplify(pos + k)))
        raise Unsupported(f"iteration over {type(v).__name__}")

    # ------------------------------------------------------------------ comprehensions
    def ev_GeneratorExp(self, node, st):
        yield st, VGen(node, st.cur)

    def ev_ListComp(self, node, st):
        yield from self.comprehension(node, st)

    def ev_SetComp(self, node, st):
        from .builtins_ import make_set
        comp = ast.copy_location(ast.ListComp(elt=node.elt, generators=node.generators), node)
        for s, v in self.comprehension(comp, st):
            yield s, make_set(self, s, v)

    def comprehension(self, node, st, scratch_frame=None):
        """[elt for x in src if cond]  with one generator over a list-like source"""
        if len(node.generators) == 2:
            yield from self.comprehension2(node, st)
            return
        if len(node.generators) != 1:
            raise Unsupported("comprehension with more than two generators")
        gen = node.generators[0]
        s, src = self.ev1(gen.iter, st)
        it = self.iterable(s, src)
        n0 = z3.simplify(it.n)
        if z3.is_int_value(n0) and n0.as_long() == 0:
            yield s, s.new_list(VList(NONE, (), z3.IntVal(0), z3.IntVal(0)))
            return
        k = z3.Int(fresh_name('ck'))
        x = it.at(k)
        sc = s.fork()                       # scratch state for the quantified body
        sc.assume(0 <= k, k < it.n)
        base_pc = len(sc.pc)
        self.qvars.append(k)
        try:
            self.bind_target(sc, gen.target, x)
            cond = None
            for c in gen.ifs:
                sc, cv = self.ev1(c, sc)
                t = self.truth(sc, cv)
                cond = t if cond is None else z3.And(cond, t)
                sc.assume(t)
                self.narrow(sc, c, True)           # e.g. `if isinstance(p, AlignedPair)` narrows the class set of p
            sc, elt = self.ev1(node.elt, sc)
        finally:
            self.qvars.pop()
        elt = self.deref(sc, elt)
        facts = sc.pc[base_pc:]
        if cond is not None:
            facts = [f for f in facts if not f.eq(cond)]
        ek = elt.kind
        if cond is None:
            r = self.fresh_list(ek, 'comp', n=it.n)
            eqs = [z3.Select(ra, k) == c for ra, c in zip(r.arrs, elt.cols())]
            body = z3.And(*(eqs + facts)) if (eqs or facts) else z3.BoolVal(True)
            pats = [z3.Select(r.arrs[0], k)] if r.arrs else None
            if eqs or facts:
                s.assume(z3.ForAll([k], z3.Implies(z3.And(0 <= k, k < it.n), body), patterns=pats))
            s.lists.update({i: v for i, v in sc.lists.items() if i not in s.lists})
            yield s, s.new_list(r)
            return
        # filtered: ghost index map idx (strictly increasing) and its inverse
        m = z3.Int(fresh_name('comp.len'))
        r = self.fresh_list(ek, 'filt', n=m)
        idx = z3.Function(fresh_name('idx'), z3.IntSort(), z3.IntSort())
        inv = z3.Function(fresh_name('inv'), z3.IntSort(), z3.IntSort())
        j, j2 = z3.Int(fresh_name('fj')), z3.Int(fresh_name('fj2'))
        sub = lambda f, a: z3.substitute(f, (k, a))
        eqs = [z3.Select(ra, j) == sub(c, idx(j)) for ra, c in zip(r.arrs, elt.cols())]
        s.assume(m >= 0, m <= it.n)
        body = [z3.And(0 <= idx(j), idx(j) < it.n), sub(cond, idx(j)), inv(idx(j)) == j] + eqs + [sub(f, idx(j)) for f in facts]
        pats = [z3.Select(r.arrs[0], j)] if r.arrs else [idx(j)]
        s.assume(z3.ForAll([j], z3.Implies(z3.And(0 <= j, j < m), z3.And(*body)), patterns=[idx(j)] if not r.arrs else [pats[0], idx(j)]))
        s.assume(z3.ForAll([j, j2], z3.Implies(z3.And(0 <= j, j < j2, j2 < m), idx(j) < idx(j2)),
                           patterns=[MP(idx(j), idx(j2))]))
        s.assume(z3.ForAll([k], z3.Implies(z3.And(0 <= k, k < it.n, cond),
                                           z3.And(0 <= inv(k), inv(k) < m, idx(inv(k)) == k)),
                           patterns=[inv(k)]))
        self.last_filter = dict(idx=idx, inv=inv, m=m, cond=lambda a: sub(cond, a), n=it.n, r=r)
        self.filter_log.append(self.last_filter)
        s.notes['filter_log'] = s.notes.get('filter_log', ()) + (self.last_filter,)
        s.lists.update({i: v for i, v in sc.lists.items() if i not in s.lists})
        yield s, s.new_list(r)

    def deref(self, st, v):
        """list objects inside a value (also inside tuples) replaced by their current contents: what can be stored as a list element"""
        if isinstance(v, VListRef):
            return st.lists[v.lid]
        if isinstance(v, VTuple):
            return VTuple(tuple(self.deref(st, i) for i in v.items))
        if isinstance(v, VRecord):
            return VRecord(tuple((n, self.deref(st, i)) for n, i in v.items))
        return v

    def comprehension2(self, node, st):
        """[elt for x in xs for y in f(x) if cond]: order-preserving flattening, described by ghost index maps
        ci(k), pi(k) (outer / inner index of result element k) and their inverse pos(a, b)"""
        g0, g1 = node.generators
        if g0.ifs:
            raise Unsupported("filter on the outer generator of a nested comprehension")
        s, src0 = self.ev1(g0.iter, st)
        it0 = self.iterable(s, src0)
        a, b = z3.Int(fresh_name('fa')), z3.Int(fresh_name('fb'))
        sc = s.fork()
        sc.assume(0 <= a, a < it0.n)
        base_pc = len(sc.pc)
        self.qvars.append(a)
        try:
            self.bind_target(sc, g0.target, it0.at(a))
            sc, src1 = self.ev1(g1.iter, sc)
            it1 = self.iterable(sc, src1)
            n1 = it1.n
            sc.assume(0 <= b, b < n1)
            self.qvars.append(b)
            try:
                self.bind_target(sc, g1.target, it1.at(b))
                cond = None
                for c in g1.ifs:
                    sc, cv = self.ev1(c, sc)
                    t = self.truth(sc, cv)
                    cond = t if cond is None else z3.And(cond, t)
                    sc.assume(t)
                    self.narrow(sc, c, True)
                sc, elt = self.ev1(node.elt, sc)
            finally:
                self.qvars.pop()
        finally:
            self.qvars.pop()
        if isinstance(elt, VListRef):
            elt = sc.lists[elt.lid]
        facts = [f for f in sc.pc[base_pc:] if not (cond is not None and f.eq(cond))]
        facts = [f for f in facts if not f.eq(z3.And(0 <= b, b < n1))]
        cond = cond if cond is not None else z3.BoolVal(True)
        m = z3.Int(fresh_name('flat.len'))
        r = self.fresh_list(elt.kind, 'flat', n=m)
        ci = z3.Function(fresh_name('ci'), z3.IntSort(), z3.IntSort())
        pi = z3.Function(fresh_name('pi'), z3.IntSort(), z3.IntSort())
        pos = z3.Function(fresh_name('pos'), z3.IntSort(), z3.IntSort(), z3.IntSort())
        k, k2 = z3.Int(fresh_name('fk')), z3.Int(fresh_name('fk2'))
        sub = lambda f, x, y: z3.substitute(f, (a, x), (b, y))
        eqs = [z3.Select(ra, k) == sub(c, ci(k), pi(k)) for ra, c in zip(r.arrs, elt.cols())]
        body = [0 <= ci(k), ci(k) < it0.n, 0 <= pi(k), pi(k) < sub(n1, ci(k), pi(k)), sub(cond, ci(k), pi(k)),
                pos(ci(k), pi(k)) == k] + eqs + [sub(f, ci(k), pi(k)) for f in facts]
        s.assume(m >= 0)
        s.assume(z3.ForAll([k], z3.Implies(z3.And(0 <= k, k < m), z3.And(*body)),
                           patterns=[z3.Select(r.arrs[0], k), ci(k)] if r.arrs else [ci(k)]))
        s.assume(z3.ForAll([a, b], z3.Implies(z3.And(0 <= a, a < it0.n, 0 <= b, b < n1, cond),
                                              z3.And(0 <= pos(a, b), pos(a, b) < m, ci(pos(a, b)) == a, pi(pos(a, b)) == b)),
                           patterns=[pos(a, b)]))
        s.assume(z3.ForAll([k, k2], z3.Implies(z3.And(0 <= k, k < k2, k2 < m),
                                               z3.Or(ci(k) < ci(k2), z3.And(ci(k) == ci(k2), pi(k) < pi(k2)))),
                           patterns=[MP(ci(k), ci(k2))]))
        self.last_flatten = dict(ci=ci, pi=pi, pos=pos, m=m, n0=it0.n, n1=lambda x: z3.substitute(n1, (a, x)),
                                 cond=lambda x, y: sub(cond, x, y), r=r)
        s.notes['last_flatten'] = self.last_flatten
        s.lists.update({i: v for i, v in sc.lists.items() if i not in s.lists})
        yield s, s.new_list(r)

    def bind_target(self, st, target, v):
        if isinstance(target, ast.Name):
            st.bind(target.id, v)
        elif isinstance(target, (ast.Tuple, ast.List)):
            if isinstance(v, VTuple):
                items = v.items
            else:
                raise Unsupported("unpacking a non-tuple value")
            starred = [i for i, e in enumerate(target.elts) if isinstance(e, ast.Starred)]
            if starred:
                raise Unsupported("starred unpacking")
            if len(items) != len(target.elts):
                self.check(st, z3.BoolVal(False), f"safety[{self.site(st, 'unpack')}]::unpack_arity", 'safety')
                raise Unsupported("unpack arity mismatch")
            for e, i in zip(target.elts, items):
                self.bind_target(st, e, i)
        else:
            raise Unsupported("assignment target")

    # ------------------------------------------------------------------ attributes
    def getattr_(self, st, base, attr, node=None):
        if isinstance(base, VModule):
            if base.name == 'math' and attr == 'inf':
                yield st, VFloatInf()
                return
            if base.name == 'sys' and attr in ('stdout', 'stderr', 'stdin'):
                yield st, VObj(z3.Const(f'sys.{attr}', Ref), ('TextIO',))     # one distinguished file object each
                return
            yield st, VFunc('builtin', (f"{base.name}.{attr}",))
            return
        if isinstance(base, VFunc) and base.tag == 'builtin':
            nm = base.data[0]
            nm = {'itertools.chain': 'chain'}.get(nm, nm)
            yield st, VFunc('builtin', (f"{nm}.{attr}",))
            return
        if isinstance(base, VFunc) and base.tag == 'class':
            yield st, self.class_attr(st, base.data[0], attr)
            return
        if isinstance(base, VSuper):
            mro = self.repo.mro(base.obj.classes[0])
            names = [c.name for c in mro]
            for ci in mro[names.index(base.after) + 1:]:
                if attr in ci.methods:
                    yield st, VFunc('bound', (ci.methods[attr], ci, base.obj))
                    return
            raise Unsupported(f"super().{attr} not found")
        if isinstance(base, VOpt):
            self.check(st, z3.Not(base.none), f"safety[{self.site(st, 'attr')}]::attribute_of_None::{attr}", 'safety')
            base = base.val
        if isinstance(base, VNone):
            self.check(st, z3.BoolVal(False), f"safety[{self.site(st, 'attr')}]::attribute_of_None::{attr}", 'safety')
            return
        if isinstance(base, VListRef):
            if attr == 'size':
                yield st, VInt(st.lists[base.lid].n)          # numpy array attribute (arrays are modelled as lists)
                return
            yield st, VFunc('listmeth', (base, attr))
            return
        if isinstance(base, VEnum):
            if attr == 'value':
                f = z3.Function(f'enum_value:{base.cls}', z3.IntSort(), Ref)
                yield st, VObj(f(base.t), ('str',))
                return
        if isinstance(base, VDict):
            if attr not in ('keys', 'values', 'items', 'get'):
                raise Unsupported(f"dict method {attr} (dicts are read-only in the modelled subset)")
            yield st, VFunc('dictmeth', (base, attr))
            return
        if isinstance(base, VStr):
            if attr == 'join':
                yield st, VFunc('builtin', ('str.join',))
                return
            raise Unsupported(f"str method {attr}")
        if not isinstance(base, VObj):
            raise Unsupported(f"attribute {attr} of {type(base).__name__}")
        if base.classes == ('TextIO',) and attr == 'close':
            yield st, VFunc('builtin', ('TextIO.close',))
            return
        # group the possible classes by how the attribute resolves
        groups = {}
        have, lack = [], []
        for c in base.classes:
            try:
                self.resolve_attr(c, attr)
                have.append(c)
            except Unsupported:
                lack.append(c)
        if have and lack:
            # AttributeError unless the object is of a class that has the attribute: a safety obligation (typically implied by an isinstance test)
            self.check(st, z3.Or(*[cls_of(base.t) == self.cls_id(c) for c in have]),
                       f"safety[{self.site(st, 'attr')}]::attribute_exists::{attr}", 'safety')
            base = VObj(base.t, tuple(have))
        for c in base.classes:
            res = self.resolve_attr(c, attr)
            if res[0] == 'field':
                gkey = ('field', res[1][0])
            elif res[0] in ('property', 'method'):
                gkey = (res[0], res[1].name, res[2].name)
            else:
                gkey = (res[0], res[1])
            groups.setdefault(gkey, []).append((c, res))
        multi = len(groups) > 1
        for key, members in groups.items():
            s = st.fork() if multi else st
            classes = tuple(c for c, _ in members)
            if multi:
                s.assume_branch(z3.Or(*[cls_of(base.t) == self.cls_id(c) for c in classes]))
                if not self.feasible(s):
                    continue
            o = VObj(base.t, classes)
            kind, res = members[0][1][0], members[0][1]
            if kind == 'field':
                yield s, self.get_field(s, o, attr)
            elif kind == 'property':
                _, ci, fn = res
                yield from self.call_def(s, fn, ci.module, ci, [o], {}, node)
            elif kind == 'method':
                _, ci, fn = res
                if 'staticmethod' in ci.decorators.get(fn.name, []):
                    yield s, VFunc('def', (fn, ci.module, ci, None))
                else:
                    yield s, VFunc('bound', (fn, ci, o))
            elif kind == 'classattr':
                yield s, self.class_attr(s, res[1], attr)
            else:
                raise Unsupported(f"cannot resolve attribute {attr} on {classes}")

    def resolve_attr(self, cls: str, attr: str):
        fk = self.field_kind(cls, attr)
        mro = self.repo.mro(cls)
        for ci in mro:
            if attr in ci.methods:
                if 'property' in ci.decorators.get(attr, []):
                    return ('property', ci, ci.methods[attr])
                return ('method', ci, ci.methods[attr])
            if fk is not None and fk[0] == ci.name:
                return ('field', fk)
        if fk is not None:
            return ('field', fk)
        for ci in mro:
            if attr in ci.class_attrs or f"{ci.name}.{attr}" in ci.module.assigns:
                return ('classattr', ci.name, None)
        raise Unsupported(f"unknown attribute {cls}.{attr} (no schema entry, method or class attribute)")

    def class_attr(self, st, cname: str, attr: str):
        ci = self.repo.cls(cname, st.frame.module) or self.repo.cls(cname)
        if ci is None:
            raise Unsupported(f"unknown class {cname}")
        for c in self.repo.mro(ci.name):
            if attr in c.methods:
                return VFunc('def', (c.methods[attr], c.module, c, None))
            if 'Enum' in c.bases and attr in c.class_attrs:
                members = list(c.class_attrs)
                return VEnum(c.name, z3.IntVal(members.index(attr)))
            key = f"{c.name}.{attr}"
            if key in c.module.assigns:
                return self.global_object(key, c.module.assigns[key], c.module)
            if attr in c.class_attrs:
                return self.global_object(key, c.class_attrs[attr], c.module)
        raise Unsupported(f"class attribute {cname}.{attr}")

    def global_object(self, key, expr, module):
        """a module-level singleton such as `AlignedPair.null = _NullAlignedPair()`: evaluated once in a
        scratch state; the facts about the fresh object become background axioms"""
        if key in self._globals:
            return self._globals[key]
        sc = State()
        fr = Frame(module, None, None)
        sc.frames[0] = fr
        sc.cur = 0
        saved = self.current_fid
        outs = list(self.ev(expr, sc))
        if len(outs) != 1:
            raise Unsupported(f"global {key} does not evaluate deterministically")
        s2, v = outs[0]
        for f in s2.pc:
            self.add_background(('glob', key, f.sexpr()), f)
        self._globals[key] = v
        return v
