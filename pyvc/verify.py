"""Verification of one function of /repo against its sidecar contract."""
from __future__ import annotations

import ast
import time
import traceback
from typing import Dict, List, Optional

import z3

from .kinds import *
from .state import State, Frame, new_id
from .engine import EngineBase, Unsupported, NeedsContract, Obligation, cls_of
from .extract import Repo, ExtractError
from .symex import ExprMixin
from .symex2 import Expr2Mixin
from .symex3 import CallMixin
from .symex4 import StmtMixin, NORMAL, label_sites
from .symex5 import LoopMixin
from .dsl import FunctionSpec, Ctx, view


class Engine(StmtMixin, LoopMixin, CallMixin, Expr2Mixin, ExprMixin, EngineBase):
    def __init__(self, repo, schema, specs, **kw):
        super().__init__(repo, schema, specs, **kw)
        self.qvars: List = []
        self.depth = 0
        self.top_spec: Optional[FunctionSpec] = None
        self.top_frame = 0
        self._node = None
        self._globals: Dict[str, V] = {}
        self.global_inline = set()
        self.lenient_classes = set()
        self.used_contracts = set()
        self.terminals: List = []
        self._psums: Dict = {}
        self.last_sorted = self.last_groupby = self.last_argm = None
        self.ghost_sites_hit = set()
        self.sorted_log = []
        self.groupby_log = []
        self.filter_log = []
        self.dedupe_log = []

    # ------------------------------------------------------------------ prefix sums
    def num_kind(self, k):
        return VInt if k is INT else VReal

    def psum_fn(self, l: VList, field: Optional[str], elem_term=None):
        """Pf for the base arrays of l: Pf(0)=0, Pf(t+1)=Pf(t)+x[t] over absolute indices t >= 0"""
        # the position list of an object (arrays = field functions applied to one reference): ONE function of (object, index) for all
        # objects, so that the sum can be stated under a quantifier over objects
        if l.arrs and all(z3.is_app(a) and a.num_args() == 1 and a.decl().kind() == z3.Z3_OP_UNINTERPRETED and a.arg(0).sort() == Ref
                          and a.arg(0).eq(l.arrs[0].arg(0)) for a in l.arrs):
            gkey = ('pf-field', tuple(a.decl().name() for a in l.arrs), field)
            if gkey not in self._psums:
                o, t = z3.Const(fresh_name('po'), Ref), z3.Int(fresh_name('pt'))
                base = VList(l.elem, tuple(a.decl()(o) for a in l.arrs), z3.IntVal(0), l.n)
                x = base.at(t)
                xt = self.num(x) if field is None else elem_term(x)
                srt = z3.IntSort() if z3.is_int(xt) else z3.RealSort()
                G = z3.Function(f"Pf_{l.arrs[0].decl().name()}_{field or 'elem'}", Ref, z3.IntSort(), srt)
                self.add_background(('pf', gkey), z3.And(
                    z3.ForAll([o], G(o, 0) == 0, patterns=[G(o, 0)]),
                    z3.ForAll([o, t], z3.Implies(t >= 0, G(o, t + 1) == G(o, t) + xt), patterns=[G(o, t + 1), z3.Select(l.arrs[0].decl()(o), t)])))
                self._psums[gkey] = G
                fdecls = [a.decl() for a in l.arrs]
                self._psum_register(l, field, srt, gkey,
                                    lambda H, o=o, t=t, G=G, fdecls=fdecls: z3.ForAll([o, t], G(o, t) == H(*[d(o) for d in fdecls], t), patterns=[G(o, t)]))
            G = self._psums[gkey]
            owner = l.arrs[0].arg(0)
            return lambda tt: G(owner, tt)
        key = (tuple(a.sexpr() for a in l.arrs), field)
        if key in self._psums:
            return self._psums[key]
        t = z3.Int(fresh_name('pt'))
        base = VList(l.elem, l.arrs, z3.IntVal(0), l.n)
        x = base.at(t)
        if field is None:
            xt = self.num(x)
        else:
            xt = elem_term(x)
        srt = z3.IntSort() if z3.is_int(xt) else z3.RealSort()
        Pf = z3.Function(fresh_name(f"Pf_{field or 'elem'}"), z3.IntSort(), srt)
        pats = [Pf(t + 1)]
        if l.arrs:
            pats.append(z3.Select(l.arrs[0], t))      # mentioning element t also unfolds the recurrence at t
        self.add_background(('pf', key), z3.And(Pf(0) == 0,
                                                 z3.ForAll([t], z3.Implies(t >= 0, Pf(t + 1) == Pf(t) + xt),
                                                           patterns=pats)))
        if l.arrs:
            arrs = l.arrs
            self._psum_register(l, field, srt, key, lambda H, t=t, Pf=Pf, arrs=arrs: z3.ForAll([t], Pf(t) == H(*arrs, t), patterns=[Pf(t)]))
        self._psums[key] = Pf
        return Pf

    def _psum_register(self, l, field, srt, key, mk_axiom):
        """tie a prefix-sum function to the hub - but only once a SECOND prefix-sum function of the same kind exists in this verification
        (with a single one there is nothing to connect, and the extra equalities cost solver time)"""
        hk = ('pf-hubfn', field, tuple(str(a.sort()) for a in l.arrs), str(srt))
        pend = self._psums.setdefault(('pf-pending',) + hk[1:], [])
        pend.append((key, mk_axiom))
        if len(pend) >= 2:
            H = self._psum_hub(l, field, srt)
            for k2, mk in pend:
                self.add_background(('pf-hub', k2), mk(H))

    def _psum_hub(self, l: VList, field, srt):
        """prefix sums are a function of the ARRAY (and the index): every prefix-sum function is tied to one uninterpreted hub function of
        (arrays, index), so that equal arrays have equal prefix sums (by congruence).  Conservative: the recurrences determine the values
        for every index >= 0 (induction at the meta level, listed in the trusted base)"""
        hk = ('pf-hubfn', field, tuple(str(a.sort()) for a in l.arrs), str(srt))
        if hk not in self._psums:
            self._psums[hk] = z3.Function(f"PfHub_{field or 'elem'}_{len(self._psums)}", *[a.sort() for a in l.arrs], z3.IntSort(), srt)
            self.assumptions.add('prefix sums of equal arrays are equal (induction over the recurrence, applied at the meta level)')
        return self._psums[hk]

    def psum(self, st, l: VList, elt, target, fid):
        """term for sum(elt for target in l)"""
        if elt is None:
            Pf = self.psum_fn(l, None)
        elif isinstance(elt, ast.Attribute) and isinstance(elt.value, ast.Name) and isinstance(target, ast.Name) \
                and elt.value.id == target.id:
            fname = elt.attr

            def term(x):
                sc = st.fork()
                v = self.getattr_pure(sc, x, fname)
                return self.num(v)
            Pf = self.psum_fn(l, fname, term)
        else:
            raise Unsupported("sum over an expression other than <var>.<field>")
        return Pf(z3.simplify(l.off + l.n)) - Pf(l.off)

    def getattr_pure(self, st, x, fname):
        outs = list(self.getattr_(st, x, fname, None))
        outs = self.merge(st, outs)
        return outs[0][1]

    def score_sum(self, l: VList, field='score'):
        """spec helper: Σ element.field over list value l (same function the engine uses for sum())"""
        if isinstance(l, VListRef):
            raise Unsupported("score_sum needs a list value")

        def term(x):
            sc = State()
            fr = Frame(None, None, None)
            sc.frames[0] = fr
            v = self.getattr_pure(sc, x, field)
            return self.num(v)
        Pf = self.psum_fn(l, field, term)
        return Pf(z3.simplify(l.off + l.n)) - Pf(l.off)

    def pf(self, l: VList, field='score'):
        def term(x):
            sc = State()
            sc.frames[0] = Frame(None, None, None)
            return self.num(self.getattr_pure(sc, x, field))
        return self.psum_fn(l, field, term)

    def count_fn(self, st, l, g, fid, key):
        if key in self._psums:
            return self._psums[key]
        t = z3.Int(fresh_name('ct'))
        base = VList(l.elem, l.arrs, z3.IntVal(0), l.n)
        sc = st.fork()
        saved = sc.cur
        sc.cur = fid
        self.qvars.append(t)
        try:
            self.bind_target(sc, g.target, base.at(t))
            sc, cv = self.ev1(g.ifs[0], sc)
            c = self.truth(sc, cv)
        finally:
            self.qvars.pop()
        Cf = z3.Function(fresh_name('Cnt'), z3.IntSort(), z3.IntSort())
        self.add_background(('cnt', key), z3.And(Cf(0) == 0, z3.ForAll(
            [t], z3.Implies(t >= 0, Cf(t + 1) == Cf(t) + z3.If(c, 1, 0)), patterns=[Cf(t + 1)])))
        self._psums[key] = Cf
        # log for contract text: the condition as a function of the ABSOLUTE index of the base array
        st.notes['count_log'] = st.notes.get('count_log', ()) + (dict(Cf=Cf, cond=lambda a, c=c, t=t: z3.substitute(c, (t, a)), l=l),)
        return Cf

    # ------------------------------------------------------------------ class invariants
    def register_class_invariants(self):
        """declared invariants of immutable classes (specs/schema.py: CLASS_INVARIANTS) become background axioms over every object of the
        class: objects only come from constructors, and each invariant is an obligation of its class's __init__ (verified like any
        function; the axioms are not used there)"""
        invs = self.specs.get('@class_invariants') or {}
        for cname, inv in invs.items():
            o = z3.Const(fresh_name('ci_o'), Ref)
            st = State()
            st.frames[0] = Frame(None, None, None)
            ov = view(self, st, VObj(o, (cname,)))
            trig = None
            if isinstance(inv, tuple):
                inv, trig = inv
            term = inv(self, ov)
            subs = [cname] + sorted(k for k in self.repo.class_index if k != cname and self.repo.is_subclass(k, cname))
            guard = z3.Or(*[cls_of(o) == self.cls_id(c) for c in subs])
            pats = trig(self, ov) if trig is not None else [cls_of(o)]       # instantiate only where the fields the invariant speaks about are mentioned
            self.add_background(('class-inv', cname), z3.ForAll([o], z3.Implies(guard, term), patterns=pats))
            self.assumptions.add(f"class invariant of {cname} (obligation of {cname}.__init__)")

    # ------------------------------------------------------------------ terminals
    def terminal(self, st, flow):
        self.terminals.append((st, flow))

    # ------------------------------------------------------------------ verification of one function
    def verify_function(self, spec: FunctionSpec) -> dict:
        t0 = time.time()
        self.current_fid = spec.fid
        self.top_spec = spec
        n_before = len(self.obligations)
        info = dict(fid=spec.fid, status='ok', error=None)
        try:
            fn, module, ci = self.repo.find_function(spec.file, spec.qualname)
            label_sites(fn)
            info['fn_hash'] = Repo.fn_hash(fn)
            info['file_hash'] = self.repo.file_hash(spec.file)
            self._verify(spec, fn, module, ci, info)
        except (Unsupported, ExtractError) as e:
            info['status'] = 'left-subset'
            info['error'] = f"{type(e).__name__}: {e}"
        except Exception as e:
            tb = traceback.extract_tb(e.__traceback__)
            in_spec = bool(tb) and '/specs/' in tb[-1].filename
            # an exception raised by contract text itself means the contract no longer fits the code
            # (e.g. a library call it refers to vanished): the function left the verifiable subset
            info['status'] = 'left-subset' if in_spec else 'checker-crash'
            info['error'] = traceback.format_exc()[-3000:]
        obs = self.obligations[n_before:]
        info['obligations'] = obs
        info['wall_s'] = round(time.time() - t0, 3)
        self.top_spec = None
        return info

    def _verify(self, spec, fn, module, ci, info):
        st = State()
        fr = Frame(module, ci, fn, spec=spec)
        fr.label = spec.qualname
        fid = new_id()
        st.frames[fid] = fr
        st.cur = fid
        self.top_frame = fid
        self.terminals = []
        self.register_axioms(spec)
        if spec.class_invariants and not spec.qualname.endswith('.__init__'):
            self.register_class_invariants()          # (opt-in: quantified background axioms cost the solver its counter-models elsewhere)
        # parameters
        a = fn.args
        pnames = [p.arg for p in a.posonlyargs + a.args + a.kwonlyargs]
        for p in pnames:
            if p not in spec.params:
                raise Unsupported(f"contract of {spec.fid} does not declare parameter '{p}'")
        for p in spec.params:
            if p not in pnames:
                raise Unsupported(f"contract of {spec.fid} declares '{p}' which is no longer a parameter")
        entry = {}
        for p in pnames:
            v = spec.params[p].fresh('arg_' + p)
            if isinstance(v, VList):
                # a list is an abstract sequence: w.l.o.g. the parameter's representation starts at offset 0
                v = VList(v.elem, v.arrs, z3.IntVal(0), v.n)
            st.assume(*self.wf(v, st))
            if isinstance(v, VList):
                v = st.new_list(v)
            fr.env[p] = v
            entry[p] = v
        est = st.fork()                           # entry snapshot for old-values in ensures
        C = Ctx(self, est, entry)
        for name, term in spec.requires(Ctx(self, st, entry)):
            st.assume(term)
        if self.check_sat(st, 'vacuity::requires_satisfiable') == 'unsat':
            info['status'] = 'vacuous-precondition'
            return
        est.pc = list(st.pc)
        for g, init in spec.ghost.items():
            val = init(Ctx(self, st, entry))
            self.ghost_set(st, g, val) if not isinstance(val, V) else st.bind(g, val)
            if isinstance(val, VList):
                st.bind(g, st.new_list(val))
        is_gen = any(isinstance(n, (ast.Yield, ast.YieldFrom)) for n in self.walk_own(fn))
        if is_gen:
            fr.yields = True
            fr.env['@out'] = st.new_list(self.fresh_list(spec.yields, 'out', n=z3.IntVal(0)) if spec.yields is not None
                                         else VList(NONE, (), z3.IntVal(0), z3.IntVal(0)))
        outcomes = []
        for s, flow in self.exec_block(fn.body, st):
            outcomes.append((s, flow))
        outcomes += [(s, f) for s, f in self.terminals]
        n_ret = 0
        for s, flow in outcomes:
            self.stats['paths'] += 1
            kind = flow[0]
            if kind == 'raise':
                exc = flow[1]
                if exc in spec.raises:
                    cond = spec.raises[exc](Ctx(self, s, entry))
                    self.check(s, cond, f"raises[{flow[2] if len(flow) > 2 else 'raise'}]::{exc}::only_when_specified", 'raises')
                else:
                    self.check(s, z3.BoolVal(False), f"safety[{flow[2] if len(flow) > 2 else 'raise'}]::unreachable_raise::{exc}", 'safety')
                continue
            if is_gen:
                res = s.frames[fid].env['@out']
                l = s.lists[res.lid]
                if l.elem is NONE and not l.arrs and spec.yields is not None:
                    s.lists[res.lid] = self.fresh_list(spec.yields, 'out', n=z3.IntVal(0))
            elif kind == 'return':
                res = flow[1]
            else:
                res = VNone()
            if spec.returns is not None and not is_gen:
                rl = s.lists[res.lid] if isinstance(res, VListRef) else res
                cres = self.coerce(s, rl, spec.returns)
                if cres is None:
                    raise Unsupported(f"return value of shape {type(rl).__name__}:{getattr(rl, 'kind', '?')} "
                                      f"does not fit the declared kind {spec.returns}")
                res = cres
            n_ret += 1
            # the raising condition must not hold on a normally returning path
            for exc, condf in spec.raises.items():
                self.check(s, z3.Not(condf(Ctx(self, s, entry))), f"raises::{exc}::raised_when_specified", 'raises')
            names = dict(entry)
            extra = {'F': self.local_ctx_for(s, fid)}
            Cx = Ctx(self, s, names, extra)
            object.__setattr__(Cx, '_entry_state', est)
            object.__setattr__(Cx, 'proving', True)
            clauses = spec.ensures(Cx, view(self, s, res))
            for name, term in clauses:
                self.check(s, term, f"ensures::{name}", 'postcondition')
            self.check_sat(s, f"vacuity::return_path_{n_ret}_reachable")
        if n_ret == 0 and not spec.raises:
            info['status'] = 'no-returning-path'
        info['returning_paths'] = n_ret

    def local_ctx_for(self, st, fid):
        saved = st.cur
        st.cur = fid
        try:
            return self.local_ctx(st)
        finally:
            st.cur = saved
