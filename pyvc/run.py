"""Driver: verify the functions named on the command line (or all) and print a table."""
import importlib, os, sys, glob, json, time
sys.path.insert(0, os.path.dirname(os.path.dirname(os.path.abspath(__file__))))
from pyvc.extract import Repo
from pyvc.verify import Engine


def load_specs():
    specs = {}
    root = os.path.dirname(os.path.dirname(os.path.abspath(__file__)))
    for f in sorted(glob.glob(os.path.join(root, 'specs', '*.py'))):
        name = os.path.basename(f)[:-3]
        if name in ('__init__', 'schema'):
            continue
        m = importlib.import_module('specs.' + name)
        for s in getattr(m, 'SPECS', []):
            specs[s.fid] = s
        for l in getattr(m, 'LEMMAS', []):
            specs[l.fid] = l
    from specs import schema
    specs['@class_invariants'] = getattr(schema, 'CLASS_INVARIANTS', {})
    specs['@constructor_site_invariants'] = getattr(schema, 'CONSTRUCTOR_SITE_INVARIANTS', set())
    return specs


def main(argv):
    from specs.schema import SCHEMA
    repo_root = os.environ.get('COMA_REPO', '/repo')
    specs = load_specs()
    want = [a for a in argv if not a.startswith('-')]
    verbose = '-v' in argv
    for fid, spec in specs.items():
        if fid.startswith('@'):
            continue
        if want and not any(w in fid for w in want):
            continue
        if getattr(spec, 'trusted', False):
            continue
        eng = Engine(Repo(repo_root), SCHEMA, specs)
        if fid.startswith('lemma::'):
            from pyvc.lemma import run_lemma
            info = run_lemma(eng, spec)
        else:
            info = eng.verify_function(spec)
        obs = info['obligations']
        bad = [o for o in obs if o.status != 'discharged']
        print(f"{fid}: {info['status']} obligations={len(obs)} discharged={len(obs)-len(bad)} paths={eng.stats['paths']} {info['wall_s']}s")
        if info['error']:
            print('   ', info['error'])
        for o in obs:
            if verbose or o.status != 'discharged':
                print(f"    {o.status:11s} {o.backend:6s} {o.time_s:6.2f}s {o.oid.split('::',2)[2]}")
                if o.status == 'refuted' and o.model_vals and verbose:
                    print('       model:', {k: v for k, v in list(o.model_vals.items())[:25]})
        for w, r in eng.sat_checks:
            if r != 'sat':
                print(f"    sat-check {r}: {w.split('::',2)[2]}")


if __name__ == '__main__':
    main(sys.argv[1:])
