"""Symbolic execution: calls (contract / inline / constructors) and statements (incl. loops cut at invariants)."""
from __future__ import annotations

import ast
from typing import Iterator, Tuple, List, Dict

import z3

from .kinds import *
from .state import State, Frame, new_id
from .engine import Unsupported, NeedsContract, cls_of
from .symex import VFloatInf
from .symex2 import VGen, VSuper, VExc, VMap
from . import builtins_ as B
from .dsl import Ctx, view, FunctionSpec


class CallMixin:
    # ------------------------------------------------------------------ calls
    def ev_Call(self, node, st):
        # super()
        if isinstance(node.func, ast.Name) and node.func.id == 'super' and not node.args:
            fr = st.frame
            selfv = fr.env[fr.fn.args.args[0].arg]
            yield st, VSuper(selfv, fr.cls.name)
            return
        for s, fv in self.ev(node.func, st):
            # arguments
            if any(isinstance(a, ast.Starred) for a in node.args):
                args, kwargs, star = [], {}, None
                for a in node.args:
                    if isinstance(a, ast.Starred):
                        s, v = self.ev1(a.value, s)
                        star = v
                        continue
                    s, v = self.ev1(a, s)
                    args.append(v)
                for kw in node.keywords:
                    s, v = self.ev1(kw.value, s)
                    kwargs[kw.arg] = v
                if isinstance(star, VTuple):
                    args = args + list(star.items)          # f(*tuple): the items become positional arguments
                else:
                    kwargs['*'] = star
                for s2, v in self.call(s, fv, args, kwargs, node):
                    yield s2, v
                continue
            if any(kw.arg is None for kw in node.keywords):
                raise Unsupported("**kwargs call")
            nodes = list(node.args) + [kw.value for kw in node.keywords]
            for s1, vals in self.ev_seq(nodes, s):
                args = vals[:len(node.args)]
                kwargs = {kw.arg: v for kw, v in zip(node.keywords, vals[len(node.args):])}
                for s2, v in self.call(s1, fv, args, kwargs, node):
                    if self.top_spec is not None and self.top_spec.ghost_at:
                        self.run_ghost(s2, getattr(node, '_site', 'call'), extra={'result': v, 'callargs': list(args), 'callkwargs': dict(kwargs)},
                                       site2=getattr(node, '_site2', None))
                    yield s2, v
            continue
            if star is not None:
                kwargs['*'] = star
            for s2, v in self.call(s, fv, args, kwargs, node):
                if self.top_spec is not None and self.top_spec.ghost_at:
                    self.run_ghost(s2, getattr(node, '_site', 'call'), extra={'result': v}, site2=getattr(node, '_site2', None))
                yield s2, v

    def call(self, st, fv, args, kwargs, node=None):
        if not isinstance(fv, VFunc):
            raise Unsupported(f"call of {type(fv).__name__}")
        tag = fv.tag
        if tag == 'builtin':
            yield from B.call_builtin(self, st, fv.data[0], args, kwargs, node)
        elif tag == 'class':
            yield from self.construct(st, fv.data[0], args, kwargs, node)
        elif tag == 'def':
            fn, module, ci, closure = fv.data
            yield from self.call_def(st, fn, module, ci, args, kwargs, node, closure)
        elif tag == 'bound':
            fn, ci, obj = fv.data
            yield from self.call_def(st, fn, ci.module, ci, [obj] + args, kwargs, node)
        elif tag == 'lambda':
            lam, fid = fv.data
            yield from self.call_lambda(st, lam, fid, args)
        elif tag == 'listmeth':
            yield from B.call_listmeth(self, st, fv.data[0], fv.data[1], args, node, kwargs)
        elif tag == 'dictmeth':
            yield from B.call_dictmeth(self, st, fv.data[0], fv.data[1], args, node, kwargs)
        elif tag == 'exc':
            yield st, VExc(fv.data[0])
        elif tag == 'uf':
            f, rk = fv.data
            if len(args) != 1 or not isinstance(args[0], VObj):
                raise Unsupported("uninterpreted callable applied to a non-object")
            yield st, rk.from_cols([f(args[0].t)])
        else:
            raise Unsupported(f"call tag {tag}")

    def call_lambda(self, st, lam: ast.Lambda, fid: int, args):
        if '*' in args if isinstance(args, dict) else False:
            raise Unsupported("lambda with star args")
        parent = st.frames[fid]
        fr = Frame(parent.module, parent.cls, None, parent=fid)
        nid = new_id()
        st.frames[nid] = fr
        saved = st.cur
        st.cur = nid
        params = lam.args.args
        if len(params) != len(args):
            raise Unsupported("lambda arity")
        for p, a in zip(params, args):
            fr.env[p.arg] = a
        for s, v in self.ev(lam.body, st):
            s.cur = saved
            yield s, v

    def qualname(self, fn, ci) -> str:
        return f"{ci.name}.{fn.name}" if ci is not None else fn.name

    def spec_for(self, fn, module, ci, st=None, args=None):
        """the contract used at a call site: the variant the caller names, else the default contract, else the first variant
        whose parameter kinds the arguments fit"""
        base = f"{module.path}::{self.qualname(fn, ci)}"
        top = self.top_spec
        want = top.use_variant.get(self.qualname(fn, ci)) if top is not None else None
        if want:
            sp = self.specs.get(f"{base}#{want}")
            if sp is None:
                raise Unsupported(f"contract variant {base}#{want} named by the caller does not exist")
            return sp
        sp = self.specs.get(base)
        if not hasattr(self, '_variants'):
            self._variants = {}
            for k, v in self.specs.items():
                if '#' in k and hasattr(v, 'params'):
                    self._variants.setdefault(k.split('#')[0], []).append(v)
        vs = [v for v in self._variants.get(base, []) if not v.verify_only]
        has_default = hasattr(sp, 'params')
        if has_default and (not vs or args is None or st is None):
            return sp
        if not vs:
            return None
        if args is None or st is None:
            return vs[0]
        a = fn.args
        pnames = [p.arg for p in a.posonlyargs + a.args]
        for v in ([sp] if has_default else []) + vs:
            ok = True
            for p, val in zip(pnames, args):
                k = v.params.get(p)
                if k is None or k is ANY or (isinstance(k, FUNC) and isinstance(val, VFunc)):
                    continue
                if p in v.elementwise and isinstance(val, (VListRef, VList)):
                    val = st.lst(val).elem.fresh('fit')            # an array argument of a scalar parameter: judged by its element kind
                    if isinstance(k, type(INT)) and not isinstance(val, VInt):
                        ok = False
                        break
                if self.coerce(st, val, k) is None or (k is INT and isinstance(val, VReal)):
                    ok = False
                    break
            if ok:
                return v
        if has_default:
            return sp
        raise Unsupported(f"no contract variant of {base} fits the arguments")

    def call_def(self, st, fn, module, ci, args, kwargs, node=None, closure=None):
        spec = self.spec_for(fn, module, ci, st, args)
        qn = self.qualname(fn, ci)
        top = self.top_spec
        if spec is not None and not spec.verify_only and not (top is not None and (qn in top.inline or spec.fid in top.inline)):
            if spec.elementwise:
                a = fn.args
                pnames = [p.arg for p in a.posonlyargs + a.args]
                hit = [i for i, (p, v) in enumerate(zip(pnames, args)) if p in spec.elementwise and isinstance(v, (VListRef, VList))]
                if hit:
                    yield from self.elementwise_call(st, spec, fn, args, kwargs, node, hit[0])
                    return
            yield from self.contract_call(st, spec, fn, args, kwargs, node)
            return
        decos = ci.decorators.get(fn.name, []) if ci is not None else []
        allowed = closure is not None or 'property' in decos or fn.name in ('__init__', '__eq__', '__lt__') \
            or (top is not None and (qn in top.inline or '*' in top.inline)) or qn in self.global_inline
        if not allowed:
            raise NeedsContract(f"call to {module.path}::{qn} has neither a contract nor an inline permission")
        yield from self.inline_call(st, fn, module, ci, args, kwargs, closure)

    def bind_params(self, st, fn, fr: Frame, args, kwargs, module):
        a = fn.args
        params = [p.arg for p in a.posonlyargs + a.args]
        defaults = a.defaults
        ndef = len(defaults)
        if a.vararg is not None or a.kwarg is not None:
            raise Unsupported("*args/**kwargs parameters")
        if len(args) > len(params):
            raise Unsupported(f"too many arguments for {fn.name}")
        for i, p in enumerate(params):
            if i < len(args):
                fr.env[p] = args[i]
            elif p in kwargs:
                fr.env[p] = kwargs[p]
            else:
                di = i - (len(params) - ndef)
                if di < 0:
                    raise Unsupported(f"missing argument {p} for {fn.name}")
                s2, v = self.ev1(defaults[di], st)
                fr.env[p] = v
        for p, d in zip(a.kwonlyargs, a.kw_defaults):
            if p.arg in kwargs:
                fr.env[p.arg] = kwargs[p.arg]
            elif d is not None:
                s2, v = self.ev1(d, st)
                fr.env[p.arg] = v

    def inline_call(self, st, fn, module, ci, args, kwargs, closure=None):
        if self.depth > 12:
            raise Unsupported("inlining depth exceeded")
        fr = Frame(module, ci, fn, parent=closure)
        fr.label = self.qualname(fn, ci)
        nid = new_id()
        st.frames[nid] = fr
        saved = st.cur
        st.cur = nid
        self.bind_params(st, fn, fr, args, kwargs, module)
        is_gen = any(isinstance(n, (ast.Yield, ast.YieldFrom)) for n in self.walk_own(fn))
        if is_gen:
            fr.yields = True
            fr.env['@out'] = st.new_list(VList(NONE, (), z3.IntVal(0), z3.IntVal(0)))
        self.depth += 1
        try:
            for s, flow in self.exec_block(fn.body, st):
                kind = flow[0]
                if kind == 'raise':
                    s.cur = saved
                    self.terminal(s, flow)
                    continue
                if is_gen:
                    val = s.frames[nid].env['@out']
                elif kind == 'return':
                    val = flow[1]
                else:
                    val = VNone()
                s.cur = saved
                yield s, val
        finally:
            self.depth -= 1

    @staticmethod
    def walk_own(fn):
        """walk the body of fn without descending into nested function definitions / lambdas"""
        stack = list(fn.body)
        while stack:
            n = stack.pop()
            yield n
            for c in ast.iter_child_nodes(n):
                if isinstance(c, (ast.FunctionDef, ast.Lambda, ast.ClassDef)):
                    continue
                stack.append(c)

    def pure_call(self, st, fn, ci, args) -> V:
        outs = list(self.inline_call(st, fn, ci.module, ci, args, {}))
        outs = self.merge(st, outs)
        s, v = outs[0]
        if s is not st:
            st.pc[:] = s.pc
            st.lists.update(s.lists)
        return v

    # ------------------------------------------------------------------ constructors
    def alloc(self, st, cname: str) -> VObj:
        nm = fresh_name(f"new:{cname}")
        if self.qvars:
            f = z3.Function(nm, *[q.sort() for q in self.qvars], Ref)
            t = f(*self.qvars)
        else:
            t = z3.Const(nm, Ref)
        o = VObj(t, (cname,))
        st.assume(cls_of(t) == self.cls_id(cname))
        return o

    def construct(self, st, cname, args, kwargs, node=None):
        ci = self.repo.cls(cname, st.frame.module) or self.repo.cls(cname)
        if ci is None:
            raise Unsupported(f"constructor of unknown class {cname}")
        cname = ci.name
        if 'NamedTuple' in ci.bases:
            raise Unsupported("NamedTuple construction")
        o = self.alloc(st, cname)
        before = set(st.objs)
        fm = self.repo.find_method(cname, '__init__')
        if fm is None:
            dcs = [c for c in reversed(self.repo.mro(cname)) if c.is_dataclass]
            if not dcs:
                if args or kwargs:
                    raise Unsupported(f"{cname} has no __init__")
                yield st, o
                return
            fields = [f for c in dcs for f in c.dataclass_fields]
            s = st
            for i, (fname, default) in enumerate(fields):
                if i < len(args):
                    v = args[i]
                elif fname in kwargs:
                    v = kwargs[fname]
                elif default is not None:
                    s, v = self.ev1(default, s)
                else:
                    raise Unsupported(f"missing dataclass field {fname}")
                self.set_field(s, o, fname, v)
            self.seal(s, o, cname, before)
            if cname in (self.specs.get('@constructor_site_invariants') or ()) and not self.qvars and self.top_spec is not None \
                    and self.top_spec.class_invariants:
                # a class whose declared invariant has no __init__ to carry it: every construction in verified code is an obligation
                inv = (self.specs.get('@class_invariants') or {}).get(cname)
                inv = inv[0] if isinstance(inv, tuple) else inv
                self._node = node if node is not None else self._node
                self.check(s, inv(self, view(self, s, o)), f"classinv[{self.site(s, 'call')}]::{cname}", 'class-invariant')
            yield s, o
            return
        cinfo, fn = fm
        for s, _ in self.inline_call(st, fn, cinfo.module, cinfo, [o] + args, kwargs):
            self.seal(s, o, cname, before)
            yield s, o

    def seal(self, st, o: VObj, cname: str, before):
        """after __init__: an immutable object's fields become facts about its field functions"""
        mut = self.repo.mutable_fields(cname)
        key = self.refkey(o)
        for (rk, fname), val in list(st.objs.items()):
            if rk != key or (rk, fname) in before:
                continue
            if fname in mut:
                continue
            fk = self.field_kind(cname, fname)
            if fk is None:
                if cname in self.lenient_classes:
                    continue
                raise Unsupported(f"no schema for field {cname}.{fname}")
            facts = self.field_eq_facts(st, o, cname, fname, val)
            if not facts and not isinstance(fk[1], type(NONE)):
                vv = st.lists[val.lid] if isinstance(val, VListRef) else val
                if isinstance(vv, VList) and vv.elem is NONE:
                    # empty literal list: only its length is known
                    fns = self.field_fns(fk[0], fname, fk[1])
                    facts = [fns[-1](o.t) == 0]
                else:
                    raise Unsupported(f"value of field {cname}.{fname} does not fit its schema kind {fk[1]}: {type(vv).__name__} {getattr(vv,'kind',None)}")
            st.assume(*facts)
            if not mut:
                del st.objs[(rk, fname)]

    # ------------------------------------------------------------------ contract calls
    def contract_call(self, st, spec: FunctionSpec, fn, args, kwargs, node=None):
        site = self.site(st, 'call')
        fr = Frame(self.repo.module(spec.file), None, fn)
        self.bind_params(st, fn, fr, args, kwargs, fr.module)
        names = {}
        for p, kind in spec.params.items():
            if p not in fr.env:
                raise Unsupported(f"contract {spec.fid}: parameter {p} not bound")
            v = fr.env[p]
            cv = v if (isinstance(kind, FUNC) and isinstance(v, VFunc)) or kind is ANY else self.coerce(st, v, kind)
            if cv is None:
                raise Unsupported(f"contract {spec.fid}: argument {p} ({type(v).__name__}:{getattr(v,'kind','?')}) does not fit kind {kind}")
            names[p] = cv
        self.register_axioms(spec)
        C = Ctx(self, st, names)
        object.__setattr__(C, 'proving', True)            # the caller proves the callee's precondition
        short = spec.qualname + (f"#{spec.variant}" if spec.variant else '')
        # a callee that may raise (partial-correctness contract) can only be called from a function whose contract permits it
        top_ = self.top_spec
        not_permitted = set(spec.may_raise) - (set(top_.may_raise) if top_ is not None else set())
        if not_permitted:
            self.check(st, z3.BoolVal(False), f"noraise[{site}]::{short}::callee_may_raise::{'+'.join(sorted(not_permitted))}", 'safety')
        # arguments must have one of the classes the contract was verified for
        for p, kind in spec.params.items():
            v = names[p]
            if isinstance(kind, OBJ) and isinstance(v, VObj) and kind.classes != ('str',) \
                    and not set(v.classes) <= set(kind.classes):
                self.check(st, self.type_fact(VObj(v.t, kind.classes)), f"precall[{site}]::{short}::argument_class::{p}", 'precondition')
        for cname, term in spec.requires(C):
            self.check(st, term, f"precall[{site}]::{short}::{cname}", 'precondition')
        for exc, condf in spec.raises.items():
            cond = condf(C)
            self.check(st, z3.Not(cond), f"noraise[{site}]::{short}::{exc}", 'safety')
        # mutation of arguments declared in the contract
        for p, what in spec.modifies.items():
            v = fr.env[p]
            for w in what:
                if w == '@list' and isinstance(v, VListRef):
                    old = st.lists[v.lid]
                    names['old_' + p] = old
                    st.lists[v.lid] = self.fresh_list(old.elem, 'mod_' + p)
                    st.assume(*self.wf(st.lists[v.lid], st))
                    names[p] = st.lists[v.lid]
                elif isinstance(v, VObj):
                    names.setdefault('old_' + p + '_' + w, self.get_field(st, v, w))
                    fk = self.field_kind(v.classes[0], w)
                    nv = fk[1].fresh(f"mod_{p}.{w}")
                    self.set_field(st, v, w, nv)
        kind = spec.yields and LIST(spec.yields) or spec.returns
        if kind is None:
            res = VNone()
        else:
            res = kind.fresh(f"ret:{short}")
            if self.qvars:
                res = self.skolemize(res, kind, f"ret:{short}")
            elif isinstance(res, VList):
                res = VList(res.elem, res.arrs, z3.IntVal(0), res.n)     # a fresh abstract sequence: offset 0 w.l.o.g.
            st.assume(*self.wf(res, st))
        C2 = Ctx(self, st, names)
        for cname, term in spec.ensures(C2, view(self, st, res)):
            st.assume(term)
        self.used_contracts.add(spec.fid + (' [assumed]' if spec.trusted else ''))
        if isinstance(res, VList):
            res = st.new_list(res)
        yield st, res

    def elementwise_call(self, st, spec, fn, args, kwargs, node, pos):
        """a function of a scalar called with a numpy array: ASSUMED to act element by element (broadcasting); the callee's contract is applied
        to a generic element under a quantifier"""
        self.assumptions.add('numpy array arithmetic is element-wise (a function verified for one coordinate is applied to an array)')
        l = st.lst(args[pos])
        k = z3.Int(fresh_name('ewk'))
        sc = st.fork()
        sc.assume(0 <= k, k < l.n)
        n0 = len(sc.pc)
        self.qvars.append(k)
        try:
            args2 = list(args)
            args2[pos] = l.at(k)
            outs = list(self.contract_call(sc, spec, fn, args2, kwargs, node))
        finally:
            self.qvars.pop()
        y = outs[0][1]
        facts = sc.pc[n0:]
        r = self.fresh_list(y.kind, 'ew', n=l.n)
        eqs = [z3.Select(ra, k) == c for ra, c in zip(r.arrs, y.cols())]
        st.assume(z3.ForAll([k], z3.Implies(z3.And(0 <= k, k < l.n), z3.And(*(eqs + facts))), patterns=[z3.Select(r.arrs[0], k)]))
        yield st, st.new_list(r)

    def skolemize(self, res: V, kind: Kind, base: str) -> V:
        """inside a quantified context a callee result depends on the bound variables"""
        cols = []
        for sfx, srt in kind.cols():
            f = z3.Function(fresh_name(base + sfx), *[q.sort() for q in self.qvars], srt)
            cols.append(f(*self.qvars))
        return kind.from_cols(cols)

    def register_axioms(self, spec: FunctionSpec):
        for i, ax in enumerate(spec.axioms()):
            self.add_background(('ax', spec.fid, i), ax)
