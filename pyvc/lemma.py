"""Lemmas over contracts: a property is restated as an SMT obligation whose hypotheses are the postconditions of the functions on
its chain.  A lemma is a small script that introduces symbolic values, applies contracts of real functions (callers are checked
against the callee's contract, exactly as in function verification) and states goals."""
from __future__ import annotations

import time
import traceback
from dataclasses import dataclass, field
from typing import Callable, Tuple

import z3

from .kinds import *
from .state import State, Frame, new_id
from .dsl import view, Ctx


@dataclass
class LemmaSpec:
    name: str
    run: Callable
    serves: Tuple[str, ...] = ()
    note: str = ''

    @property
    def fid(self):
        return f"lemma::{self.name}"


class LemmaCtx:
    def __init__(self, engine, spec: LemmaSpec):
        self.e = engine
        self.spec = spec
        self.st = State()
        fr = Frame(engine.repo.module('src/program.py'), None, None)
        fid = new_id()
        self.st.frames[fid] = fr
        self.st.cur = fid
        engine.top_frame = fid
        engine.top_spec = None
        engine.current_fid = spec.fid
        engine.global_inline |= {'AlignedPair.querySiteIdSelector', 'AlignedPair.referenceSiteIdSelector', 'AlignedPair.distanceSelector'}

    def fresh(self, kind, name='x'):
        v = kind.fresh(name)
        if isinstance(v, VList):
            v = VList(v.elem, v.arrs, z3.IntVal(0), v.n)
        self.st.assume(*self.e.wf(v, self.st))
        if isinstance(v, VList):
            v = self.st.new_list(v)
        return v

    def view(self, v):
        return view(self.e, self.st, v)

    def assume(self, *facts):
        self.st.assume(*facts)

    def call(self, spec, *args):
        fn, module, ci = self.e.repo.find_function(spec.file, spec.qualname)
        from .symex4 import label_sites
        label_sites(fn)
        self.e._node = fn
        outs = list(self.e.contract_call(self.st, spec, fn, list(args), {}, None))
        return outs[0][1]

    def check(self, name, goal):
        return self.e.check(self.st, goal, name, 'lemma')


def run_lemma(engine, spec: LemmaSpec) -> dict:
    t0 = time.time()
    n0 = len(engine.obligations)
    info = dict(fid=spec.fid, status='ok', error=None, fn_hash='lemma', file_hash='lemma')
    try:
        spec.run(LemmaCtx(engine, spec))
    except Exception:
        info['status'] = 'checker-crash'
        info['error'] = traceback.format_exc()[-2500:]
    info['obligations'] = engine.obligations[n0:]
    info['wall_s'] = round(time.time() - t0, 3)
    return info
