"""Kinds (static shapes of Python values) and symbolic values for pyvc.

A *kind* says how a Python value is laid out in SMT terms.  Every kind that can be stored in a list
or in an object field is a fixed tuple of *columns* (z3 sorts); a list is one z3 array per column of
its element kind plus an offset and a length (structure-of-arrays), an object is an element of the
uninterpreted sort Ref whose fields are global functions Ref -> column sort.

Python semantics assumed by this layer (listed in every evidence file as the trusted encoding):
  * int  -> SMT Int (exact: Python ints are unbounded)
  * float -> SMT Real (assumption "float-as-real")
  * -math.inf -> extended real (flag, value)
  * objects are immutable records unless their class assigns attributes outside __init__; those
    ("mutable structs") live in a per-path heap and are never stored in arrays
"""
from __future__ import annotations

import itertools
from dataclasses import dataclass, field
from typing import Any,  Tuple, Optional, List, Dict

import z3

Ref = z3.DeclareSort('Ref')
_cnt = itertools.count()


_keep_alive = []


def MP(*terms):
    """z3.MultiPattern that keeps its argument terms referenced: z3py's MultiPattern rebinds its argument tuple
    before calling the C API, so temporaries can be freed under it ('invalid argument')"""
    _keep_alive.append(terms)
    return z3.MultiPattern(*terms)


def fresh_name(base: str) -> str:
    return f"{base}!{next(_cnt)}"


# --------------------------------------------------------------------------------------------- kinds
class Kind:
    def cols(self) -> List[Tuple[str, z3.SortRef]]:
        raise NotImplementedError

    def from_cols(self, terms):
        raise NotImplementedError

    def fresh(self, base: str):
        return self.from_cols([z3.Const(fresh_name(base + sfx), s) for sfx, s in self.cols()])

    def __repr__(self):
        return self.__class__.__name__


class _Int(Kind):
    def cols(self): return [('', z3.IntSort())]
    def from_cols(self, t): return VInt(t[0])


class _Real(Kind):
    def cols(self): return [('', z3.RealSort())]
    def from_cols(self, t): return VReal(t[0])


class _Bool(Kind):
    def cols(self): return [('', z3.BoolSort())]
    def from_cols(self, t): return VBool(t[0])


class _None(Kind):
    def cols(self): return []
    def from_cols(self, t): return VNone()


class _Ext(Kind):
    """extended real: (is -inf, finite value)"""
    def cols(self): return [('.ninf', z3.BoolSort()), ('.v', z3.RealSort())]
    def from_cols(self, t): return VExt(t[0], t[1])


class _Str(Kind):
    """opaque string: an element of Ref (only constants and assumed-contract results)"""
    def cols(self): return [('', Ref)]
    def from_cols(self, t): return VObj(t[0], ('str',))


INT, REAL, BOOL, NONE, EXT, STR = _Int(), _Real(), _Bool(), _None(), _Ext(), _Str()


class _Any(Kind):
    """any value (only for parameters of ASSUMED contracts: the argument is passed through unchanged)"""
    def cols(self): return []
    def from_cols(self, t): raise TypeError("ANY is not storable")
    def fresh(self, base): raise TypeError("ANY cannot be introduced symbolically")


ANY = _Any()


@dataclass(frozen=True)
class FUNC(Kind):
    """a callable parameter, modelled as an uninterpreted function  Ref -> result kind (INT / REAL)"""
    result: Kind

    def cols(self): return []

    def fresh(self, base: str):
        srt = self.result.cols()[0][1]
        return VFunc('uf', (z3.Function(fresh_name(base), Ref, srt), self.result))

    def from_cols(self, t):
        raise TypeError("callables are not storable")


@dataclass(frozen=True)
class OBJ(Kind):
    classes: Tuple[str, ...]

    def __init__(self, *classes):
        object.__setattr__(self, 'classes', tuple(classes))

    def cols(self): return [('', Ref)]
    def from_cols(self, t): return VObj(t[0], self.classes)
    def __repr__(self): return f"OBJ{self.classes}"


@dataclass(frozen=True)
class ENUM(Kind):
    cls: str

    def cols(self): return [('', z3.IntSort())]
    def from_cols(self, t): return VEnum(self.cls, t[0])


@dataclass(frozen=True)
class OPT(Kind):
    base: Kind

    def cols(self): return [('.none', z3.BoolSort())] + [('.some' + s, srt) for s, srt in self.base.cols()]
    def from_cols(self, t): return VOpt(t[0], self.base.from_cols(t[1:]))
    def __repr__(self): return f"OPT({self.base})"


@dataclass(frozen=True)
class TUPLE(Kind):
    items: Tuple[Kind, ...]

    def __init__(self, *items):
        object.__setattr__(self, 'items', tuple(items))

    def cols(self):
        out = []
        for i, k in enumerate(self.items):
            out += [(f'.{i}{s}', srt) for s, srt in k.cols()]
        return out

    def from_cols(self, t):
        vals, p = [], 0
        for k in self.items:
            n = len(k.cols())
            vals.append(k.from_cols(t[p:p + n]))
            p += n
        return VTuple(tuple(vals))


@dataclass(frozen=True)
class RECORD(Kind):
    """a dict with a fixed set of string keys, read only by constant key (e.g. the properties dict of scipy.signal.find_peaks)"""
    fields: Tuple[Tuple[str, Kind], ...]

    def __init__(self, **fields):
        object.__setattr__(self, 'fields', tuple(fields.items()))

    def cols(self):
        out = []
        for name, k in self.fields:
            out += [(f'.{name}{s}', srt) for s, srt in k.cols()]
        return out

    def from_cols(self, t):
        vals, p = {}, 0
        for name, k in self.fields:
            n = len(k.cols())
            vals[name] = k.from_cols(t[p:p + n])
            p += n
        return VRecord(tuple(vals.items()))


@dataclass(frozen=True)
class LIST(Kind):
    elem: Kind

    def cols(self):
        return [('.a' + s, z3.ArraySort(z3.IntSort(), srt)) for s, srt in self.elem.cols()] + \
               [('.off', z3.IntSort()), ('.len', z3.IntSort())]

    def from_cols(self, t):
        return VList(self.elem, tuple(t[:-2]), t[-2], t[-1])

    def __repr__(self): return f"LIST({self.elem})"


@dataclass(frozen=True)
class DICT(Kind):
    """a Python dict that the verified code only READS (subscript, `in`, keys / values / items, len, iteration): one reference; contents through the
    uninterpreted functions of dict_fns (per key / value kind): has, get, and the insertion-ordered key and value tables"""
    key: Kind
    val: Kind

    def cols(self): return [('', Ref)]
    def from_cols(self, t): return VDict(t[0], self.key, self.val)
    def __repr__(self): return f"DICT({self.key}, {self.val})"


_dict_fns = {}


def dict_fns(key: Kind, val: Kind):
    """(has, [get per value column], n, [key table per key column], [value table per value column]) for dicts of this shape"""
    sig = f"{key}->{val}"
    if sig not in _dict_fns:
        ks = [srt for _, srt in key.cols()]
        has = z3.Function(f"dict_has<{sig}>", Ref, *ks, z3.BoolSort())
        get = [z3.Function(f"dict_get<{sig}>{sfx}", Ref, *ks, srt) for sfx, srt in val.cols()]
        n = z3.Function(f"dict_len<{sig}>", Ref, z3.IntSort())
        keys = [z3.Function(f"dict_keys<{sig}>{sfx}", Ref, z3.ArraySort(z3.IntSort(), srt)) for sfx, srt in key.cols()]
        vals = [z3.Function(f"dict_vals<{sig}>{sfx}", Ref, z3.ArraySort(z3.IntSort(), srt)) for sfx, srt in val.cols()]
        idx = z3.Function(f"dict_idx<{sig}>", Ref, *ks, z3.IntSort())
        _dict_fns[sig] = (has, get, n, keys, vals, idx)
    return _dict_fns[sig]


# -------------------------------------------------------------------------------------------- values
class V:
    kind: Kind

    def cols(self):
        raise NotImplementedError


@dataclass(frozen=True)
class VInt(V):
    t: z3.ArithRef
    kind = INT
    def cols(self): return [self.t]


@dataclass(frozen=True)
class RAW(Kind):
    """a raw solver term of the given sort (ghost state only: e.g. an array Ref -> Int used as a ghost map)"""
    sort: Any

    def cols(self): return [('', self.sort)]
    def from_cols(self, t): return VRaw(t[0])
    def __repr__(self): return f"RAW({self.sort})"


@dataclass(frozen=True)
class VRaw(V):
    t: Any
    @property
    def kind(self): return RAW(self.t.sort())
    def cols(self): return [self.t]


@dataclass(frozen=True)
class VReal(V):
    t: z3.ArithRef
    kind = REAL
    def cols(self): return [self.t]


@dataclass(frozen=True)
class VBool(V):
    t: z3.BoolRef
    kind = BOOL
    def cols(self): return [self.t]


@dataclass(frozen=True)
class VNone(V):
    kind = NONE
    def cols(self): return []


@dataclass(frozen=True)
class VExt(V):
    ninf: z3.BoolRef
    v: z3.ArithRef
    kind = EXT
    def cols(self): return [self.ninf, self.v]


@dataclass(frozen=True)
class VObj(V):
    t: z3.ExprRef
    classes: Tuple[str, ...]

    @property
    def kind(self): return OBJ(*self.classes)
    def cols(self): return [self.t]


@dataclass(frozen=True)
class VEnum(V):
    cls: str
    t: z3.ArithRef

    @property
    def kind(self): return ENUM(self.cls)
    def cols(self): return [self.t]


@dataclass(frozen=True)
class VOpt(V):
    none: z3.BoolRef
    val: V

    @property
    def kind(self): return OPT(self.val.kind)
    def cols(self): return [self.none] + self.val.cols()


@dataclass(frozen=True)
class VTuple(V):
    items: Tuple[V, ...]

    @property
    def kind(self): return TUPLE(*[i.kind for i in self.items])

    def cols(self):
        out = []
        for i in self.items:
            out += i.cols()
        return out


@dataclass(frozen=True)
class VList(V):
    """immutable list value: element columns as arrays, offset, length.  element k is arr[off+k]"""
    elem: Kind
    arrs: Tuple[z3.ArrayRef, ...]
    off: z3.ArithRef
    n: z3.ArithRef

    @property
    def kind(self): return LIST(self.elem)
    def cols(self): return list(self.arrs) + [self.off, self.n]

    def at(self, k):
        """element at (non-negative, in-range) index term k; no bounds obligation here"""
        idx = z3.simplify(self.off + k)
        return self.elem.from_cols([z3.Select(a, idx) for a in self.arrs])


@dataclass(frozen=True)
class VListRef(V):
    """a Python list object: identity lid, contents in State.lists[lid] (a VList)"""
    lid: int


@dataclass(frozen=True)
class VRecord(V):
    items: Tuple[Tuple[str, V], ...]

    @property
    def kind(self): return RECORD(**{n: v.kind for n, v in self.items})

    def cols(self):
        out = []
        for _, v in self.items:
            out += v.cols()
        return out

    def get(self, name):
        return dict(self.items).get(name)


@dataclass(frozen=True)
class VDict(V):
    """a read-only dict: identity t; see DICT"""
    t: z3.ExprRef
    key: Kind
    val: Kind

    @property
    def kind(self): return DICT(self.key, self.val)

    def cols(self): return [self.t]

    @property
    def fns(self): return dict_fns(self.key, self.val)

    def has(self, k: V): return self.fns[0](self.t, *k.cols())
    def get(self, k: V): return self.val.from_cols([g(self.t, *k.cols()) for g in self.fns[1]])
    @property
    def n(self): return self.fns[2](self.t)
    def keys_list(self): return VList(self.key, tuple(f(self.t) for f in self.fns[3]), z3.IntVal(0), self.n)
    def values_list(self): return VList(self.val, tuple(f(self.t) for f in self.fns[4]), z3.IntVal(0), self.n)
    def idx(self, k: V): return self.fns[5](self.t, *k.cols())

    def axioms(self):
        """what a dict is: the tables list each key once with its value, in insertion order; has(k) exactly for the listed keys"""
        j, j2 = z3.Int('dj'), z3.Int('dj2')
        K, Vl = self.keys_list(), self.values_list()
        kj, kj2 = K.at(j), K.at(j2)
        same = z3.And(*[a == b for a, b in zip(kj.cols(), kj2.cols())])
        gv = self.get(kj)
        ax = [self.n >= 0,
              z3.ForAll([j], z3.Implies(z3.And(0 <= j, j < self.n), z3.And(self.has(kj), self.idx(kj) == j, *[a == b for a, b in zip(gv.cols(), Vl.at(j).cols())])),
                        patterns=[z3.Select(K.arrs[0], j)] + ([z3.Select(Vl.arrs[0], j)] if Vl.arrs else []))]
        kv = [z3.Const(f'dk{i}', srt) for i, (_, srt) in enumerate(self.key.cols())]
        kV = self.key.from_cols(kv)
        at = K.at(self.idx(kV))
        ax.append(z3.ForAll(kv, z3.Implies(self.has(kV), z3.And(0 <= self.idx(kV), self.idx(kV) < self.n, *[a == b for a, b in zip(at.cols(), kv)])),
                            patterns=[self.has(kV)]))
        return ax


@dataclass(frozen=True)
class VStr(V):
    """a string constant known at analysis time"""
    s: str
    kind = STR


@dataclass(frozen=True)
class VFunc(V):
    """a callable: ('def', FunctionDef node, module, class or None, closure env) | ('lambda', ...) |
    ('builtin', name) | ('class', name) | ('bound', VFunc, self value)"""
    tag: str
    data: tuple


@dataclass(frozen=True)
class VIter(V):
    """iterator over a list: cell id in State.iters -> (list value, position term)"""
    iid: int


@dataclass(frozen=True)
class VRange(V):
    lo: z3.ArithRef
    hi: z3.ArithRef


@dataclass(frozen=True)
class VModule(V):
    name: str


def zite(c, x, y):
    if x.eq(y):
        return x
    if z3.is_true(c):
        return x
    if z3.is_false(c):
        return y
    return z3.If(c, x, y)


def ite_val(c, a: V, b: V) -> V:
    """value-level if-then-else for two values of compatible kind"""
    if isinstance(a, VNone) and isinstance(b, VNone):
        return a
    if isinstance(a, VNone) and not isinstance(b, VOpt):
        return VOpt(z3.If(c, z3.BoolVal(True), z3.BoolVal(False)), b)
    if isinstance(b, VNone) and not isinstance(a, VOpt):
        return VOpt(z3.If(c, z3.BoolVal(False), z3.BoolVal(True)), a)
    if isinstance(a, VOpt) or isinstance(b, VOpt):
        a = a if isinstance(a, VOpt) else (VOpt(z3.BoolVal(True), b.val) if isinstance(a, VNone) else VOpt(z3.BoolVal(False), a))
        b = b if isinstance(b, VOpt) else (VOpt(z3.BoolVal(True), a.val) if isinstance(b, VNone) else VOpt(z3.BoolVal(False), b))
        return VOpt(z3.If(c, a.none, b.none), ite_val(c, a.val, b.val))
    a, b = unify_num(a, b)
    if isinstance(a, VObj) and isinstance(b, VObj):
        return VObj(zite(c, a.t, b.t), tuple(dict.fromkeys(a.classes + b.classes)))
    if type(a) is not type(b):
        raise TypeError(f"ite over different value shapes: {a} / {b}")
    if isinstance(a, VTuple):
        return VTuple(tuple(ite_val(c, x, y) for x, y in zip(a.items, b.items)))
    if isinstance(a, VList):
        if a.elem != b.elem:
            raise TypeError("ite over lists of different element kind")
    ca, cb = a.cols(), b.cols()
    return a.kind.from_cols([zite(c, x, y) for x, y in zip(ca, cb)])


def unify_num(a: V, b: V):
    """numeric promotion int -> real -> ext, bool -> int"""
    if isinstance(a, VBool) and isinstance(b, (VInt, VReal, VExt)):
        a = VInt(z3.If(a.t, 1, 0))
    if isinstance(b, VBool) and isinstance(a, (VInt, VReal, VExt)):
        b = VInt(z3.If(b.t, 1, 0))
    if isinstance(a, VInt) and isinstance(b, (VReal, VExt)):
        a = VReal(z3.ToReal(a.t))
    if isinstance(b, VInt) and isinstance(a, (VReal, VExt)):
        b = VReal(z3.ToReal(b.t))
    if isinstance(a, VReal) and isinstance(b, VExt):
        a = VExt(z3.BoolVal(False), a.t)
    if isinstance(b, VReal) and isinstance(a, VExt):
        b = VExt(z3.BoolVal(False), b.t)
    return a, b
