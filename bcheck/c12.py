"""C12 bounded part / cross-check: the real AlignerEngine.align on an exhaustive small lattice (ties, coincident
labels, labels exactly at maxDistance, empty windows, both strands, fragments with label-number offsets)."""
import itertools
import random
from bcheck.common import pmap, result, time_limit, CaseTimeout

FID = 'src/alignment/aligner.py::AlignerEngine.align'


def oracle(ref_pos, q_pos, q_len, shift, start, d, rev, out):
    from src.alignment.alignment_position import AlignedPair, NotAlignedQueryPosition, NotAlignedReferencePosition
    end = start + q_len
    n = len(q_pos)
    # labels as the statement sees them
    qlabels = {}      # label number -> coordinate on the strand aligned
    for k, p in enumerate(q_pos):
        if rev:
            qlabels[shift + k + 1] = q_len - 1 - p
        else:
            qlabels[shift + k + 1] = p
    window = {i + 1: p for i, p in enumerate(ref_pos) if start - d <= p <= end + d}
    bad = []
    pairs = [p for p in out if isinstance(p, AlignedPair)]
    uref = [p for p in out if isinstance(p, NotAlignedReferencePosition)]
    uq = [p for p in out if isinstance(p, NotAlignedQueryPosition)]
    if len(pairs) + len(uref) + len(uq) != len(out):
        bad.append('only_pairs_and_unpaired_positions')
    got_q = sorted([p.query.siteId for p in pairs] + [p.query.siteId for p in uq])
    got_r = sorted([p.reference.siteId for p in pairs] + [p.reference.siteId for p in uref])
    if got_q != sorted(qlabels):
        bad.append('every_query_label_exactly_once')
    if got_r != sorted(window):
        bad.append('every_window_reference_label_exactly_once')
    if bad:
        return bad
    # coordinates reported must be the labels' own coordinates
    for p in pairs:
        if p.reference.position != window[p.reference.siteId] or p.query.position != qlabels[p.query.siteId]:
            bad.append('pair_coordinates_are_label_coordinates')
            break
    absolute = [(p.reference.position if not isinstance(p, NotAlignedQueryPosition) else p.query.position + start) for p in out]
    if absolute != sorted(absolute):
        bad.append('ascending_position_order')
    for p in pairs:
        off = p.query.position - (p.reference.position - start)
        if abs(off) > d:
            bad.append('pair_within_maxDistance')
        if p.queryShift != off:
            bad.append('offset_is_query_minus_reference_relative_to_seed')
    bypos = sorted(pairs, key=lambda p: (p.reference.position, p.reference.siteId))
    for a, b in zip(bypos, bypos[1:]):
        if a.reference.position < b.reference.position and a.query.position > b.query.position:
            bad.append('order_preserving')
    byid = sorted(pairs, key=lambda p: p.reference.siteId)
    qs = [p.query.siteId for p in byid]
    if any((b <= a) if not rev else (b >= a) for a, b in zip(qs, qs[1:])):
        bad.append('label_numbers_strictly_monotone')
    # mutual strict nearest neighbours within d are paired
    dist = lambda r, q: abs(qlabels[q] - (window[r] - start))
    pset = {(p.reference.siteId, p.query.siteId) for p in pairs}
    for r in window:
        for q in qlabels:
            if dist(r, q) <= d and all(dist(r, q2) > dist(r, q) for q2 in qlabels if q2 != q) \
                    and all(dist(r2, q) > dist(r, q) for r2 in window if r2 != r) and (r, q) not in pset:
                bad.append('mutual_strict_nearest_neighbours_are_paired')
    return sorted(set(bad))


def run_case(case, engines=None):
    """engines: {maxDistance: AlignerEngine} shared by the cases of a chunk - in the program ONE engine serves every query and every fragment
    (fragments share their molecule's id and length), so the pairing step must be a function of its arguments whatever it was asked before"""
    ref_pos, q_pos, q_len, shift, start, d, rev = case
    from src.alignment.aligner import AlignerEngine
    from src.correlation.optical_map import OpticalMap
    try:
        with time_limit(5):
            eng = AlignerEngine(d) if engines is None else engines.setdefault(d, AlignerEngine(d))
            out = eng.align(OpticalMap(1, max(ref_pos, default=0) + 1, list(ref_pos)),
                            OpticalMap(7, q_len, list(q_pos), shift), start, start + q_len, rev)
    except CaseTimeout:
        return case, ['exception:timeout'], 0
    except Exception as e:
        return case, [f'exception:{type(e).__name__}'], 0
    from src.alignment.alignment_position import AlignedPair
    return case, oracle(ref_pos, q_pos, q_len, shift, start, d, rev, out), sum(isinstance(p, AlignedPair) for p in out)


def run_chunk(cases):
    out, nt = [], 0
    engines, last = {}, {}
    for c in cases:
        case, bad, npairs = run_case(c, engines)
        nt += 1 if npairs >= 2 else 0
        if bad:
            out.append((case, bad, last.get(c[5])))        # with the call the same engine served just before (replay needs the history)
        last[c[5]] = c
    return len(cases), nt, out[:10]


def cases(tier, seed):
    grid = (0, 100, 200, 300, 400)
    refs = [r for n in (0, 1, 2, 3) for r in itertools.combinations_with_replacement(grid, n)]
    qs = [q for n in (1, 2, 3) for q in itertools.combinations_with_replacement((0, 100, 200), n)]
    for r in refs:
        for q in qs:
            qlen = q[-1] + 1
            for start in (-100, 0, 100, 150):
                for d in (0, 50, 100):
                    for rev in (False, True):
                        yield (r, q, qlen, 0, start, d, rev)
    # fragments with label-number offsets and an untrimmed length
    for r in refs[::3]:
        for q in qs:
            for rev in (False, True):
                yield (r, q, q[-1] + 101, 3, 0, 100, rev)
    # far down a chromosome (coordinates beyond 2^24, 2^31 and 2^32 bp) with labels one or two base pairs apart: whatever narrows the number type
    # of a coordinate (float32 keys, 32-bit integers) shows as a wrong order or a wrong partner
    rb = random.Random(seed * 61 + 1)
    for big in (2 ** 24 + 1000, 2 ** 31 + 7, 2 ** 32 + 12345):
        for _ in range(400 if tier == 'quick' else 6000):
            nr, nq = rb.randint(1, 6), rb.randint(1, 5)
            r = tuple(sorted(big + rb.choice((0, 1, 2, 3, 50, 51, 52, 100, 101, 200)) for _ in range(nr)))
            q = tuple(sorted(rb.choice((0, 1, 2, 3, 50, 51, 52, 100, 101)) for _ in range(nq)))
            yield (r, q, q[-1] + 1, 0, big + rb.choice((-1, 0, 1, 2, 50)), rb.choice((0, 1, 2, 50)), rb.random() < 0.5)
    rnd = random.Random(seed)
    for _ in range(3000 if tier == 'quick' else 40000):
        nr, nq = rnd.randint(0, 12), rnd.randint(1, 8)
        r = tuple(sorted(rnd.choice((0, 50, 100, 130, 170, 250, 300, 420, 500, 510, 640, 800, 950, 1000)) + rnd.choice((0, 0, 1000)) for _ in range(nr)))
        q = tuple(sorted(rnd.choice((0, 40, 100, 170, 260, 300, 480, 500)) for _ in range(nq)))
        yield (r, q, q[-1] + rnd.choice((1, 1, 50)), rnd.choice((0, 0, 2, 5)), rnd.choice((-300, -100, 0, 30, 100, 500, 1000)),
               rnd.choice((0, 30, 100, 250)), rnd.random() < 0.5)


def bounded(repo, tier, seed):
    allc = list(cases(tier, seed))
    chunks = [allc[i:i + 2500] for i in range(0, len(allc), 2500)]
    res = pmap(run_chunk, chunks, repo)
    viol = {}
    for r in res:
        for case, bad, prev in r[2]:
            key = f"{FID}::ensures::{bad[0]}"
            v = dict(key=key, blame=FID, input=dict(reference=list(case[0]), query=list(case[1]), queryLength=case[2], shift=case[3],
                                                    seed=case[4], maxDistance=case[5], reverse=case[6], previous_call_on_the_same_engine=prev),
                     observed=bad, required='C12 statement')
            if key not in viol or len(case[0]) + len(case[1]) < len(viol[key]['input']['reference']) + len(viol[key]['input']['query']):
                viol[key] = v
    return result(sum(r[0] for r in res), sum(r[1] for r in res),
                  "exhaustive lattice: reference label multisets of <=3 labels on a 100-bp grid (incl. coincident labels), query multisets of <=3 labels, "
                  "seed offsets -100/0/100/150, maxDistance 0/50/100 (labels exactly at maxDistance, ties), both strands, fragments with shift 3; the same kind of cases at coordinates beyond 2^24 / 2^31 / 2^32 bp with labels 1-2 bp apart; "
                  "plus random larger cases; the cases of a chunk share one engine per maxDistance (as all queries and fragments do in the program); non-trivial = at least 2 pairs", [dict(zip(('reference', 'query', 'queryLength', 'shift', 'seed', 'maxDistance', 'reverse'), c)) for c in allc[4000:4003]],
                  list(viol.values())[:5], exhaustive=True, bounds="<=3 reference and <=3 query labels on the lattice")


def replay(repo, rp):
    from bcheck.common import use_repo
    use_repo(repo)
    i = rp['input']
    engines = {}
    if i.get('previous_call_on_the_same_engine'):
        p = i['previous_call_on_the_same_engine']
        run_case((tuple(p[0]), tuple(p[1]), p[2], p[3], p[4], p[5], p[6]), engines)
    case, bad, _ = run_case((tuple(i['reference']), tuple(i['query']), i['queryLength'], i['shift'], i['seed'], i['maxDistance'], i['reverse']), engines)
    return (not bad), bad
