"""C16 bounded part: blur and createPeaks (numpy, outside the verifier) exhaustively on small cases, plus a
cross-check of the proved functions (vectorisePositions, toRelativeGenomicPositions, selectPeaks) on the real code."""
import itertools
import random
from math import ceil
from bcheck.common import pmap, result, merge

V = 'src/correlation/vectorise.py::'
OM = 'src/correlation/optical_map.py::'
PS = 'src/correlation/peaks_selector.py::PeaksSelector.selectPeaks'


def chk_vectorise(case):
    from src.correlation.vectorise import vectorisePositions
    pos, res, start, end = case
    try:
        out = list(vectorisePositions(list(pos), res, start, end))
    except Exception as e:
        return [f'exception:{type(e).__name__}']
    bad = []
    end_eff = end or pos[-1]
    for k, bit in enumerate(out):
        has = any(start + k * res <= p < start + (k + 1) * res for p in pos)
        if bit not in (0, 1):
            bad.append('bits')
        elif bit == 1 and not has:
            bad.append('set_bit_has_label_in_bin')
        elif bit == 0 and has:
            bad.append('clear_bit_has_no_label_in_bin')
    if any(start <= p <= end_eff and not p < start + len(out) * res for p in pos):
        bad.append('labels_between_start_and_end_are_covered')
    return sorted(set(bad))


def vectorise_cases():
    grid = range(0, 10)
    for n in (1, 2, 3):
        for pos in itertools.combinations_with_replacement(grid, n):
            for res in (1, 2, 3, 4):
                for start in (-2, 0, 1, 3):
                    for end in (None, 0, 2, 5, 9, 14):
                        yield ('vec', (pos, res, start, end))


def chk_blur(case):
    from src.correlation.vectorise import blur
    vec, radius = case
    try:
        out = list(blur(list(vec), radius))
    except Exception as e:
        return [f'exception:{type(e).__name__}']
    bad = []
    if len(out) != len(vec):
        bad.append('blur_keeps_length')
    else:
        for i in range(len(vec)):
            want = 1 if any(vec[j] for j in range(max(0, i - radius), min(len(vec), i + radius + 1))) else 0
            if out[i] != want:
                bad.append('blur_sets_bit_iff_original_within_radius')
                break
    return bad


def chk_trgp(case):
    import numpy as np
    from src.correlation.optical_map import toRelativeGenomicPositions
    c, res, start = case
    r = int(toRelativeGenomicPositions(np.array([c]), res, start)[0])
    bad = []
    if r != c * res + start + ceil(res / 2) - 1:
        bad.append('closed_form')
    if any(abs(x - r) > res / 2 for x in range(c * res + start, (c + 1) * res + start)):
        bad.append('bin_centre_within_half_resolution')
    return bad


def chk_select(case):
    from src.correlation.peaks_selector import PeaksSelector
    from src.correlation.peak import Peak

    class Corr:
        def __init__(self, peaks): self.peaks = peaks
    scores, count = case
    corrs = [Corr([Peak(10 * i + j, 1., score=s) for j, s in enumerate(row)]) for i, row in enumerate(scores)]
    out = PeaksSelector(count).selectPeaks(iter(corrs))
    allp = [(c, p) for c in corrs for p in c.peaks]
    bad = []
    got = [sp.peak.score for sp in out]
    if got != sorted(got, reverse=True):
        bad.append('descending_scores')
    if len(out) != min(count, len(allp)):
        bad.append('count_is_min_of_count_and_available')
    if any(not any(sp.peak is p and sp.primaryCorrelation is c for c, p in allp) for sp in out):
        bad.append('every_seed_is_an_input_peak')
    chosen = {id(sp.peak) for sp in out}
    if out and any(id(p) not in chosen and p.score > min(got) for _, p in allp):
        bad.append('no_dropped_peak_scores_higher')
    return bad


def chk_create(case):
    import numpy as np
    from src.correlation.optical_map import CorrelationResult
    heights, count, res, start = case
    n = len(heights)
    pp = np.arange(n) * 3
    props = {"peak_heights": np.array(heights, dtype=float), "left_ips": pp - 1.0, "right_ips": pp + 1.0}
    try:
        peaks = CorrelationResult.createPeaks(pp, props, res, start, 0.5, count)
    except Exception as e:
        return [f'exception:{type(e).__name__}']
    bad = []
    if len(peaks) != min(count, n):
        bad.append('createPeaks_count')
    hs = sorted(heights, reverse=True)[:len(peaks)]
    if sorted((p.height for p in peaks), reverse=True) != hs:
        bad.append('createPeaks_keeps_highest')
    for p in peaks:
        idx = [i for i in range(n) if int(pp[i]) * res + start + ceil(res / 2) - 1 == p.position and heights[i] == p.height]
        if not idx or p.score != p.height - 0.5:
            bad.append('createPeaks_position_is_bin_centre')
            break
    return sorted(set(bad))


def chk_pts(case):
    from src.correlation.sequence_generator import SequenceGenerator
    pos, res, start, end, radius = case
    try:
        out = [int(x) for x in SequenceGenerator(res, radius).positionsToSequence(list(pos), start, end)]
    except Exception as e:
        return [f'exception:{type(e).__name__}']
    has = lambda k: any(start + k * res <= p < start + (k + 1) * res for p in pos)
    bad = []
    for i, bit in enumerate(out):
        want = 1 if any(has(j) for j in range(max(0, i - radius), min(len(out), i + radius + 1))) else 0
        if bit != want:
            bad.append('bit_set_iff_a_label_lies_in_a_bin_within_the_blur_radius_relative_to_start')
            break
    end_eff = end or pos[-1]
    if any(start <= p <= end_eff and not p < start + len(out) * res for p in pos):
        bad.append('labels_between_start_and_end_are_covered')
    return bad


def chk_seq(case):
    """the same statement one level up, where the pipeline asks for bit vectors: OpticalMap.getSequence (whole map, or the window [start, end] of
    refine), on both strands - the reverse strand reads the same bits backwards"""
    from src.correlation.sequence_generator import SequenceGenerator
    from src.correlation.optical_map import OpticalMap
    pos, res, start, end, radius, reverse = case
    try:
        m = OpticalMap(1, max(pos) + 1, list(pos))
        out = [int(x) for x in (m.getSequence(SequenceGenerator(res, radius), reverse, start, end) if end is not None or start != 0
                                else m.getSequence(SequenceGenerator(res, radius), reverse))]
    except Exception as e:
        return [f'exception:{type(e).__name__}']
    if reverse:
        out = out[::-1]
    has = lambda k: any(start + k * res <= p < start + (k + 1) * res for p in pos)
    for i, bit in enumerate(out):
        want = 1 if any(has(j) for j in range(max(0, i - radius), min(len(out), i + radius + 1))) else 0
        if bit != want:
            return ['bit_set_iff_a_label_lies_in_a_bin_within_the_blur_radius_relative_to_start']
    end_eff = end or pos[-1]
    if any(start <= p <= end_eff and not p < start + len(out) * res for p in pos):
        return ['labels_between_start_and_end_are_covered']
    return []


def chk_ia(case):
    """seeds of one (reference, query, strand): a reference that carries the query's label pattern at 14 places (exact copies, further apart than
    minPeakDistance) must yield exactly min(peaksCount, 14) seeds for peaksCount up to 14, each at one of the copies (within a bin), no copy twice"""
    import warnings
    warnings.simplefilter('ignore')
    from src.correlation.optical_map import OpticalMap
    from src.correlation.sequence_generator import SequenceGenerator
    seed, = case
    rnd = random.Random(seed)
    pattern, x = [], 0
    for _ in range(rnd.randint(16, 24)):
        pattern.append(x)
        x += rnd.randint(3000, 12000)
    span = pattern[-1]
    ref, starts, at = [], [], rnd.randint(5000, 20000)
    for c in range(14):
        starts.append(at)
        ref += [at + p for p in pattern]
        at += span + rnd.randint(40000, 90000)
        for _ in range(rnd.randint(1, 3)):                       # a few unrelated labels between the copies
            ref.append(at - rnd.randint(8000, 30000))
    ref = sorted(set(ref))
    reference = OpticalMap(1, ref[-1] + 5000, ref)
    query = OpticalMap(2, span + 1, list(pattern))
    gen = SequenceGenerator(1400, 1)
    bad = []
    for k in (1, 3, 5, 12, 14):
        try:
            ia = query.getInitialAlignment(reference, gen, 20000, k)
        except Exception as e:
            return [f'exception:{type(e).__name__}']
        got = [p.position for p in ia.peaks]
        if len(got) != k:
            bad.append('as_many_seeds_as_asked_for_when_that_many_peaks_exist')
            break
        hit = sorted({min(range(14), key=lambda c: abs(starts[c] - g)) for g in got})
        if len(hit) != k or any(min(abs(s0 - g) for s0 in starts) > 2 * 1400 for g in got):
            bad.append('every_seed_at_a_copy_of_the_query_pattern_no_copy_twice')
            break
    return bad


CHECKS = {'pts': (chk_pts, 'src/correlation/sequence_generator.py::SequenceGenerator.positionsToSequence'),
          'vec': (chk_vectorise, V + 'vectorisePositions'), 'blur': (chk_blur, V + 'blur'),
          'trgp': (chk_trgp, OM + 'toRelativeGenomicPositions'), 'sel': (chk_select, PS),
          'create': (chk_create, OM + 'CorrelationResult.createPeaks'), 'seq': (chk_seq, OM + 'OpticalMap.getSequence'),
          'ia': (chk_ia, OM + 'OpticalMap.getInitialAlignment')}


def run_chunk(cases):
    out, nt = [], 0
    for kind, case in cases:
        f, fid = CHECKS[kind]
        bad = f(case)
        nt += 1 if kind != 'vec' or len(set(case[0])) > 1 else 0
        if bad:
            out.append((kind, case, bad))
    return len(cases), nt, out[:10]


def all_cases(tier, seed):
    cs = list(vectorise_cases())
    maxlen = 8 if tier == 'quick' else 11
    for n in range(0, maxlen + 1):
        for vec in itertools.product((0, 1), repeat=n):
            for radius in range(0, 4):
                cs.append(('blur', (vec, radius)))
    for c in range(0, 6):
        for res in range(1, 9):
            for start in (-3, 0, 5):
                cs.append(('trgp', (c, res, start)))
    # (a seed peak's score is its height minus the noise level of its correlation: zero and negative scores are ordinary values)
    for rows in itertools.product([(), (1,), (2, 1), (1, 1, 3), (0.5, 0.25, 0.25, 0.0), (-1,), (0, -0.5)], repeat=2):
        for count in range(0, 6):
            cs.append(('sel', (rows, count)))
    for n in range(0, 6):
        for hs in itertools.product((1, 2, 3, 4), repeat=n):
            for count in (0, 1, 2, 3, 7):
                cs.append(('create', (hs, count, 3, 10)))
    for n in (1, 2, 3):
        for pos in itertools.combinations(range(0, 9), n):
            for res in (1, 2, 3):
                for start in (-4, -1, 0, 2):
                    for end in (None, 5, 8, 12):
                        for radius in (0, 1, 2):
                            cs.append(('pts', (pos, res, start, end, radius)))
                            if start >= 0 and radius < 2:
                                for reverse in (False, True):
                                    cs.append(('seq', (pos, res, start, end, radius, reverse)))
    for i in range(6 if tier == 'quick' else 80):
        cs.append(('ia', (seed * 131 + i,)))
    rnd = random.Random(seed)
    for _ in range(500 if tier == 'quick' else 5000):
        n = rnd.randint(1, 25)
        pos = tuple(sorted(rnd.randint(0, 3000) for _ in range(n)))
        cs.append(('vec', (pos, rnd.choice((1, 7, 100, 140)), rnd.choice((-500, 0, 333)), rnd.choice((None, 1000, 2500, 5000)))))
    return cs


def bounded(repo, tier, seed):
    cs = all_cases(tier, seed)
    chunks = [cs[i:i + 3000] for i in range(0, len(cs), 3000)]
    res = pmap(run_chunk, chunks, repo, chunksize=1)
    viol = {}
    for r in res:
        for kind, case, bad in r[2]:
            fid = CHECKS[kind][1]
            key = f"{fid}::ensures::{bad[0]}"
            viol.setdefault(key, dict(key=key, blame=fid, input=dict(kind=kind, case=case), observed=bad, required='C16 statement'))
    counts = {}
    for k, _ in cs:
        counts[k] = counts.get(k, 0) + 1
    return result(sum(r[0] for r in res), sum(r[1] for r in res),
                  "exhaustive small cases per function: vectorisePositions (label lists of <=3 labels on 0..9 x resolution 1-4 x start x end incl. "
                  "None/0/before-last), blur (all bit vectors up to length %d x radius 0-3), toRelativeGenomicPositions (bins 0-5 x resolution 1-8 x start), "
                  "selectPeaks (peak score lists with ties, zero and negative scores x count 0-5), createPeaks (height vectors over 4 values with ties x peaksCount), OpticalMap.getSequence "
                  "(the positionsToSequence lattice with start >= 0 - a window start ON a label included - on both strands), getInitialAlignment on references that "
                  "carry the query pattern 14 times with peaksCount 1 / 3 / 5 / 12 / 14 (exactly that many seeds, each at a copy); "
                  "plus random larger label lists; counts per function: %s" % (8 if tier == 'quick' else 11, counts),
                  [dict(kind=k, case=c) for k, c in (cs[10], cs[len(cs) // 2], cs[-1])], list(viol.values())[:5],
                  exhaustive=True, bounds="see rule")


def replay(repo, rp):
    from bcheck.common import use_repo
    use_repo(repo)
    i = rp['input']
    def tup(x): return tuple(tup(y) for y in x) if isinstance(x, list) else x
    bad = CHECKS[i['kind']][0](tup(i['case']))
    return (not bad), bad
