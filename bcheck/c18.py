"""C18 bounded part: every XMAP file written by the real program on generated sets is read back with the project's own reader (both
pair parsers) and compared field by field with the text; the pair-string parsers are checked exhaustively on short strings."""
import itertools
from bcheck import pipe_driver as pd
from bcheck.common import merge, pmap, result

PP = 'src/parsers/xmap_alignment_pair_parser.py::XmapAlignmentPairParser.parse'


def parse_chunk(cases):
    from src.parsers.xmap_alignment_pair_parser import XmapAlignmentPairParser
    bad = []
    for pairs in cases:
        text = ''.join(f"({r},{q})" for r, q in pairs)
        try:
            got = XmapAlignmentPairParser().parse(text, 1, 1, False)
            if [(p.reference.siteId, p.query.siteId) for p in got] != list(pairs):
                bad.append((pairs, 'same_label_pairs'))
        except Exception as e:
            bad.append((pairs, f'exception:{type(e).__name__}'))
    return len(cases), sum(1 for c in cases if len(c) > 1), bad[:3]


def bounded(repo, tier, seed):
    ids = (1, 9, 10, 42, 100, 999)
    cases = [tuple(c) for n in (1, 2, 3) for c in itertools.product(itertools.product(ids, ids), repeat=n)][:: (7 if tier == 'quick' else 1)]
    chunks = [cases[i:i + 2000] for i in range(0, len(cases), 2000)]
    res = pmap(parse_chunk, chunks, repo)
    viol = []
    for r in res:
        for pairs, why in r[2]:
            viol.append(dict(key=f"{PP}::monitor::C18::{why}", blame=PP, input=dict(kind='pairs', pairs=[list(p) for p in pairs]), observed=why, required='C18'))
    part1 = result(sum(r[0] for r in res), sum(r[1] for r in res), "pair strings of 1-3 pairs over label numbers with 1-3 digits through XmapAlignmentPairParser.parse",
                   [dict(pairs=[list(p) for p in cases[5]])], viol[:2], exhaustive=(tier != 'quick'), bounds="<= 3 pairs")
    n = 40 if tier == 'quick' else 1000
    part2 = pd.run(repo, tier, seed, ['C18'], (lambda i: [['best', 'all', 'separate', 'joined'][i % 4]]) if tier == 'quick' else ['best', 'separate', 'joined', 'all'], n,
                   weights=[2, 2, 1, 2, 2, 2],
                   rule="every file written by the real program on generated CMAP sets (all modes, both strands, second-pass and joined records, one-record and "
                        "zero-record files) read back with XmapReader (plain and with-distance pair parser): one alignment per record in order, same ids, "
                        "orientation, HitEnum, label pairs, coordinates/lengths truncated to integers, confidence to 2 decimals, pair coordinates looked up from the same maps")
    return merge([part1, part2])


def replay(repo, rp):
    i = rp['input']
    if i.get('kind') == 'pairs':
        from bcheck.common import use_repo
        use_repo(repo)
        n, nt, bad = parse_chunk([tuple(tuple(p) for p in i['pairs'])])
        return (not bad), bad
    return pd.replay(repo, rp)
