"""C18 bounded part: every XMAP file written by the real program on generated sets is read back with the project's own reader (both
pair parsers) and compared field by field with the text; the pair-string parsers are checked exhaustively on short strings."""
import itertools
from bcheck import pipe_driver as pd
from bcheck.common import merge, pmap, result

PP = 'src/parsers/xmap_alignment_pair_parser.py::XmapAlignmentPairParser.parse'


def parse_chunk(cases):
    from src.parsers.xmap_alignment_pair_parser import XmapAlignmentPairParser
    bad = []
    for pairs in cases:
        text = ''.join(f"({r},{q})" for r, q in pairs)
        try:
            got = XmapAlignmentPairParser().parse(text, 1, 1, False)
            if [(p.reference.siteId, p.query.siteId) for p in got] != list(pairs):
                bad.append((pairs, 'same_label_pairs'))
        except Exception as e:
            bad.append((pairs, f'exception:{type(e).__name__}'))
    return len(cases), sum(1 for c in cases if len(c) > 1), bad[:3]


def rows_chunk(cases):
    """rows built from explicit pair lists, written with the real writer and read back"""
    import io
    from src.parsers.xmap_reader import XmapReader
    from src.alignment.alignment_results import AlignmentResults, AlignmentResultRow
    from src.alignment.alignment_position import AlignedPair, ScoredAlignedPair
    from src.alignment.segments import AlignmentSegment
    from src.alignment.segment_with_resolved_conflicts import AlignmentSegmentsWithResolvedConflicts
    from src.correlation.optical_map import PositionWithSiteId
    from src.correlation.peak import Peak
    from src.args import Args
    from bcheck.pipeline import parse_xmap_text
    bad = []
    for rowspecs in cases:
        rows = []
        for qid, rid, rev, pairs, rest in rowspecs:
            n = max((q for _, q in pairs), default=1)
            pos = [ScoredAlignedPair(AlignedPair(PositionWithSiteId(r, 1000.0 * r), PositionWithSiteId(q, 900.0 * ((n - q) if rev else (q - 1))), 0), 1000.)
                   for r, q in pairs]
            row = AlignmentResultRow.create(AlignmentSegmentsWithResolvedConflicts([AlignmentSegment(pos, 1000. * len(pos), Peak.null, [])]),
                                            qid, rid, 900.0 * (n - 1) + 1, 99000, rev)
            rows.append(row.setAlignedRest(rest))
        buf = io.StringIO()
        import argparse
        args = argparse.Namespace(outputMode='best', peaksCount=3)
        try:
            XmapReader().writeAlignments(buf, AlignmentResults('r.cmap', 'q.cmap', rows), args)
            text = buf.getvalue()
            got = XmapReader().readAlignments(io.StringIO(text))
        except Exception as e:
            bad.append((rowspecs, f'exception:{type(e).__name__}:{e}'[:100]))
            continue
        _, recs = parse_xmap_text(text)
        why = None
        if len(got) != len(rows):
            why = 'one_alignment_per_record_in_order'
        else:
            for a, row, rec in zip(got, rows, recs):
                if a.queryId != row.queryId or a.referenceId != row.referenceId:
                    why = 'same_ids'
                elif a.orientation != row.orientation or a.reverseStrand != row.reverseStrand:
                    why = 'same_orientation'
                elif str(a.cigarString) != row.cigarString:
                    why = 'same_hitenum'
                elif [(p.reference.siteId, p.query.siteId) for p in a.alignedPairs] != [(p.reference.siteId, p.query.siteId) for p in row.alignedPairs]:
                    why = 'same_label_pairs'
                elif (a.queryStartPosition, a.queryEndPosition, a.referenceStartPosition, a.referenceEndPosition, a.queryLength, a.referenceLength) != \
                        tuple(int(x) for x in (row.queryStartPosition, row.queryEndPosition, row.referenceStartPosition, row.referenceEndPosition,
                                               row.queryLength, row.referenceLength)):
                    why = 'coordinates_and_lengths_truncated_to_integers'
                elif abs(float(a.confidence) - round(row.confidence, 2)) > 1e-9:
                    why = 'confidence_to_two_decimals'
        if why:
            bad.append((rowspecs, why))
    return len(cases), sum(1 for c in cases if len(c) > 1), bad[:3]


def row_cases():
    plists = [((1, 1),), ((3, 2),), ((1, 1), (2, 2)), ((2, 1), (3, 3), (5, 4)), ((1, 2), (4, 3))]
    single = [(7, 1, rev, tuple((r, q) for r, q in (pl if not rev else [(r, max(q for _, q in pl) + 1 - q) for r, q in pl])), rest)
              for pl in plists for rev in (False, True) for rest in (False, True)]
    cases = [()] + [(s,) for s in single]
    cases += [(a, b) for a in single[::3] for b in single[1::4]]
    cases += [tuple(single[i:i + 5]) for i in range(0, len(single) - 5, 3)]
    return cases


def bounded(repo, tier, seed):
    ids = (1, 9, 10, 42, 100, 999)
    cases = [tuple(c) for n in (1, 2, 3) for c in itertools.product(itertools.product(ids, ids), repeat=n)][:: (7 if tier == 'quick' else 1)]
    chunks = [cases[i:i + 2000] for i in range(0, len(cases), 2000)]
    res = pmap(parse_chunk, chunks, repo)
    viol = []
    for r in res:
        for pairs, why in r[2]:
            viol.append(dict(key=f"{PP}::monitor::C18::{why}", blame=PP, input=dict(kind='pairs', pairs=[list(p) for p in pairs]), observed=why, required='C18'))
    part1 = result(sum(r[0] for r in res), sum(r[1] for r in res), "pair strings of 1-3 pairs over label numbers with 1-3 digits through XmapAlignmentPairParser.parse",
                   [dict(pairs=[list(p) for p in cases[5]])], viol[:2], exhaustive=(tier != 'quick'), bounds="<= 3 pairs")
    rc = row_cases()
    res3 = pmap(rows_chunk, [rc[i:i + 40] for i in range(0, len(rc), 40)], repo)
    RD = 'src/parsers/xmap_reader.py::XmapReader.readAlignments'
    viol3 = [dict(key=f"{RD}::monitor::C18::{why}", blame=RD, input=dict(kind='rows', rows=[list(r) for r in spec]), observed=why, required='C18')
             for r in res3 for spec, why in r[2]]
    part3 = result(sum(r[0] for r in res3), sum(r[1] for r in res3), "hand-enumerated record sets (0, 1, 2, 5 records; one-pair records; both strands; AlignedRest "
                   "True/False) built from explicit pair lists, written by the real writer and read back", [dict(rows=[list(r) for r in rc[3]])], viol3[:2],
                   exhaustive=True, bounds="see rule")
    n = 40 if tier == 'quick' else 1000
    part2 = pd.run(repo, tier, seed, ['C18'], (lambda i: [['best', 'all', 'separate', 'joined'][i % 4]]) if tier == 'quick' else ['best', 'separate', 'joined', 'all'], n,
                   weights=[2, 2, 1, 2, 2, 2], params_list=[{}, {}, {}, {}, {'qid_pad': 1500}, {}, {}],
                   rule="every file written by the real program on generated CMAP sets (all modes, both strands, second-pass and joined records, one-record and "
                        "zero-record files) read back with XmapReader (plain and with-distance pair parser): one alignment per record in order, same ids, "
                        "orientation, HitEnum, label pairs, coordinates/lengths truncated to integers, confidence to 2 decimals, pair coordinates looked up from the same maps")
    return merge([part1, part3, part2])


def replay(repo, rp):
    i = rp['input']
    if i.get('kind') == 'rows':
        from bcheck.common import use_repo
        use_repo(repo)
        def tup(x): return tuple(tup(y) for y in x) if isinstance(x, list) else x
        n, nt, bad = rows_chunk([tup(i['rows'])])
        return (not bad), bad
    if i.get('kind') == 'pairs':
        from bcheck.common import use_repo
        use_repo(repo)
        n, nt, bad = parse_chunk([tuple(tuple(p) for p in i['pairs'])])
        return (not bad), bad
    return pd.replay(repo, rp)
