"""Drives the real pipeline on generated CMAP sets in worker processes and applies the record-level oracles."""
from __future__ import annotations

import os
import random

from bcheck.common import pmap, result, time_limit, CaseTimeout
from bcheck import pipeline as pl
from bcheck import conflict_monitor as cm

DEFAULTS = dict(sp=1000, dp=1.0, su=-250, d=1500, ms=1000, bs=1200, p=3, diff=100000, ss=0, sj=1.0)


def install_context():
    """context (which query is being processed, which strand) for the conflict monitor; wraps real methods, idempotent"""
    import src.workflow_coordinator as wc
    import src.alignment.aligner as al
    import src.alignment.alignment_results as ar
    import src.alignment.segment_with_resolved_conflicts as rc
    cm.install()
    if getattr(wc, '_verif_ctx', False):
        return
    wc._verif_ctx = True
    name = '_WorkflowCoordinator__align'
    orig_align = getattr(wc._WorkflowCoordinator, name)

    def __align(self, referenceMaps, queryMap):
        cm.set_context(('align', queryMap.moleculeId))
        return orig_align(self, referenceMaps, queryMap)
    setattr(wc._WorkflowCoordinator, name, __align)

    orig_aligner = al.Aligner.align

    def align(self, reference, query, peaks, isReverse=False):
        cm._state.reverse = isReverse
        return orig_aligner(self, reference, query, peaks, isReverse)
    al.Aligner.align = align

    orig_join = ar.AlignmentResultRow.resolve

    def resolve(self, alignedRest):
        cm.set_context(('join', self.queryId))
        cm._state.reverse = self.reverseStrand
        n0 = len(cm._log())
        out = orig_join(self, alignedRest)
        for ev in cm._log()[n0:]:
            if ev['kind'] == 'pair':
                ev['reverse'] = self.reverseStrand
        return out
    ar.AlignmentResultRow.resolve = resolve

    orig_rc = rc.AlignmentSegmentConflictResolver.resolveConflicts

    def resolveConflicts(self, segments):
        n0 = len(cm._log())
        inputs = list(segments)
        out = orig_rc(self, segments)
        try:
            evs = cm._log()[n0:]
            bad = cm.judge_resolution(inputs, None, out.segments, evs, reverse=getattr(cm._state, 'reverse', None))
            if bad:
                cm._log().append(dict(kind='judged', bad=bad, context=getattr(cm._state, 'context', None)))
        except Exception as e:
            cm._log().append(dict(kind='monitor_error', error=repr(e)))
        return out
    rc.AlignmentSegmentConflictResolver.resolveConflicts = resolveConflicts


def param_args(params):
    flags = dict(sp='-sp', dp='-dp', su='-su', d='-d', ms='-ms', bs='-bs', p='-p', diff='-diff', ss='-ss', sj='-sj')
    out = []
    for k, v in params.items():
        if k == 'qid_pad':
            continue                     # (handled where the set is known: a long -qId list)
        if k == 'D':
            if v:
                out += ['-D']            # diagnostics: plots are drawn next to the output file; the records must not depend on it
            continue
        if DEFAULTS.get(k) != v:
            out += [flags[k], v]
    return out


def long_id_list(params, queries):
    """-qId with every molecule of the file and `qid_pad` ids that do not occur in it (legal: the filter selects the listed ids that exist): the
    command line, echoed in the header of every file written, then runs to many kilobytes"""
    n = params.get('qid_pad')
    if not n:
        return []
    return ['-qId'] + [q[0] for q in queries] + [10 ** 7 + 7 * i for i in range(n)]


def run_job(job):
    """job = dict(seed, modes, params, oracles, kinds, weights)"""
    from bcheck import records as R
    install_context()
    seed = job['seed']
    params = dict(DEFAULTS, **job.get('params', {}))
    if job.get('generator') == 'planted':
        # one reference with exact copies of interior windows as queries and near-duplicates of two windows further on (the C06 generator):
        # several seeds of one query pair all of its labels, only one of them is the best candidate
        from bcheck import c06
        ref, queries, truths = c06.gen(seed)
        refs = [ref]
    elif job.get('generator') == 'dense':
        refs, queries, truths = pl.gen_dense_set(seed)
    elif job.get('generator') == 'diag':
        refs, queries, truths = pl.gen_diag_set(seed)
    elif job.get('generator') == 'tandem':
        refs, queries, truths = pl.gen_tandem_set(seed)
    else:
        refs, queries, truths = pl.gen_set(seed, kinds=job.get('kinds', pl.KINDS), weights=job.get('weights'), odd_refs=job.get('odd_refs', False))
    d = pl.make_workdir(refs, queries, two_colour=(random.Random(seed + 5) if seed % 7 == 3 else None))      # every seventh set is a two-colour CMAP
    out = dict(records=0, nontrivial=0, violations=[], runs=0)
    try:
        with open(os.path.join(d, 'r.cmap')) as f:
            rtext = f.read()
        with open(os.path.join(d, 'q.cmap')) as f:
            qtext = f.read()
        pr, pq = pl.parse_cmap_text(rtext), pl.parse_cmap_text(qtext)
        runs = {}
        for mi, mode in enumerate(job['modes']):
            cm.reset()
            try:
                with time_limit(240):
                    run = pl.run_program(d, mode, param_args(params) + long_id_list(params, queries), style=job.get('style', random.Random(seed * 31 + mi).randrange(5)))      # (decorrelated from the mode, which also cycles with the set number)
            except CaseTimeout:
                out['violations'].append(('src/program.py::Program.run::monitor::C07::terminates', None, dict(mode=mode), job, mode))
                continue
            events = cm.events()
            runs[mode] = run
            out['runs'] += 1
            v = []
            oracles = job['oracles']
            if run.error is not None:
                if 'C07' in oracles or True:
                    v.append(('src/program.py::Program.run::monitor::C07::no_exception', None, dict(error=run.error[:600])))
            else:
                if run.handover_losses:
                    # the assumption every deductive argument about execute() rests on (p_imap yields f(x0), f(x1), ...) is broken by the results' own
                    # pickling: reported under the property being checked, with the real worker pool this is what the parent works with
                    v.append((f"src/workflow_coordinator.py::_WorkflowCoordinator.execute::monitor::{oracles[0]}::worker_results_reach_the_parent_unchanged", None,
                              dict(types=sorted(set(run.handover_losses)), results=len(run.handover_losses))))
                if 'C01' in oracles:
                    v += R.c01(run, pr, pq, events)
                if 'C02' in oracles:
                    v += R.c02(run, pr, pq)
                if 'C03' in oracles:
                    v += R.c03(run, events)
                if 'C04' in oracles:
                    v += R.c04(run, (params['sp'], params['dp'], params['su'], params['d']), events, pr, pq)
                if 'C05' in oracles:
                    v += R.c05(run, mode, params['p'])
                if 'C07' in oracles:
                    v += R.c07_files(run)
                    v += c07_readback(run, d, mode)
                if 'C18' in oracles:
                    v += c18(run, d, mode)
            for sfx, text in run.files.items():
                _, recs = pl.parse_xmap_text(text)
                out['records'] += len(recs)
                out['nontrivial'] += sum(1 for r in recs if 'D' in r.get('HitEnum', '') or 'I' in r.get('HitEnum', ''))
            for key, mech, detail in v:
                out['violations'].append((key, mech, detail, job, mode))
        if 'C08' in job['oracles'] and all(m in runs for m in ('separate', 'joined', 'all', 'best')):
            from bcheck import c08
            try:
                found = c08.compare_modes(runs, pr, pq, params, cm)
            except Exception:
                # the comparison needs well-formed files; a malformed one is itself a violation (of C07/C08), anything else is a checker error
                malformed = [(m, sfx) for m, r in runs.items() for sfx, text in r.files.items()
                             if any(rec.get('_ncols') != 15 for rec in pl.parse_xmap_text(text)[1])]
                if not malformed:
                    raise
                found = [('src/multi_pass_workflow_coordinator.py::_MultiPassWorkflowCoordinator.execute::monitor::C08::files_of_every_mode_are_well_formed', None,
                          dict(malformed=malformed[:4]))]
            for key, mech, detail in found:
                out['violations'].append((key, mech, detail, job, 'modes'))
    finally:
        pl.cleanup(d)
    out['violations'] = out['violations'][:40]
    return out


def c07_readback(run, d, mode):
    """every file COMA wrote can be read back by the project's own XMAP reader"""
    import io
    from src.parsers.xmap_reader import XmapReader
    v = []
    for sfx, text in run.files.items():
        try:
            got = XmapReader().readAlignments(io.StringIO(text))
            _, recs = pl.parse_xmap_text(text)
            if len(got) != len(recs):
                v.append(('src/parsers/xmap_reader.py::XmapReader.readAlignments::monitor::C07::one_alignment_per_record', None,
                          dict(file=sfx, records=len(recs), read=len(got))))
        except Exception as e:
            v.append(('src/parsers/xmap_reader.py::XmapReader.readAlignments::monitor::C07::written_file_can_be_read_back', None,
                      dict(file=sfx, records=text.count('\n') - 7, error=f"{type(e).__name__}: {e}"[:300])))
    return v


def c18(run, d, mode):
    import io
    from src.parsers.xmap_reader import XmapReader
    from src.parsers.xmap_alignment_pair_parser import XmapAlignmentPairWithDistanceParser
    v = []
    refs = {m.moleculeId: m for m in run.reference_maps}
    qrys = {m.moleculeId: m for m in run.query_maps}
    KEY = 'src/parsers/xmap_reader.py::XmapReader.readAlignments::monitor::C18::'
    for sfx, text in run.files.items():
        _, recs = pl.parse_xmap_text(text)
        for parser_name, reader in (('plain', XmapReader()),
                                    ('with_distance', XmapReader(XmapAlignmentPairWithDistanceParser(run.reference_maps, run.query_maps)))):
            try:
                got = reader.readAlignments(io.StringIO(text))
            except Exception as e:
                v.append((KEY + 'readable', None, dict(file=sfx, parser=parser_name, error=f"{type(e).__name__}: {e}"[:200])))
                continue
            if len(got) != len(recs):
                v.append((KEY + 'one_alignment_per_record_in_order', None, dict(file=sfx, parser=parser_name)))
                continue
            for rec, a in zip(recs, got):
                bad = []
                if a.queryId != int(rec['QryContigID']) or a.referenceId != int(rec['RefContigID']) or int(a.alignmentId) != int(rec['XmapEntryID']):
                    bad.append('same_ids')
                if a.orientation != rec['Orientation']:
                    bad.append('same_orientation')
                if str(a.cigarString) != rec['HitEnum']:
                    bad.append('same_hitenum')
                if [(p.reference.siteId, p.query.siteId) for p in a.alignedPairs] != rec['_pairs']:
                    bad.append('same_label_pairs')
                for field, col in (('queryStartPosition', 'QryStartPos'), ('queryEndPosition', 'QryEndPos'), ('referenceStartPosition', 'RefStartPos'),
                                   ('referenceEndPosition', 'RefEndPos'), ('queryLength', 'QryLen'), ('referenceLength', 'RefLen')):
                    if getattr(a, field) != int(float(rec[col])):
                        bad.append('coordinates_and_lengths_truncated_to_integers')
                if abs(float(a.confidence) - float(rec['Confidence'])) > 1e-9:
                    bad.append('confidence_to_two_decimals')
                if parser_name == 'with_distance' and 'same_ids' not in bad:
                    for p in a.alignedPairs:
                        if p.reference.position != refs[a.referenceId].positions[p.reference.siteId - 1] or \
                                p.query.position != qrys[a.queryId].positions[p.query.siteId - 1]:
                            bad.append('pair_coordinates_looked_up_from_the_same_maps')
                            break
                for b in sorted(set(bad)):
                    v.append((KEY + b, None, dict(file=sfx, parser=parser_name, record=rec['XmapEntryID'])))
    return v


def run(repo, tier, seed, oracles, modes, nsets, params_list=None, kinds=None, weights=None, fid_hint='', rule='', odd_refs=False, overrides=None):
    jobs = []
    rnd = random.Random(seed)
    params_list = params_list or [{}]
    for i in range(nsets):
        jobs.append(dict(seed=seed * 100003 + i, modes=modes if not callable(modes) else modes(i), params=params_list[i % len(params_list)],
                         oracles=oracles, kinds=kinds or pl.KINDS, weights=weights, odd_refs=odd_refs))
        if overrides is not None:
            jobs[-1].update(overrides(i) or {})
    # witnesses of defects that were found late and fixed (known_findings.json: fixed) stay in every tier of the properties they concerned
    for rj in REGRESSION_JOBS:
        if set(rj['for']) & set(oracles):
            jobs.append(dict(rj['job'], oracles=oracles))
    res = pmap(run_job, jobs, repo, timeout=3000)
    viol, known = {}, {}
    for r in res:
        for key, mech, detail, job, mode in r['violations']:
            k = key + (f"::{mech}" if mech else '')
            tgt = known if mech else viol
            if k not in tgt:
                tgt[k] = dict(key=k, blame=key.split('::monitor')[0], input=dict(job=job, mode=mode), observed=detail,
                              required=key.split('::monitor::')[-1])
    samples = [dict(set_seed=j['seed'], modes=j['modes'], params=j['params']) for j in jobs[:3]]
    return result(sum(r['records'] for r in res) + sum(r['runs'] for r in res), sum(r['nontrivial'] for r in res),
                  rule or ("generated CMAP sets (1-3 references of 40-120 labels incl. repetitive ones; 6-10 queries per set: exact, noisy, stretched, indel, "
                           "chimeric, degenerate; both strands) through the real Program.run with p_imap replaced by an in-process ordered map; evaluations = "
                           "records checked + runs; non-trivial = records whose HitEnum contains a D or an I"),
                  samples, list(viol.values())[:6] + list(known.values())[:4], exhaustive=False,
                  bounds=f"{nsets} generated sets x modes {modes if not callable(modes) else 'varied'}")


REGRESSION_JOBS = [
    # fixed f7d663a: a joined record without any pair (both records with an empty first segment)
    dict(**{'for': ('C01', 'C07', 'C18')}, job=dict(seed=1178, modes=['best', 'joined'], params={'d': 500, 'ms': 500}, kinds=pl.KINDS, weights=[1, 2, 1, 2, 2, 6],
                                                  odd_refs=True, style=0)),
    # fixed d05bf62: -D (diagnostics) with a molecule longer than the reference aborted the run in the primary-correlation plot; the same job keeps the
    # diagnostics option in every tier of the properties about the records: drawing the plots must not change or prevent them
    dict(**{'for': ('C07', 'C01', 'C03')}, job=dict(seed=4242, modes=['best'], params={'D': True}, generator='diag', style=0)),
    # fixed (see known_findings.json, D9): the join of a first- and a second-pass record aborted the run with IndexError when the conflicting sub-run of
    # one part held no aligned pair (AlignmentSegment.slice trimmed trailing unpaired labels off an already empty list)
    dict(**{'for': ('C07', 'C04', 'C08')}, job=dict(seed=1038, modes=['best', 'all'], params={'dp': 0.004}, kinds=pl.KINDS, weights=None, odd_refs=False, style=0)),
]


def replay(repo, rp):
    from bcheck.common import use_repo
    use_repo(repo)
    job = rp['input']['job']
    out = run_job(job)
    want = rp.get('key', '')
    hit = [v for v in out['violations'] if (v[0] + (f"::{v[1]}" if v[1] else '')) == want]
    return (not hit), [(v[0], v[1], str(v[2])[:300]) for v in out['violations'][:5]]
