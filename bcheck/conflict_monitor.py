"""Run-time contract monitor around the REAL conflict-resolution code (C15, and the C01/C08 clauses that depend on it).

It evaluates the C15 statement on every call of AlignmentSegmentConflictResolver.resolveConflicts and of
AlignmentSegment.checkForConflicts(...).resolveConflict(), and classifies a failure of the clause "no two segments share a
label or cross" by the mechanism that produced it, so that the two known findings stay pinned to their call site:

  K1  never_compared   the two offending segments are not consecutive members of the chain: the resolver only compares
                       consecutive members, so this pair was never examined
  K2  unequal_labels   the offending pair WAS resolved by the equal-index cut (__trimSegmentsAtOptimalPosition, middle branch or
                       edge branches) although the two conflicting sub-segments do not carry the same labels in the same order on
                       the sequence that is cut - the precondition under which an equal index means an equal label

Any other failure (e.g. the label lists were identical and the result still overlaps) is reported as a new violation.
"""
from __future__ import annotations

import threading

_state = threading.local()


def _log():
    if not hasattr(_state, 'events'):
        _state.events = []
    return _state.events


def reset():
    _state.events = []
    _state.context = None


def set_context(ctx):
    _state.context = ctx


def events():
    return list(_log())


def pairs_of(seg):
    from src.alignment.alignment_position import AlignedPair
    return [p for p in seg.positions if isinstance(p, AlignedPair)]


def ids(seg):
    return [(p.reference.siteId, p.query.siteId) for p in pairs_of(seg)]


def shares_or_crosses(a, b, reverse=None):
    """do two segments share a reference/query label, or cross each other?  (a precedes b in the chain)"""
    pa, pb = ids(a), ids(b)
    if not pa or not pb:
        return None
    ra, rb = {r for r, _ in pa}, {r for r, _ in pb}
    qa, qb = {q for _, q in pa}, {q for _, q in pb}
    if ra & rb:
        return 'share_reference_label'
    if qa & qb:
        return 'share_query_label'
    # crossing: all of a before all of b on the reference, and consistently on the query
    if not max(ra) < min(rb):
        return 'cross_on_reference'
    rev = reverse if reverse is not None else (len(pa) > 1 and pa[0][1] > pa[-1][1]) or (len(pb) > 1 and pb[0][1] > pb[-1][1])
    if rev:
        if not min(qa) > max(qb):
            return 'cross_on_query'
    else:
        if not max(qa) < min(qb):
            return 'cross_on_query'
    return None


def is_subrun(new, old):
    """new.positions is a contiguous run of old.positions (element identity)"""
    n, o = new.positions, old.positions
    if not n:
        return True
    for a in range(len(o)):
        if o[a] is n[0]:
            return len(o) >= a + len(n) and all(o[a + i] is n[i] for i in range(len(n)))
    return False


def score_ok(seg):
    return abs(seg.segmentScore - sum(p.score for p in seg.positions)) <= 1e-6 * max(1.0, abs(seg.segmentScore))


def kept_outside_overlap(left, right, new_left, new_right):
    """pairs of the earlier segment before the later one's first pair, and pairs of the later one after the earlier one's last
    pair, are all kept"""
    from src.alignment.alignment_position import AlignedPair
    lp, rp = pairs_of(left), pairs_of(right)
    if not lp or not rp:
        return True
    first_r, last_l = rp[0], lp[-1]
    keep_l = [p for p in lp if p.reference.position < first_r.reference.position and p.query.position < first_r.query.position]
    keep_r = [p for p in rp if p.reference.position > last_l.reference.position and p.query.position > last_l.query.position]
    nl, nr = {id(p) for p in new_left.positions}, {id(p) for p in new_right.positions}
    return all(id(p) in nl for p in keep_l) and all(id(p) in nr for p in keep_r)


def _coords(p):
    """(kind, ref coordinate or None, query coordinate or None, ref label or None, query label or None)"""
    from src.alignment.alignment_position import AlignedPair, ScoredNotAlignedPosition, NotAlignedReferencePosition
    if isinstance(p, AlignedPair):
        return 'P', p.reference.position, p.query.position, p.reference.siteId, p.query.siteId
    inner = p.position if isinstance(p, ScoredNotAlignedPosition) else p
    if isinstance(inner, NotAlignedReferencePosition):
        return 'R', inner.reference.position, None, inner.reference.siteId, None
    return 'Q', None, inner.query.position, None, inner.query.siteId


def zone(seg, start, end):
    """positions of `seg` in the conflict zone [start pair, end pair] (pinned semantics of AlignmentSegment.slice)"""
    _, sr, sq, _, _ = _coords(start)
    _, er, eq, erl, eql = _coords(end)
    items = [_coords(p) for p in seg.positions]

    def before_start(c):
        k, r, q, _, _ = c
        if k == 'P':
            return q < sq and r < sr
        return r < sr if k == 'R' else q < sq

    def upto_end(c):
        k, r, q, rl, ql = c
        if k == 'P':
            return q < eq or r < er or (q == eq and ql == eql) or (r == er and rl == erl)
        return r <= er if k == 'R' else q <= eq

    i = 0
    while i < len(items) and before_start(items[i]):
        i += 1
    out = []
    for c in items[i:]:
        if c[0] == 'P' and not upto_end(c):
            break
        out.append(c)
    while out and out[-1][0] != 'P' and not upto_end(out[-1]):
        out.pop()
    return out


def zone_labels(left, right, by_ref):
    lp, rp = pairs_of(left), pairs_of(right)
    if not lp or not rp:
        return [], []
    start, end = rp[0], lp[-1]
    zl, zr = zone(left, start, end), zone(right, start, end)
    if by_ref:
        return [c[3] for c in zl if c[0] in 'PR'], [c[3] for c in zr if c[0] in 'PR']
    return [c[4] for c in zl if c[0] in 'PQ'], [c[4] for c in zr if c[0] in 'PQ']


def install():
    """wrap the real methods (idempotent)"""
    import src.alignment.segments as S
    import src.alignment.segment_with_resolved_conflicts as R
    if getattr(S, '_verif_monitor', False):
        return
    S._verif_monitor = True
    orig_resolve = S._SegmentPairWithConflict.resolveConflict

    def resolveConflict(self):
        out = orig_resolve(self)
        try:
            by_ref = self.leftConflictingSubsegment.peak.position > self.rightConflictingSubsegment.peak.position
            lc = (self.leftConflictingSubsegment.getReferenceLabels() if by_ref else self.leftConflictingSubsegment.getQueryLabels())
            rc = (self.rightConflictingSubsegment.getReferenceLabels() if by_ref else self.rightConflictingSubsegment.getQueryLabels())
            ll = [p.siteId for p in lc.positions]
            rl = [p.siteId for p in rc.positions]
            # classification uses an INDEPENDENT computation of the two conflicting label lists (from the segments'
            # coordinates, by the pinned semantics of the conflict zone), so that a changed slice()/get*Labels() cannot
            # make a new failure look like the known one
            il, ir = zone_labels(self.leftSegment, self.rightSegment, by_ref)
            same_labels = il == ir
            _log().append(dict(kind='pair', left=self.leftSegment, right=self.rightSegment, out=out, same_labels=same_labels,
                               lists_agree=(il == ll and ir == rl),
                               equal_length=len(ll) == len(rl), context=getattr(_state, 'context', None)))
        except Exception as e:           # the monitor must never change behaviour
            _log().append(dict(kind='monitor_error', error=repr(e)))
        return out

    S._SegmentPairWithConflict.resolveConflict = resolveConflict


def pair_event_for(events_, new_left, new_right):
    for ev in events_:
        if ev['kind'] == 'pair' and ev['out'][0] is new_left and ev['out'][1] is new_right:
            return ev
    return None


def judge_resolution(inputs, chained_before, outputs, events_, check_pairwise=True, reverse=None):
    """C15 clauses for one resolveConflicts call.  inputs: segments given; outputs: resulting segments (same order as the
    chain).  Returns list of (clause, known_mechanism or None, detail)."""
    bad = []
    from src.alignment.segments import AlignmentSegment
    # (1) sub-run of an input segment with recomputed score
    for s in outputs:
        if s.positions and not any(is_subrun(s, i) for i in inputs):
            bad.append(('every_result_is_a_subrun_of_an_input_segment', None, ids(s)))
        if not score_ok(s):
            bad.append(('score_recomputed_as_sum_of_what_is_left', None, (s.segmentScore, sum(p.score for p in s.positions))))
    # (3) kept outside the overlap: judged per resolved pair
    for ev in events_:
        if ev['kind'] == 'pair':
            if not kept_outside_overlap(ev['left'], ev['right'], ev['out'][0], ev['out'][1]):
                bad.append(('pairs_outside_the_overlap_are_kept', None, (ids(ev['left']), ids(ev['right']), ids(ev['out'][0]), ids(ev['out'][1]))))
    # (2) pairwise disjoint, not crossing
    if check_pairwise:
        nonempty = [(i, s) for i, s in enumerate(outputs)]
        for x in range(len(outputs)):
            for y in range(x + 1, len(outputs)):
                why = shares_or_crosses(outputs[x], outputs[y], reverse)
                if not why:
                    continue
                if y > x + 1:
                    mech = 'K1:never_compared'
                else:
                    ev = pair_event_for(events_, outputs[x], outputs[y])
                    if ev is None:
                        # consecutive but the last event for them may have been superseded by a later resolution of y with y+1
                        ev = next((e for e in events_ if e['kind'] == 'pair' and e['out'][0] is outputs[x]), None)
                    mech = 'K2:unequal_labels' if (ev is not None and not ev['same_labels']) else None
                bad.append(('no_two_segments_share_a_label_or_cross::' + why, mech, (x, y, ids(outputs[x]), ids(outputs[y]))))
    return bad
