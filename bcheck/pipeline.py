"""Bounded stand-in: the real pipeline (Program.run of the tree under check) on generated CMAP sets, with independent
parsers for CMAP and XMAP text.  Runs in worker processes; nothing here is counted as proof."""
from __future__ import annotations

import io
import os
import random
import shutil
import tempfile
import traceback

HEADER = "# CMAP File Version:\t0.1\n# Label Channels:\t1\n#h CMapId\tContigLength\tNumSites\tSiteID\tLabelChannel\tPosition\tStdDev\tCoverage\tOccurrence\n" \
         "#f int\tfloat\tint\tint\tint\tfloat\tfloat\tfloat\tfloat\n"


# ------------------------------------------------------------------------------------------------ generation
def write_cmap(path, maps, shuffle_rows=None, two_colour=None):
    """maps: list of (id, length, [positions]); two_colour: a Random that puts each label on channel 1 or 2 (a two-colour CMAP: labels of both
    channels are labels)"""
    rows = []
    for mid, length, pos in maps:
        n = len(pos)
        for i, p in enumerate(pos):
            ch = two_colour.choice((1, 1, 2)) if two_colour is not None else 1
            rows.append(f"{mid}\t{length:.1f}\t{n}\t{i + 1}\t{ch}\t{p:.1f}\t0.0\t1.0\t1.0\n")
        rows.append(f"{mid}\t{length:.1f}\t{n}\t{n + 1}\t0\t{length:.1f}\t0.0\t1.0\t1.0\n")
    if shuffle_rows is not None:
        shuffle_rows.shuffle(rows)
    with open(path, 'w') as f:
        f.write((HEADER.replace("Label Channels:\t1", "Label Channels:\t2") if two_colour is not None else HEADER) + ''.join(rows))


def gen_reference(rnd, n_labels, repetitive=False):
    pos, x = [], rnd.randint(500, 5000)
    if repetitive:
        unit = [rnd.randint(2500, 14000) for _ in range(rnd.randint(2, 4))]
    for i in range(n_labels):
        pos.append(x)
        if repetitive and rnd.random() < 0.7:
            x += unit[i % len(unit)]
        else:
            x += int(min(60000, 2000 + rnd.expovariate(1 / 7000.0)))
    return pos, pos[-1] + rnd.randint(500, 5000)


def gen_query(rnd, refs, kind, rx=None):
    """returns (positions, truth dict); rx = a second random stream for the input classes added later (so that the sets of earlier seeds keep their
    other molecules: recorded regression seeds stay meaningful)"""
    rx = rx or random.Random(0)
    usable = [i for i, r in enumerate(refs) if len(r[2]) >= 20]
    rid = rnd.choice(usable)
    rpos = refs[rid][2]
    n = len(rpos)

    def window(lo_n=12, hi_n=40):
        k = rnd.randint(min(lo_n, n - 2), min(hi_n, n - 1))
        a = rnd.randint(0, n - k)
        return a, a + k

    rev = rnd.random() < 0.5
    truth = dict(kind=kind, reference=refs[rid][0], reverse=rev)
    if kind in ('exact', 'noisy', 'stretched'):
        a, b = window()
        lab = [p - rpos[a] for p in rpos[a:b]]
        if rnd.random() < 0.2:
            # the molecule overhangs an end of the reference: its seed diagonal starts before the reference origin (negative seed
            # position) or its window runs past the last reference label
            k = b - a
            if rnd.random() < 0.5:
                a, b = 0, min(n, k)
                lab = [p - rpos[0] for p in rpos[a:b]]
                extra = sorted(rnd.randint(1500, 40000 + rpos[0]) for _ in range(rnd.randint(2, 5)))
                lab = [-x for x in extra] + lab
            else:
                a, b = max(0, n - k), n
                lab = [p - rpos[a] for p in rpos[a:b]]
                lab = lab + [lab[-1] + x for x in sorted(rnd.randint(1500, 40000) for _ in range(rnd.randint(2, 5)))]
        if kind == 'noisy':
            lab = [p + rnd.randint(-300, 300) for p in lab]
            lab = [p for p in lab if rnd.random() > 0.1]
            for _ in range(rnd.randint(0, 3)):
                lab.append(rnd.randint(0, max(lab)))
        if kind == 'stretched':
            f = rnd.choice((0.96, 0.98, 1.03, 1.05))
            lab = [int(p * f) for p in lab]
    elif kind == 'indel':
        a, b = window(16, 40)
        lab = [p - rpos[a] for p in rpos[a:b]]
        cut = rnd.randint(5, len(lab) - 5)
        delta = rnd.choice((-1, 1)) * rnd.randint(500, 40000)
        lab = lab[:cut] + [p + delta for p in lab[cut:]]
        if delta < 0:
            lab = sorted(set(lab))
    elif kind == 'chimeric':
        a, b = window(10, 20)
        rid2 = rnd.choice(usable)
        r2 = refs[rid2][2]
        k2 = rnd.randint(8, min(20, len(r2) - 1))
        a2 = rnd.randint(0, len(r2) - k2)
        p1 = [p - rpos[a] for p in rpos[a:b]]
        p2 = [p - r2[a2] + p1[-1] + rnd.randint(3000, 9000) for p in r2[a2:a2 + k2]]
        if rx.random() < 0.7:
            # two labels at the same coordinate (unresolved double label - legal CMAP) next to the junction, where a second-pass fragment begins or ends
            j = rx.randint(-3, 3)
            src = p1 if j < 0 else p2
            x = src[max(0, min(len(src) - 1, j if j >= 0 else len(src) + j))]
            (p1 if j < 0 else p2).append(x)
        lab = p1 + p2
    elif kind == 'degenerate':
        choice = rnd.randrange(5)
        if choice == 0:
            lab = [0]
        elif choice == 1:
            lab = [0, rnd.randint(1000, 30000)]
        elif choice == 2:                      # duplicate coordinates
            a, b = window(8, 15)
            lab = [p - rpos[a] for p in rpos[a:b]]
            lab.insert(3, lab[3])
        elif choice == 3:                      # longer than every reference
            L = max(r[1] for r in refs)
            lab = sorted(rnd.randint(0, L + 50000) for _ in range(rnd.randint(5, 30)))
        else:                                  # random labels, no relation to any reference
            lab = sorted(rnd.randint(0, 300000) for _ in range(rnd.randint(3, 25)))
    else:
        raise ValueError(kind)
    lab = sorted(int(p) for p in lab)
    m0 = min(lab)
    lab = [p - m0 for p in lab]
    if rev:
        top = lab[-1]
        lab = sorted(top - p for p in lab)
    off = rnd.randint(0, 3000)
    if rx.random() < 0.08:
        # a long unlabelled stretch before the first label (and, through `tail`, behind the last one): the declared molecule length then exceeds the
        # labelled span by far - even the length of every reference - which is legal and must not matter (queries are trimmed)
        off = rx.randint(100000, 900000)
        truth['tail'] = rx.randint(100000, 900000)
    lab = [p + off for p in lab]
    return lab, truth


KINDS = ('exact', 'noisy', 'stretched', 'indel', 'chimeric', 'degenerate')


def gen_set(seed, n_queries=(6, 10), kinds=KINDS, weights=None, n_refs=None, odd_refs=False):
    rnd = random.Random(seed)
    rx = random.Random(seed * 7919 + 13)
    refs = []
    for i in range(n_refs or rnd.randint(1, 3)):
        pos, length = gen_reference(rnd, rnd.randint(40, 120), repetitive=(rnd.random() < 0.25))
        refs.append((i + 1, length, pos))
    if odd_refs and rnd.random() < 0.5:
        # degenerate references: one label, or a long molecule whose labels cover only a short stretch
        k = rnd.choice((1, 1, 2, 4))
        pos = sorted(rnd.randint(500, 12000) for _ in range(k))
        refs.append((len(refs) + 1, rnd.choice((pos[-1] + 10, 300000, 900000)), pos))
    if rx.random() < 0.08:
        big = 2 ** 53 + 1 + 2 * rx.randint(0, 10 ** 6)
        refs[-1] = (big,) + tuple(refs[-1][1:])                    # ... and such a reference id
    queries, truths = [], {}
    neighbours = []
    nq = rnd.randint(*n_queries)
    for q in range(nq):
        kind = rnd.choices(kinds, weights=weights)[0]
        lab, truth = gen_query(rnd, refs, kind, rx)
        qid = (q + 1) * rnd.choice((1, 1, 3)) + (100 if rnd.random() < 0.2 else 0)
        if neighbours:
            qid = neighbours.pop()                                # ... and its two neighbours, which ARE doubles (one of them is what it rounds to)
        elif rx.random() < 0.06:
            qid = 2 ** 53 + 1 + 2 * rx.randint(0, 10 ** 6)        # a valid int64 molecule id that no double represents
            neighbours = [qid - 1, qid + 1]
        while qid in truths:
            qid += 1
        tail = rnd.randint(1, 2000)
        queries.append((qid, lab[-1] + truth.pop('tail', tail), lab))
        truths[qid] = truth
    extras = tuple(kinds) == tuple(KINDS)          # sets restricted to some kinds (only exact copies, only degenerate molecules ...) stay what they say
    for _ in range(rx.choice((0, 1, 1, 2)) if extras else 0):
        # tandem duplication: the molecule carries an inner stretch of its reference window twice (A B B C against A B C), with the label noise of real
        # data: the two passes then align overlapping reference stretches, and the join has to trim
        t = tandem_query(rx, refs)
        if t is None:
            break
        rid, lab = t
        qid = max(truths) + 3 if truths else 3
        queries.append((qid, lab[-1] + rx.randint(1, 500), lab))
        truths[qid] = dict(kind='tandem', reference=rid, reverse=None)
    if extras and rx.random() < 0.15:
        # a short contig whose labels start behind a long unlabelled head, and a molecule that carries all of its labels plus a few more in front of
        # them (reaching into the head): the molecule's labelled span exceeds the contig's, yet it fits on the contig, and that is where it belongs
        head = rx.randint(150000, 400000)
        cpos, x = [], head
        for _ in range(rx.randint(10, 16)):
            cpos.append(x)
            x += rx.randint(4000, 14000)
        cid = max(r[0] for r in refs) + 1
        refs.append((cid, cpos[-1] + rx.randint(500, 3000), cpos))
        front = sorted(rx.sample(range(20000, head - 20000, 1000), rx.randint(2, 4)))
        lab = front + cpos
        lab = [p - lab[0] for p in lab]
        qid = max(truths) + 7 if truths else 7
        queries.append((qid, lab[-1] + 50, lab))
        truths[qid] = dict(kind='overhang_head', reference=cid, reverse=False)
    return refs, queries, truths


def tandem_query(rx, refs):
    """a molecule that carries an inner stretch of its reference window twice (A B B C against A B C), with the label noise of real data"""
    usable = [r for r in refs if len(r[2]) >= 30]
    if not usable:
        return None
    rid, _, rpos = rx.choice(usable)
    k = rx.randint(18, 32)
    a = rx.randint(0, len(rpos) - k)
    win = [p - rpos[a] for p in rpos[a:a + k]]
    b0 = rx.randint(4, k - 10)
    b1 = b0 + rx.randint(4, min(9, k - b0 - 2))
    block = win[b0:b1]
    shift = win[b1] - win[b0]
    lab = win[:b1] + [p + shift for p in block] + [p + shift for p in win[b1:]]
    lab = sorted(set(max(0, p + rx.randint(-300, 300)) for p in lab))
    if rx.random() < 0.5:
        lab = sorted(lab[-1] - p for p in lab)
    return rid, [p - lab[0] for p in lab]


def gen_tandem_set(seed):
    """one or two references and ten molecules with a tandem duplication each"""
    rnd = random.Random(seed)
    refs = []
    for i in range(rnd.randint(1, 2)):
        pos, length = gen_reference(rnd, rnd.randint(60, 120))
        refs.append((i + 1, length, pos))
    queries, truths = [], {}
    for q in range(10):
        t = tandem_query(rnd, refs)
        if t is None:
            continue
        queries.append((q + 1, t[1][-1] + rnd.randint(1, 500), t[1]))
        truths[q + 1] = dict(kind='tandem', reference=t[0], reverse=None)
    return refs, queries, truths


def gen_diag_set(seed):
    """a small set for runs with the (slow) diagnostics option: one reference, an exact copy, a molecule with an insertion (two seeds, the second one
    further down the reference diagonal), and a molecule longer than the reference (no seeding correlation at all)"""
    rnd = random.Random(seed)
    pos, length = gen_reference(rnd, 45)
    a = rnd.randint(3, 10)
    exact = [p - pos[a] for p in pos[a:a + 14]]
    b = rnd.randint(18, 25)
    win = [p - pos[b] for p in pos[b:b + 16]]
    ins = win[:8] + [p + rnd.randint(4000, 9000) for p in win[8:]]
    long_one = sorted(rnd.randint(0, length + 80000) for _ in range(12))
    long_one = [p - long_one[0] for p in long_one]
    queries = [(1, exact[-1] + 10, exact), (2, ins[-1] + 10, ins), (3, max(long_one[-1] + 10, length + 50000), long_one)]
    # a long molecule with an insertion followed by a larger deletion: a chain of three segments whose seed peaks do not ascend along the chain
    r2, x = [], rnd.randint(1000, 5000)
    for _ in range(160):
        r2.append(x)
        x += 600 + int(rnd.expovariate(1 / 6000.0))
    i, j, k, m, n = 30, 65, 100, 102, 140
    lab = [p - r2[i] for p in r2[i:j]] + [p - r2[i] + 4000 for p in r2[j:k]] + [p - r2[i] + 4000 - 7000 for p in r2[m:n]]
    if all(b > a for a, b in zip(lab, lab[1:])):
        queries.append((4, lab[-1] + 40, [p + 20 for p in lab]))
    return [(1, length, pos), (2, x + 1000, r2)], queries, {1: dict(kind='exact'), 2: dict(kind='indel'), 3: dict(kind='degenerate'), 4: dict(kind='indel')}


def gen_dense_set(seed):
    """densely labelled maps (about one label per 4 kb, as DLS data) on SHORT reference contigs, with molecules that cover a contig almost completely and lie
    flush with its first or last label: the seeding correlation is then only a few bins long, its maximum sits on the border (never reported as a peak) and
    interior peaks can score at or below the noise level - seeds all the same.  Plus one ordinary interior molecule per contig."""
    rnd = random.Random(seed)
    refs, queries, truths = [], [], {}
    qid = 0
    for ci in range(rnd.randint(4, 6)):
        size = rnd.choice((60000, 120000, 180000, 240000))
        pos = [rnd.randint(0, 1300)]
        while pos[-1] < size:
            pos.append(pos[-1] + max(600, int(rnd.expovariate(1 / 4000.0))))
        refs.append((ci + 1, pos[-1] + rnd.randint(100, 900), pos))
        for variant in range(rnd.randint(3, 5)):
            drop = rnd.randint(1, 4)
            if len(pos) - drop < 6:
                continue
            if variant == 0 and len(pos) > 30:
                a = rnd.randint(2, len(pos) - 24)
                part = pos[a:a + rnd.randint(12, 22)]                # an interior molecule
            elif rnd.random() < 0.5:
                part = pos[:-drop]                                    # flush with the first label
            else:
                part = pos[drop:]                                     # flush with the last label
            lab = sorted({0} | {p - part[0] + rnd.randint(-150, 150) for p in part[1:]})
            lab = [p - min(lab) for p in lab]
            rev = rnd.random() < 0.5
            if rev:
                lab = sorted(lab[-1] - p for p in lab)
            qid += rnd.choice((1, 1, 2))
            off = rnd.randint(0, 40)
            queries.append((qid, lab[-1] + off + rnd.randint(1, 40), [p + off for p in lab]))
            truths[qid] = dict(kind='dense', reference=ci + 1, reverse=rev)
    return refs, queries, truths


# ------------------------------------------------------------------------------------------------ independent parsers
def parse_cmap_text(text):
    """{id: (length as written, [label coordinates ascending])}; independent of src/parsers"""
    maps = {}
    for line in text.splitlines():
        if not line.strip() or line.startswith('#'):
            continue
        c = line.split('\t')
        mid, chan, pos = int(c[0]), int(c[4]), float(c[5])
        m = maps.setdefault(mid, [None, []])
        if chan == 0:
            if m[0] is None:
                m[0] = pos
        else:
            m[1].append(pos)
    return {k: (v[0], sorted(v[1])) for k, v in maps.items()}


XMAP_COLS = ["XmapEntryID", "QryContigID", "RefContigID", "QryStartPos", "QryEndPos", "RefStartPos", "RefEndPos", "Orientation",
             "Confidence", "HitEnum", "QryLen", "RefLen", "AlignedRest", "LabelChannel", "Alignment"]


def parse_xmap_text(text):
    """(header lines, [record dict]); independent of src/parsers"""
    header, recs = [], []
    for line in text.split('\n'):
        if line.startswith('#'):
            header.append(line)
        elif line.strip():
            c = line.split('\t')
            rec = dict(zip(XMAP_COLS, c))
            rec['_ncols'] = len(c)
            pairs = []
            al = rec.get('Alignment', '')
            for part in al.strip().strip('()').split(')('):
                if part:
                    r, q = part.split(',')
                    pairs.append((int(r), int(q)))
            rec['_pairs'] = pairs
            recs.append(rec)
    return header, recs


# ------------------------------------------------------------------------------------------------ running the real program
class Run:
    def __init__(self):
        self.files = {}        # suffix ('', '_1', '_2') -> text
        self.rows = None       # AlignmentResults.rows returned by Program.run
        self.candidates = {}   # query id -> list of candidate rows (first pass and second pass, in dispatch order)
        self.error = None
        self.args = None
        self.reference_maps = None
        self.query_maps = None
        self.coordinator = None
        self.handover_losses = []   # result types whose state changed on the way from a worker to the parent


def _ordered_map(f, items, num_cpus=None, disable=None):
    """in-process stand-in for p_tqdm.p_imap: ordered results; like the real one (multiprocessing.Pool) it rejects a worker count below 1 and hands
    every result over as a pickled copy"""
    if num_cpus is not None and num_cpus < 1:
        raise ValueError("Number of processes must be at least 1")
    # ... and what a worker returns reaches the parent as a pickled copy (pathos / dill): classes that customise their pickling show here.
    # The assumed contract of p_imap - "yields f(x0), f(x1), ..." - is monitored: the copy must carry the same state as the worker's result
    import dill

    def hand_over(x):
        r = f(x)
        c = dill.loads(dill.dumps(r))
        if fingerprint(r) != fingerprint(c):
            HANDOVER_LOSSES.append(type(r).__name__)
        return c
    return (hand_over(x) for x in items)


HANDOVER_LOSSES = []


def fingerprint(o, depth=0, seen=None):
    """the observable state of a result object (attribute values, recursively; floats exactly): equal before and after pickling, or the parent does
    not get what the worker computed"""
    seen = seen if seen is not None else set()
    if depth > 12:
        return '...'
    if o is None or isinstance(o, (bool, int, float, str, bytes)):
        return repr(o)
    if id(o) in seen:
        return '<cycle>'
    if isinstance(o, (list, tuple)):
        seen = seen | {id(o)}
        return '[' + ','.join(fingerprint(x, depth + 1, seen) for x in o) + ']'
    if isinstance(o, dict):
        seen = seen | {id(o)}
        return '{' + ','.join(f"{k!r}:{fingerprint(v, depth + 1, seen)}" for k, v in sorted(o.items(), key=lambda kv: repr(kv[0]))) + '}'
    if hasattr(o, 'tolist') and hasattr(o, 'dtype'):
        return f"nd{o.dtype}{o.tolist()!r}"
    d = getattr(o, '__dict__', None)
    if d is None:
        slots = [n for c in type(o).__mro__ for n in getattr(c, '__slots__', ())]
        d = {n: getattr(o, n) for n in slots if hasattr(o, n)} if slots else None
    if d is None:
        return repr(o)
    seen = seen | {id(o)}
    return type(o).__name__ + '{' + ','.join(f"{k}:{fingerprint(v, depth + 1, seen)}" for k, v in sorted(d.items())) + '}'



OUTPUT_NAME_STYLES = ('out_{mode}.xmap', 'out_{mode}.tsv', 'aln_{mode}')
PIPE_STYLE = 4        # the query CMAP arrives on standard input through a pipe (-q -): a stream that can be read forwards only
STDOUT_STYLE = 3      # no -o option: the XMAP goes to standard output (the documented default); used for mode 'best' only - the other modes derive the
#                       names of their additional files from the name of the output stream


def run_program(workdir, mode, extra=(), capture=True, cpus=None, style=0):
    """run the real Program in this process with p_imap replaced by an in-process ordered map.
    style varies what the option help allows but the samples never use: 0 = '-o x.xmap -c 1', 1 = an output name with another
    extension, 2 = an output name without extension and no -c option (the default worker count), 3 = no -o option (mode 'best' only): everything the
    process writes to standard output is then the XMAP file"""
    import warnings
    warnings.simplefilter('ignore')
    from src.args import Args
    from src.program import Program
    from src.extensions.extension import Extension
    from src.extensions.messages import MultipleAlignmentResultRowsMessage
    import src.workflow_coordinator as wc
    if cpus is None:
        wc.p_imap = _ordered_map
    del HANDOVER_LOSSES[:]
    res = Run()
    to_stdout = (style == STDOUT_STYLE and mode == 'best')
    if style == STDOUT_STYLE:
        style = 0
    from_pipe = (style == PIPE_STYLE)
    if from_pipe:
        style = 1
    out = os.path.join(workdir, OUTPUT_NAME_STYLES[style % 3].format(mode=mode))

    class Catcher(Extension):
        messageType = MultipleAlignmentResultRowsMessage

        def handle(self, message):
            for m in message.messages:
                res.candidates.setdefault(m.query.moleculeId, []).append((m.alignment, m.query, m.reference, m.correlation))

    argv = ['-r', os.path.join(workdir, 'r.cmap'), '-q', '-' if from_pipe else os.path.join(workdir, 'q.cmap')] + ([] if to_stdout else ['-o', out]) + ['-pb', '-oM', mode]
    if cpus is not None or style % 3 != 2:
        argv += ['-c', str(cpus if cpus is not None else 1)]
    argv += [str(x) for x in extra]
    import sys
    saved_fd = None
    if to_stdout:
        # what the shell does for `coma ... > file`: file descriptor 1 itself is pointed at the file, so every writer of the process's standard output
        # (whenever and wherever it took hold of sys.stdout) ends up there
        sys.stdout.flush()
        saved_fd = os.dup(1)
        fd = os.open(out, os.O_WRONLY | os.O_CREAT | os.O_TRUNC, 0o644)
        os.dup2(fd, 1)
        os.close(fd)
    saved_stdin, feeder = None, None
    if from_pipe:
        import threading
        rfd, wfd = os.pipe()
        with open(os.path.join(workdir, 'q.cmap'), 'rb') as qf:
            data = qf.read()

        def feed():
            with os.fdopen(wfd, 'wb') as w:
                w.write(data)
        feeder = threading.Thread(target=feed, daemon=True)
        feeder.start()
        saved_stdin = sys.stdin
        import io

        class _Stdin(io.TextIOWrapper):
            name = '<stdin>'                # as the interpreter names its standard input
        sys.stdin = _Stdin(io.FileIO(rfd, 'r'))
    try:
        args = Args.parse(argv)
        res.args = args
        prog = Program(args, [Catcher()] if capture else None)
        res.reference_maps, res.query_maps = prog.referenceMaps, prog.queryMaps
        res.coordinator = prog.workflowCoordinator
        result = prog.run()
        res.rows = result.rows
    except BaseException as e:          # SystemExit from argparse included
        res.error = f"{type(e).__name__}: {e}\n" + traceback.format_exc()[-1500:]
    finally:
        if saved_stdin is not None:
            try:
                sys.stdin.close()
            except Exception:
                pass
            sys.stdin = saved_stdin
        if saved_fd is not None:
            try:
                sys.stdout.flush()
            finally:
                os.dup2(saved_fd, 1)
                os.close(saved_fd)
    res.handover_losses = list(HANDOVER_LOSSES)
    base, ext = os.path.splitext(out)
    for sfx in ('', '_1', '_2'):
        p = f"{base}{sfx}{ext}"
        if os.path.exists(p):
            with open(p) as f:
                res.files[sfx] = f.read()
    return res


def make_workdir(refs, queries, shuffle=None, two_colour=None):
    d = tempfile.mkdtemp(prefix='coma_bc_')
    write_cmap(os.path.join(d, 'r.cmap'), refs, shuffle, two_colour)
    write_cmap(os.path.join(d, 'q.cmap'), queries, shuffle, two_colour)
    return d


def cleanup(d):
    shutil.rmtree(d, ignore_errors=True)
