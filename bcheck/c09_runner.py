"""Runs the real program as a separate process for C09: optionally perturbs the completion order of the per-query workers by a seeded sleep
(the wrapper only sleeps; it is inherited by the forked worker processes)."""
import os
import sys
import warnings

warnings.simplefilter('ignore')
repo = sys.argv[1]
perturb = int(sys.argv[2])
sys.path.insert(0, repo)
if perturb:
    import random
    import time
    import src.workflow_coordinator as wc
    name = '_WorkflowCoordinator__align'
    orig = getattr(wc._WorkflowCoordinator, name)

    def slow(self, referenceMaps, queryMap):
        time.sleep(random.Random(perturb * 7919 + int(queryMap.moleculeId) * 31 + len(queryMap.positions)).random() * 0.03)
        return orig(self, referenceMaps, queryMap)
    setattr(wc._WorkflowCoordinator, name, slow)
from src.args import Args
from src.program import Program
Program(Args.parse(sys.argv[3:])).run()
