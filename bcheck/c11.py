"""C11 bounded part (decides the property): on a coordinate lattice commensurate with both correlation resolutions, each query and its mirror
image go through the real program ('separate' mode, first-pass file); the two records must mirror each other."""
import random
from bcheck.common import pmap, result, time_limit, CaseTimeout
from bcheck import pipeline as pl

RUN = 'src/program.py::Program.run'
STEP = 1400            # lcm(primaryResolution 1400, secondaryResolution 100)


def gen(seed):
    rnd = random.Random(seed)
    refs = []
    for rid in range(1, rnd.randint(1, 2) + 1):
        n = rnd.randint(50, 110)
        pos, x = [], STEP * rnd.randint(2, 12)
        for _ in range(n):
            pos.append(x)
            x += STEP * rnd.choice((2, 3, 4, 5, 6, 8, 11))
        refs.append((rid, pos[-1] + STEP * 3, pos))
    queries, pairs = [], []
    inverted = None
    if rnd.random() < 0.5:
        # an inverted repeat: region A of the first reference re-appears further on as its mirror image
        rid, length, pos = refs[0]
        k = rnd.randint(14, 24)
        a = rnd.randint(2, len(pos) - k - 2)
        A = pos[a:a + k]
        start = pos[-1] + STEP * rnd.randint(6, 20)
        mirrored = [start + (A[-1] - p) for p in reversed(A)]
        tail, x = [], mirrored[-1]
        for _ in range(rnd.randint(3, 10)):
            x += STEP * rnd.choice((3, 5, 7, 9))
            tail.append(x)
        pos = pos + mirrored + tail
        refs[0] = (rid, pos[-1] + STEP * 3, pos)
        inverted = [p - A[0] for p in A]
    if inverted is not None:
        top = inverted[-1]
        queries.append((5, top + 1, inverted))
        queries.append((1005, top + 1, sorted(top - p for p in inverted)))
        pairs.append((5, 1005, len(inverted)))
    if rnd.random() < 0.7:
        # cross-strand decoy: a noisy query whose true hit (a short run of its labels) lies on one strand with a weak coarse seed, while the
        # other strand offers a strong coarse seed that yields no label pair (every label 0 / +1 / -1 lattice steps off, maxPairDistance 600).
        # The query's mirror image swaps the roles of the two strands: any rule that treats the strands differently shows in one of the two.
        rid, length, pos = refs[0]
        steps = [0]
        for _ in range(rnd.randint(15, 19)):
            steps.append(steps[-1] + rnd.choice((7, 9, 11, 13, 17, 18, 20, 21, 22, 23, 26, 28, 29, 30, 32, 33, 37)))
        top = steps[-1]
        mir = [top - x for x in reversed(steps)]
        a = rnd.randint(3, len(steps) - 9)
        base = pos[-1] // STEP + rnd.randint(40, 80)
        regionA = [base + x for x in mir[a:a + 6]]                                        # true hit, '-' strand
        baseB = regionA[-1] + rnd.randint(60, 120)
        regionB = [baseB + x + (0, 1, -1)[i % 3] for i, x in enumerate(steps)]              # decoy, '+' strand
        newpos = sorted(set(pos) | {x * STEP for x in regionA} | {x * STEP for x in regionB})
        refs[0] = (rid, newpos[-1] + STEP * 3, newpos)
        lab = [x * STEP for x in steps]
        queries.append((7, lab[-1] + 1, lab))
        queries.append((1007, lab[-1] + 1, sorted(lab[-1] - p for p in lab)))
        pairs.append((7, 1007, len(lab)))
    for qi in range(6):
        rid = rnd.randrange(len(refs))
        rp = refs[rid][2]
        k = rnd.randint(12, 35)
        a = rnd.randint(0, len(rp) - k)
        lab = [p - rp[a] for p in rp[a:a + k]]
        kind = rnd.choice(('exact', 'noisy', 'noisy', 'indel'))
        if kind != 'exact':
            lab = [p for p in lab if rnd.random() > 0.1] or lab
            for _ in range(rnd.randint(0, 2)):
                lab.append(STEP * rnd.randint(0, max(lab) // STEP))
        if kind == 'indel' and len(lab) > 10:
            cut = rnd.randint(4, len(lab) - 4)
            d = STEP * rnd.randint(2, 14)
            lab = lab[:cut] + [p + d for p in lab[cut:]]
        lab = sorted(set(lab))                        # distinct coordinates: coincident labels are ties, excluded by the statement
        lab = [p - lab[0] for p in lab]
        top = lab[-1]
        mir = sorted(top - p for p in lab)
        qid = 10 + qi
        queries.append((qid, top + 1, lab))
        queries.append((1000 + qid, top + 1, mir))
        pairs.append((qid, 1000 + qid, len(lab)))
    return refs, queries, pairs


def run_case(case):
    seed, = case
    refs, queries, pairs = gen(seed)
    d = pl.make_workdir(refs, queries)
    bad = []
    try:
        with time_limit(300):
            # (every fifth set with the finest secondary resolution the option allows: 1 bp divides every lattice)
            run = pl.run_program(d, 'separate', ['-d', 600] + (['-r2', 1] if seed % 5 == 2 else []))
        if run.error:
            return case, [('no_exception', run.error[-300:])], 0
        _, recs = pl.parse_xmap_text(run.files.get('', ''))
        byq = {int(r['QryContigID']): r for r in recs}
        for q, qm, n in pairs:
            a, b = byq.get(q), byq.get(qm)
            if a is None and b is None:
                continue
            if a is None or b is None:
                bad.append(('mirror_image_is_aligned_exactly_when_the_query_is', dict(query=q, aligned=a is not None, mirror_aligned=b is not None)))
                continue
            if a['RefContigID'] != b['RefContigID']:
                bad.append(('same_reference', dict(query=q)))
            elif a['Orientation'] == b['Orientation']:
                bad.append(('opposite_orientation', dict(query=q, orientation=a['Orientation'])))
            elif [r for r, _ in a['_pairs']] != [r for r, _ in b['_pairs']]:
                bad.append(('same_reference_labels', dict(query=q, a=a['_pairs'][:8], b=b['_pairs'][:8], na=len(a['_pairs']), nb=len(b['_pairs']))))
            elif [(r, n + 1 - k) for r, k in a['_pairs']] != b['_pairs']:
                bad.append(('query_label_k_becomes_N_plus_1_minus_k', dict(query=q)))
            elif a['Confidence'] != b['Confidence']:
                bad.append(('same_confidence', dict(query=q, a=a['Confidence'], b=b['Confidence'])))
    except CaseTimeout:
        bad.append(('terminates', None))
    finally:
        pl.cleanup(d)
    return case, bad, len(pairs)


# ------------------------------------------------------------------ aligner-level mirror differential (seed peaks given)
AL = 'src/alignment/aligner.py::Aligner.align'


def has_tie(case):
    """two candidates that share a label and lie equally far from a seed diagonal: excluded by the statement (no equidistant ties)"""
    d = case['maxDistance']
    for pk in case['peaks']:
        byr, byq = {}, {}
        for i, r in enumerate(case['ref']):
            for j, q in enumerate(case['query']):
                o = abs(q - (r - pk))
                if o <= d:
                    byr.setdefault(i, []).append(o)
                    byq.setdefault(j, []).append(o)
        for v in list(byr.values()) + list(byq.values()):
            if len(set(v)) != len(v):
                return True
    return False


def mirror_case(case):
    """the real Aligner.align on a query read forwards and on its mirror image read on the reverse strand, same seed peaks"""
    from src.alignment.aligner import Aligner, AlignerEngine
    from src.alignment.alignment_position_scorer import AlignmentPositionScorer
    from src.alignment.segments_factory import AlignmentSegmentsFactory
    from src.alignment.segment_chainer import SegmentChainer, SequentialityScorer
    from src.alignment.segment_with_resolved_conflicts import AlignmentSegmentConflictResolver
    from src.correlation.optical_map import OpticalMap
    from src.correlation.peak import Peak
    ref = OpticalMap(1, case['ref'][-1] + 1000, list(case['ref']))
    out = []
    L = case['query'][-1] + 1
    for rev in (False, True):
        qpos = sorted(L - 1 - p for p in case['query']) if rev else list(case['query'])
        aligner = Aligner(AlignmentPositionScorer(1000, 1., -250), AlignmentSegmentsFactory(1000, 1200), AlignerEngine(case['maxDistance']),
                          AlignmentSegmentConflictResolver(SegmentChainer(SequentialityScorer(1., 0))))
        row = aligner.align(ref, OpticalMap(5, L, qpos), [Peak(pk, 10. + i) for i, pk in enumerate(case['peaks'])], rev)
        out.append(([(p.reference.siteId, p.query.siteId) for p in row.alignedPairs], row.confidence, len([s for s in row.segments if s.positions]),
                    row.orientation, (row.queryStartPosition, row.queryEndPosition, row.referenceStartPosition, row.referenceEndPosition)))
    n = len(case['query'])
    a, b = out
    bad = []
    if a[3] != '+' or b[3] != '-':
        bad.append('opposite_orientation')
    if [r for r, _ in a[0]] != [r for r, _ in b[0]]:
        bad.append('same_reference_labels')
    elif [(r, n + 1 - k) for r, k in a[0]] != b[0]:
        bad.append('query_label_k_becomes_N_plus_1_minus_k')
    elif abs(a[1] - b[1]) > 1e-6 * max(1.0, abs(a[1])):
        bad.append('same_confidence')
    elif a[0] and (a[4][2:] != b[4][2:]):
        bad.append('same_reference_span')
    return bad, a[2], dict(forward=dict(pairs=a[0][:40], confidence=a[1]), mirror=dict(pairs=b[0][:40], confidence=b[1]))


def mirror_chunk(seeds):
    from bcheck.c15 import build_case
    out, nt, n = [], 0, 0
    for s in seeds:
        case = build_case(s)
        if has_tie(case):
            continue
        n += 1
        try:
            with time_limit(20):
                bad, nseg, detail = mirror_case(case)
        except CaseTimeout:
            bad, nseg, detail = ['terminates'], 0, None
        except Exception as e:
            bad, nseg, detail = [f'no_exception:{type(e).__name__}'], 0, repr(e)[:200]
        nt += 1 if nseg >= 2 else 0
        if bad:
            out.append((case, bad, detail))
    return n, nt, out[:10]


def bounded(repo, tier, seed):
    from bcheck.common import merge
    r1 = bounded_program(repo, tier, seed)
    na = 40000 if tier == 'quick' else 1200000
    seeds = [seed * 1000003 + i for i in range(na)]
    res = pmap(mirror_chunk, [seeds[i:i + 200] for i in range(0, na, 200)], repo)
    viol = {}
    for r in res:
        for case, bad, detail in r[2]:
            key = f"{AL}::monitor::C11::{bad[0]}"
            if key not in viol or len(case['query']) < len(viol[key]['input']['aligner_case']['query']):
                viol[key] = dict(key=key, blame=AL, input=dict(aligner_case=case), observed=detail, required='C11 statement (code paths after seeding)')
    from bcheck.c15 import build_case
    r2 = result(sum(r[0] for r in res), sum(r[1] for r in res),
                "code paths after seeding (pairing, scoring, segment building, chaining, conflict resolution, record header): the real Aligner.align on a query read "
                "forwards and on its mirror image read on the reverse strand with the SAME seed peaks (no binning involved, so no lattice is needed); generated "
                "label data with 2-6 seed peaks on neighbouring diagonals; cases with two equidistant candidates for one label are skipped (the statement excludes "
                "ties); opposite orientation, same reference labels, k -> N+1-k, same Confidence, same reference span; non-trivial = >= 2 segments in the forward row",
                [build_case(seeds[0])], list(viol.values())[:4], exhaustive=False, bounds=f"{na} generated cases minus ties")
    return merge([r1, r2])


def bounded_program(repo, tier, seed):
    n = 28 if tier == 'quick' else 700
    cases = [(seed * 7717 + i,) for i in range(n)]
    res = pmap(run_case, cases, repo)
    viol = {}
    tot = 0
    for case, bad, k in res:
        tot += k
        for clause, detail in bad:
            key = f"{RUN}::monitor::C11::{clause}"
            viol.setdefault(key, dict(key=key, blame=RUN, input=dict(seed=case[0]), observed=detail, required='C11 statement'))
    return result(tot, tot, "1-2 references of 50-110 labels on a 1400-bp lattice (a multiple of both correlation resolutions), 6 queries per set (exact, noisy with "
                            "missing/extra lattice labels, indel of 2-14 lattice steps; in 70% of the sets a cross-strand decoy: true hit with a weak seed on one strand, a strong pair-less seed on the other), each run together with its mirror image, maxPairDistance 600, every fifth set with -r2 1 (below half the "
                            "step: no equidistant ties), coordinates inside a molecule distinct; 'separate' mode, first-pass file; every pair (query, mirror) is a case",
                  [dict(seed=cases[0][0])], list(viol.values())[:5], exhaustive=False, bounds=f"{n} sets x 6 query/mirror pairs")


def replay(repo, rp):
    from bcheck.common import use_repo
    use_repo(repo)
    if 'aligner_case' in rp['input']:
        bad, _, detail = mirror_case(rp['input']['aligner_case'])
        return (not bad), dict(violated=bad, detail=detail)
    case, bad, _ = run_case((rp['input']['seed'],))
    return (not bad), bad[:3]
