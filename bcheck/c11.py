"""C11 bounded part (decides the property): on a coordinate lattice commensurate with both correlation resolutions, each query and its mirror
image go through the real program ('separate' mode, first-pass file); the two records must mirror each other."""
import random
from bcheck.common import pmap, result, time_limit, CaseTimeout
from bcheck import pipeline as pl

RUN = 'src/program.py::Program.run'
STEP = 1400            # lcm(primaryResolution 1400, secondaryResolution 100)


def gen(seed):
    rnd = random.Random(seed)
    refs = []
    for rid in range(1, rnd.randint(1, 2) + 1):
        n = rnd.randint(50, 110)
        pos, x = [], STEP * rnd.randint(2, 12)
        for _ in range(n):
            pos.append(x)
            x += STEP * rnd.choice((2, 3, 4, 5, 6, 8, 11))
        refs.append((rid, pos[-1] + STEP * 3, pos))
    queries, pairs = [], []
    inverted = None
    if rnd.random() < 0.5:
        # an inverted repeat: region A of the first reference re-appears further on as its mirror image
        rid, length, pos = refs[0]
        k = rnd.randint(14, 24)
        a = rnd.randint(2, len(pos) - k - 2)
        A = pos[a:a + k]
        start = pos[-1] + STEP * rnd.randint(6, 20)
        mirrored = [start + (A[-1] - p) for p in reversed(A)]
        tail, x = [], mirrored[-1]
        for _ in range(rnd.randint(3, 10)):
            x += STEP * rnd.choice((3, 5, 7, 9))
            tail.append(x)
        pos = pos + mirrored + tail
        refs[0] = (rid, pos[-1] + STEP * 3, pos)
        inverted = [p - A[0] for p in A]
    if inverted is not None:
        top = inverted[-1]
        queries.append((5, top + 1, inverted))
        queries.append((1005, top + 1, sorted(top - p for p in inverted)))
        pairs.append((5, 1005, len(inverted)))
    for qi in range(6):
        rid = rnd.randrange(len(refs))
        rp = refs[rid][2]
        k = rnd.randint(12, 35)
        a = rnd.randint(0, len(rp) - k)
        lab = [p - rp[a] for p in rp[a:a + k]]
        kind = rnd.choice(('exact', 'noisy', 'noisy', 'indel'))
        if kind != 'exact':
            lab = [p for p in lab if rnd.random() > 0.1] or lab
            for _ in range(rnd.randint(0, 2)):
                lab.append(STEP * rnd.randint(0, max(lab) // STEP))
        if kind == 'indel' and len(lab) > 10:
            cut = rnd.randint(4, len(lab) - 4)
            d = STEP * rnd.randint(2, 14)
            lab = lab[:cut] + [p + d for p in lab[cut:]]
        lab = sorted(set(lab))                        # distinct coordinates: coincident labels are ties, excluded by the statement
        lab = [p - lab[0] for p in lab]
        top = lab[-1]
        mir = sorted(top - p for p in lab)
        qid = 10 + qi
        queries.append((qid, top + 1, lab))
        queries.append((1000 + qid, top + 1, mir))
        pairs.append((qid, 1000 + qid, len(lab)))
    return refs, queries, pairs


def run_case(case):
    seed, = case
    refs, queries, pairs = gen(seed)
    d = pl.make_workdir(refs, queries)
    bad = []
    try:
        with time_limit(300):
            run = pl.run_program(d, 'separate', ['-d', 600])
        if run.error:
            return case, [('no_exception', run.error[-300:])], 0
        _, recs = pl.parse_xmap_text(run.files.get('', ''))
        byq = {int(r['QryContigID']): r for r in recs}
        for q, qm, n in pairs:
            a, b = byq.get(q), byq.get(qm)
            if a is None and b is None:
                continue
            if a is None or b is None:
                bad.append(('mirror_image_is_aligned_exactly_when_the_query_is', dict(query=q, aligned=a is not None, mirror_aligned=b is not None)))
                continue
            if a['RefContigID'] != b['RefContigID']:
                bad.append(('same_reference', dict(query=q)))
            elif a['Orientation'] == b['Orientation']:
                bad.append(('opposite_orientation', dict(query=q, orientation=a['Orientation'])))
            elif [r for r, _ in a['_pairs']] != [r for r, _ in b['_pairs']]:
                bad.append(('same_reference_labels', dict(query=q, a=a['_pairs'][:8], b=b['_pairs'][:8], na=len(a['_pairs']), nb=len(b['_pairs']))))
            elif [(r, n + 1 - k) for r, k in a['_pairs']] != b['_pairs']:
                bad.append(('query_label_k_becomes_N_plus_1_minus_k', dict(query=q)))
            elif a['Confidence'] != b['Confidence']:
                bad.append(('same_confidence', dict(query=q, a=a['Confidence'], b=b['Confidence'])))
    except CaseTimeout:
        bad.append(('terminates', None))
    finally:
        pl.cleanup(d)
    return case, bad, len(pairs)


def bounded(repo, tier, seed):
    n = 28 if tier == 'quick' else 700
    cases = [(seed * 7717 + i,) for i in range(n)]
    res = pmap(run_case, cases, repo)
    viol = {}
    tot = 0
    for case, bad, k in res:
        tot += k
        for clause, detail in bad:
            key = f"{RUN}::monitor::C11::{clause}"
            viol.setdefault(key, dict(key=key, blame=RUN, input=dict(seed=case[0]), observed=detail, required='C11 statement'))
    return result(tot, tot, "1-2 references of 50-110 labels on a 1400-bp lattice (a multiple of both correlation resolutions), 6 queries per set (exact, noisy with "
                            "missing/extra lattice labels, indel of 2-14 lattice steps), each run together with its mirror image, maxPairDistance 600 (below half the "
                            "step: no equidistant ties), coordinates inside a molecule distinct; 'separate' mode, first-pass file; every pair (query, mirror) is a case",
                  [dict(seed=cases[0][0])], list(viol.values())[:5], exhaustive=False, bounds=f"{n} sets x 6 query/mirror pairs")


def replay(repo, rp):
    from bcheck.common import use_repo
    use_repo(repo)
    case, bad, _ = run_case((rp['input']['seed'],))
    return (not bad), bad[:3]
