"""Bounded stand-in (Tier B): concrete oracles for the property statements, evaluated on the REAL functions
imported from the tree under check.  Never counted as proved; every bound is reported in the evidence."""
from __future__ import annotations

import multiprocessing as mp
import os
import sys

_REPO = None


def use_repo(repo_root: str):
    """make `import src...` resolve to the tree under check (fresh interpreter per run, nothing cached)"""
    global _REPO
    _REPO = repo_root
    for p in (repo_root, os.path.join(repo_root, 'sv')):
        if p not in sys.path:
            sys.path.insert(0, p)


def _init(repo_root):
    use_repo(repo_root)
    import warnings
    warnings.simplefilter('ignore')


def pmap(func, items, repo_root, procs=14, chunksize=None, timeout=3000):
    from concurrent.futures import ProcessPoolExecutor
    items = list(items)
    if not items:
        return []
    ctx = mp.get_context('spawn')
    procs = max(1, min(procs, len(items)))
    with ProcessPoolExecutor(max_workers=procs, mp_context=ctx, initializer=_init, initargs=(repo_root,)) as ex:
        futs = [ex.submit(func, it) for it in items]
        return [f.result(timeout=timeout) for f in futs]


def result(evaluations, nontrivial, rule, samples, violations, exhaustive=False, parts=None, bounds=''):
    return dict(evaluations=evaluations, distinct_nontrivial=nontrivial, rule=rule, samples=samples,
                violations=violations, exhaustive=exhaustive, parts=parts or [], bounds=bounds)


def merge(results):
    out = result(0, 0, '', [], [], True, [], '')
    rules, bounds = [], []
    for r in results:
        out['evaluations'] += r['evaluations']
        out['distinct_nontrivial'] += r['distinct_nontrivial']
        out['samples'] += r['samples'][:3]
        out['violations'] += r['violations']
        out['exhaustive'] = out['exhaustive'] and r.get('exhaustive', False)
        out['parts'] += r.get('parts') or [dict(rule=r['rule'], evaluations=r['evaluations'],
                                               distinct_nontrivial=r['distinct_nontrivial'],
                                               exhaustive=r.get('exhaustive', False), bounds=r.get('bounds', ''))]
        rules.append(r['rule'])
        if r.get('bounds'):
            bounds.append(r['bounds'])
    out['rule'] = ' || '.join(rules)
    out['bounds'] = ' || '.join(bounds)
    return out


class CaseTimeout(Exception):
    pass


class time_limit:
    """per-case limit for calls into the real code (a mutated function may not terminate).  The limit is on the CPU time the process itself uses
    (ITIMER_PROF), not on wall-clock time: a machine busy with other work must not turn a correct run into "does not terminate".  A wall-clock alarm
    of thirty times the limit stays as a backstop for a run that hangs without computing."""
    def __init__(self, seconds):
        self.seconds = seconds

    def __enter__(self):
        import signal

        def handler(signum, frame):
            raise CaseTimeout()
        self.old_prof = signal.signal(signal.SIGPROF, handler)
        self.old_alrm = signal.signal(signal.SIGALRM, handler)
        signal.setitimer(signal.ITIMER_PROF, float(self.seconds))
        signal.alarm(int(self.seconds) * 30)

    def __exit__(self, *exc):
        import signal
        signal.setitimer(signal.ITIMER_PROF, 0)
        signal.alarm(0)
        signal.signal(signal.SIGPROF, self.old_prof)
        signal.signal(signal.SIGALRM, self.old_alrm)
        return False
