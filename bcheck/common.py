"""Bounded stand-in (Tier B): concrete oracles for the property statements, evaluated on the REAL functions
imported from the tree under check.  Never counted as proved; every bound is reported in the evidence."""
from __future__ import annotations

import multiprocessing as mp
import os
import sys

_REPO = None


def use_repo(repo_root: str):
    """make `import src...` resolve to the tree under check (fresh interpreter per run, nothing cached)"""
    global _REPO
    _REPO = repo_root
    for p in (repo_root, os.path.join(repo_root, 'sv')):
        if p not in sys.path:
            sys.path.insert(0, p)


def _init(repo_root):
    use_repo(repo_root)
    import warnings
    warnings.simplefilter('ignore')


def pmap(func, items, repo_root, procs=14, chunksize=None):
    items = list(items)
    if not items:
        return []
    ctx = mp.get_context('spawn')
    procs = max(1, min(procs, len(items)))
    with ctx.Pool(procs, initializer=_init, initargs=(repo_root,)) as pool:
        return pool.map(func, items, chunksize=chunksize or max(1, len(items) // (procs * 4)))


def result(evaluations, nontrivial, rule, samples, violations, exhaustive=False, parts=None, bounds=''):
    return dict(evaluations=evaluations, distinct_nontrivial=nontrivial, rule=rule, samples=samples,
                violations=violations, exhaustive=exhaustive, parts=parts or [], bounds=bounds)


def merge(results):
    out = result(0, 0, '', [], [], True, [], '')
    rules, bounds = [], []
    for r in results:
        out['evaluations'] += r['evaluations']
        out['distinct_nontrivial'] += r['distinct_nontrivial']
        out['samples'] += r['samples'][:3]
        out['violations'] += r['violations']
        out['exhaustive'] = out['exhaustive'] and r.get('exhaustive', False)
        out['parts'] += r.get('parts') or [dict(rule=r['rule'], evaluations=r['evaluations'],
                                               distinct_nontrivial=r['distinct_nontrivial'],
                                               exhaustive=r.get('exhaustive', False), bounds=r.get('bounds', ''))]
        rules.append(r['rule'])
        if r.get('bounds'):
            bounds.append(r['bounds'])
    out['rule'] = ' || '.join(rules)
    out['bounds'] = ' || '.join(bounds)
    return out
