"""C04 bounded part: (a) run-time contract on the records / candidates of the real program (see bcheck.records);
(b) "every candidate alignment": the real Aligner.align on generated label data with 2-6 nearby seed peaks, half of the cases translated so that
the seed diagonals start around or before the reference origin (negative seed positions) or end past the last reference label; the candidate's
Confidence is recomputed from the raw maps, each segment's peak and the scoring parameters."""
from bcheck import pipe_driver as pd
from bcheck.common import pmap, result, merge, time_limit, CaseTimeout

ALIGN = 'src/alignment/aligner.py::Aligner.align'


def translated(case, seed):
    """move the reference so that the smallest seed lies between -3000 and +300 (labels that would get a negative coordinate are dropped),
    or cut the reference shortly after the start of the query's window (the window [seed, seed + query length] runs past its end)"""
    import random
    rnd = random.Random(seed ^ 0x51f15e)
    c = dict(case)
    which = rnd.randrange(4)
    if which == 0:
        shift = min(case['peaks']) - rnd.randint(-3000, 300)
        ref = [p - shift for p in case['ref'] if p - shift >= 0]
        if len(ref) >= 3:
            c.update(ref=ref, peaks=[p - shift for p in case['peaks']])
    elif which == 1:
        end = max(case['peaks']) + case['query'][-1] * rnd.uniform(0.3, 0.8)
        ref = [p for p in case['ref'] if p <= end]
        if len(ref) >= 3:
            c.update(ref=ref)
    return c


def aligner_case(case):
    from bcheck import conflict_monitor as cm
    from bcheck import records as R
    from bcheck.c01 import align_case
    row, ref, query = align_case(case)
    nseg = len([s for s in row.segments if s.positions])
    if not row.alignedPairs:
        return [], nseg, None
    bad, total = R.c04_row(row, ref, query, (1000, 1., -250, case['maxDistance']))
    out = []
    for b in bad:
        mechs = R.conflict_mechanisms(cm.events(), 5) if 'counted_twice' in b else []
        known = [m for m in mechs if m[1]]
        mech = known[0][1] if known and not [m for m in mechs if m[1] is None] else None
        out.append((b, mech))
    return out, nseg, dict(confidence=row.confidence, recomputed=total, peaks=[s.peak.position for s in row.segments if s.positions])


def aligner_chunk(seeds):
    from bcheck.c15 import build_case
    out, nt = [], 0
    for s in seeds:
        case = translated(build_case(s), s)
        try:
            with time_limit(20):
                bad, nseg, detail = aligner_case(case)
        except CaseTimeout:
            bad, nseg, detail = [('terminates', None)], 0, None
        except Exception as e:
            bad, nseg, detail = [(f'no_exception:{type(e).__name__}', None)], 0, repr(e)[:200]
        nt += 1 if nseg >= 2 else 0
        if bad:
            out.append((case, bad, detail))
    return len(seeds), nt, out[:10]


def bounded(repo, tier, seed):
    n = 56 if tier == 'quick' else 1500
    r1 = pd.run(repo, tier, seed, ['C04'], MODES if tier != 'quick' else (lambda i: [MODESQ[i % len(MODESQ)]]), n, params_list=PARAMS)
    na = 20000 if tier == 'quick' else 600000
    seeds = [seed * 1000003 + i for i in range(na)]
    res = pmap(aligner_chunk, [seeds[i:i + 150] for i in range(0, na, 150)], repo)
    viol, known = {}, {}
    for r in res:
        for case, bad, detail in r[2]:
            for clause, mech in bad:
                key = f"{ALIGN}::monitor::C04::{clause}" + (f"::{mech}" if mech else '')
                tgt = known if mech else viol
                if key not in tgt or len(case['query']) < len(tgt[key]['input']['aligner_case']['query']):
                    tgt[key] = dict(key=key, blame=ALIGN, input=dict(aligner_case=case), observed=detail, required='C04 statement')
    from bcheck.c15 import build_case
    r2 = result(sum(r[0] for r in res), sum(r[1] for r in res),
                "candidate rows of the real Aligner.align on generated label data with 2-6 seed peaks on neighbouring diagonals (the C15 generators); a quarter "
                "of the cases translated so that the smallest seed lies between -3000 and +300 (seed diagonals starting before the reference origin), a "
                "quarter with the reference cut inside the query's window; Confidence recomputed from the raw maps, each segment's peak position and the "
                "scoring parameters (offsets within maxDistance, nothing in a segment's span unaccounted for, nothing twice); non-trivial = >= 2 segments",
                [translated(build_case(seeds[0]), seeds[0])], list(viol.values())[:5] + list(known.values())[:3], exhaustive=False, bounds=f"{na} generated cases")
    return merge([r1, r2])


def replay(repo, rp):
    i = rp['input']
    if 'aligner_case' in i:
        from bcheck.common import use_repo
        use_repo(repo)
        bad, nseg, detail = aligner_case(i['aligner_case'])
        want = rp.get('key', '')
        hit = [b for b in bad if f"{ALIGN}::monitor::C04::{b[0]}" + (f"::{b[1]}" if b[1] else '') == want]
        return (not hit), dict(violated=bad, detail=detail)
    return pd.replay(repo, rp)


MODES = ['best', 'separate', 'all']
MODESQ = ['best', 'separate', 'all']
PARAMS = [{}, {'dp': 2.0}, {'sp': 800, 'dp': 1.5, 'd': 1200}, {'dp': 0.5, 'su': -100}, {'su': -400, 'ms': 1500, 'bs': 600}, {'d': 2500, 'dp': 0.3},
          {'dp': 0.004}, {'dp': 0.125, 'su': -75}]          # (penalties with more decimals than the Confidence column shows)
