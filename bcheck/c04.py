"""C04 bounded part: run-time contract on the records / candidates of the real program (see bcheck.records)."""
from bcheck import pipe_driver as pd


def bounded(repo, tier, seed):
    n = 56 if tier == 'quick' else 1500
    return pd.run(repo, tier, seed, ['C04'], MODES if tier != 'quick' else (lambda i: [MODESQ[i % len(MODESQ)]]), n, params_list=PARAMS)


replay = pd.replay
MODES = ['best', 'separate', 'all']
MODESQ = ['best', 'separate', 'all']
PARAMS = [{}, {'dp': 2.0}, {'sp': 800, 'dp': 1.5, 'd': 1200}, {'dp': 0.5, 'su': -100}, {'su': -400, 'ms': 1500, 'bs': 600}, {'d': 2500, 'dp': 0.3}]
