"""C15 bounded part: the real AlignmentSegmentConflictResolver.resolveConflicts on segment lists produced by the real engine,
scorer and segment factory from label data with several nearby seed peaks (ladders on stretched molecules, indels, repeats),
both strands, several maxDistance values; judged by bcheck.conflict_monitor."""
import random
from bcheck.common import pmap, result, time_limit, CaseTimeout
from bcheck import conflict_monitor as cm

FID = 'src/alignment/segment_with_resolved_conflicts.py::AlignmentSegmentConflictResolver.resolveConflicts'


def build_spread_case(rnd, seed):
    """two (or three) diagonals a few hundred to ~2000 bp apart, the shift spread over a few labels whose individual offsets scatter
    (some labels pair under one seed only), optional extra unmatched labels inside the overlap; seeds = the diagonals"""
    nl, no, nr = rnd.randint(4, 14), rnd.randint(2, 6), rnd.randint(4, 14)
    gaps = [rnd.randint(2300, 9000) for _ in range(nl + no + nr)]
    ref = [rnd.randint(10000, 50000)]
    for g in gaps[:-1]:
        ref.append(ref[-1] + g)
    delta = rnd.choice((-1, 1)) * rnd.randint(500, 2600)
    jit = lambda: rnd.randint(-60, 60)
    shifts = [jit() for _ in range(nl)] + [rnd.randint(min(0, delta) - 700, max(0, delta) + 700) for _ in range(no)] + \
             [delta + jit() for _ in range(nr)]
    P = rnd.randint(2000, 9000)
    q = [r - P - s for r, s in zip(ref, shifts)]
    if rnd.random() < 0.5:                      # a spurious label inside the overlap
        k = nl + rnd.randint(0, no - 1)
        q.append(q[k] + rnd.randint(300, 1500))
    if rnd.random() < 0.3:                      # a missing label
        q.pop(rnd.randrange(len(q)))
    q = sorted(set(q))
    origin = q[0] - rnd.randint(0, 900)
    q = [x - origin for x in q]
    peaks = [P + origin, P + origin + delta]
    if rnd.random() < 0.3:
        peaks.append(P + origin + delta // 2)
    peaks = [p + rnd.randint(-100, 100) for p in peaks]
    if rnd.random() < 0.5:
        peaks.reverse()
    return dict(ref=ref, query=q, reverse=rnd.random() < 0.5, peaks=peaks, maxDistance=rnd.choice((1000, 1500, 2000)), seed=seed)


def build_case(seed):
    rnd = random.Random(seed)
    if seed % 2 == 0:
        return build_spread_case(rnd, seed)
    long_case = seed % 50 == 7          # long molecules (70-150 labels): size-dependent code paths
    n = rnd.randint(90, 160) if long_case else rnd.randint(12, 45)
    ref, x = [], rnd.randint(1000, 4000)
    repeat_unit = [rnd.randint(2200, 9000) for _ in range(rnd.randint(1, 3))] if rnd.random() < 0.35 else None
    for i in range(n):
        ref.append(x)
        x += repeat_unit[i % len(repeat_unit)] if repeat_unit and rnd.random() < 0.8 else rnd.randint(2000, 16000)
    a = rnd.randint(0, n // 3) if not long_case else rnd.randint(0, 10)
    b = rnd.randint(a + 8, n) if not long_case else rnd.randint(a + 70, n)
    q = [p - ref[a] for p in ref[a:b]]
    kind = rnd.choice(('stretch', 'stretch', 'indel', 'indel', 'repeat_expand', 'plain'))
    if kind == 'stretch':
        f = rnd.choice((0.92, 0.95, 0.97, 1.03, 1.05, 1.08))
        q = [int(p * f) for p in q]
    elif kind == 'indel':
        cut = rnd.randint(3, len(q) - 3)
        d = rnd.choice((-1, 1)) * rnd.randint(600, 5000)
        q = q[:cut] + [p + d for p in q[cut:]]
        if any(y <= x for x, y in zip(q, q[1:])):
            q = sorted(q)
    elif kind == 'repeat_expand' and len(q) > 10:
        cut = rnd.randint(3, len(q) - 4)
        unit = q[cut + 2] - q[cut]
        q = q[:cut + 2] + [p + unit for p in q[cut:]]
    # local diagonals: the seed offset that puts query label i on its reference label
    m = min(len(q), b - a)
    diags = sorted({ref[a + i] - q[i] for i in range(m)} | {ref[min(a + i + 2, n - 1)] - q[i] for i in range(0, m, 5)})
    npeaks = rnd.randint(2, 6)
    lo, hi = diags[0], diags[-1]
    if hi - lo < 400:
        peaks = [lo + k * rnd.choice((600, 1000, 1400)) for k in range(npeaks)]
    else:
        peaks = sorted(rnd.sample(diags, min(npeaks, len(diags))))
    peaks = [p + rnd.randint(-150, 150) for p in peaks]
    if rnd.random() < 0.5:
        q = [p + rnd.randint(-300, 300) for p in q]
        q = [p for p in q if rnd.random() > 0.06]
        for _ in range(rnd.randint(0, 2)):
            q.append(rnd.randint(0, max(q)))
    q = sorted(set(max(0, p) for p in q))
    shift0 = q[0]
    q = [p - shift0 for p in q]
    peaks = [p + shift0 for p in peaks]
    rev = rnd.random() < 0.5
    d = rnd.choice((500, 1000, 1500, 2000))
    return dict(ref=ref, query=q, reverse=rev, peaks=peaks, maxDistance=d, seed=seed)


def run_real(case):
    from src.alignment.aligner import AlignerEngine
    from src.alignment.alignment_position_scorer import AlignmentPositionScorer
    from src.alignment.segments_factory import AlignmentSegmentsFactory
    from src.alignment.segment_chainer import SegmentChainer, SequentialityScorer
    from src.alignment.segment_with_resolved_conflicts import AlignmentSegmentConflictResolver
    from src.correlation.optical_map import OpticalMap
    from src.correlation.peak import Peak
    cm.install()
    cm.reset()
    ref = OpticalMap(1, case['ref'][-1] + 1000, list(case['ref']))
    qpos = case['query']
    if case['reverse']:
        qpos = sorted(qpos[-1] - p for p in qpos)
    query = OpticalMap(5, qpos[-1] + 1, list(qpos))
    engine = AlignerEngine(case['maxDistance'])
    scorer = AlignmentPositionScorer(1000, 1., -250)
    factory = AlignmentSegmentsFactory(1000, 1200)
    segs = []
    for i, pk in enumerate(case['peaks']):
        positions = engine.align(ref, query, pk, pk + query.length, case['reverse'])
        segs += factory.getSegments(scorer.getScoredPositions(positions), Peak(pk, 10. + i))
    resolver = AlignmentSegmentConflictResolver(SegmentChainer(SequentialityScorer(1., 0)))
    out = resolver.resolveConflicts(list(segs)).segments
    return segs, out, cm.events()


def run_case(case):
    try:
        with time_limit(20):
            segs, out, evs = run_real(case)
    except CaseTimeout:
        return case, [('exception:timeout', None, None)], 0
    except Exception as e:
        import traceback
        return case, [(f'exception:{type(e).__name__}', None, traceback.format_exc()[-400:])], 0
    bad = cm.judge_resolution(segs, None, out, evs, reverse=case['reverse'])
    return case, bad, sum(1 for e in evs if e['kind'] == 'pair')


def run_chunk(seeds):
    out, nt = [], 0
    for s in seeds:
        case, bad, nconf = run_case(build_case(s))
        nt += 1 if nconf >= 1 else 0
        if bad:
            out.append((case, [(c, m, repr(d)[:300]) for c, m, d in bad]))
    return len(seeds), nt, out[:30]


# hand-written shapes (the two known findings' minimal witnesses are replayed from known_findings.json separately)
def bounded(repo, tier, seed):
    n = 300000 if tier == "quick" else 3000000
    seeds = [seed * 1000003 + i for i in range(n)]
    chunks = [seeds[i:i + 150] for i in range(0, len(seeds), 150)]
    res = pmap(run_chunk, chunks, repo)
    viol, known_hits = {}, {}
    for r in res:
        for case, bad in r[2]:
            for clause, mech, detail in bad:
                base = clause.split('::')[0]
                key = f"{FID}::ensures::{base}" + (f"::{mech}" if mech else '')
                tgt = known_hits if mech else viol
                v = dict(key=key, blame=FID, input=case, observed=dict(clause=clause, detail=detail), required='C15 statement')
                if key not in tgt or len(case['query']) < len(tgt[key]['input']['query']):
                    tgt[key] = v
    allv = list(viol.values()) + list(known_hits.values())
    return result(sum(r[0] for r in res), sum(r[1] for r in res),
                  "segment lists produced by the real engine + scorer + segment factory from generated label data (12-45 reference labels; stretched, "
                  "indel, repeat-expansion, noisy and plain molecules), 2-6 seed peaks on neighbouring diagonals (ladders, one repeat unit apart), "
                  "both strands, maxDistance 500/1000/1500/2000, then the real chainer + resolver; non-trivial = at least one conflicting pair resolved",
                  [build_case(seeds[0]), build_case(seeds[1])], allv[:8], exhaustive=False, bounds=f"{n} generated cases")


def witness_segments(spec):
    """segments from explicit (ref, query, score) pair lists, via the project's test doubles"""
    from tests.test_doubles.alignment_segment_stub import AlignmentSegmentStub
    return [AlignmentSegmentStub.createFromPairs([tuple(p) for p in seg]) for seg in spec]


def replay(repo, rp):
    from bcheck.common import use_repo
    use_repo(repo)
    i = rp['input']
    if 'segments' in i:
        from src.alignment.segment_chainer import SegmentChainer, SequentialityScorer
        from src.alignment.segment_with_resolved_conflicts import AlignmentSegmentConflictResolver
        cm.install()
        cm.reset()
        segs = witness_segments(i['segments'])
        if i.get('chainer') == 'identity':
            from tests.test_doubles.mock_segment_chainer import MockSegmentChainer
            ch = MockSegmentChainer()
        else:
            ch = SegmentChainer(SequentialityScorer(1., 0))
        out = AlignmentSegmentConflictResolver(ch).resolveConflicts(list(segs)).segments
        bad = cm.judge_resolution(segs, None, out, cm.events())
        want = rp.get('key', '')
        hit = [b for b in bad if (b[1] or '') in want or b[0].split('::')[0] in want]
        return (not hit), [(c, m, repr(d)[:200]) for c, m, d in bad]
    case, bad, _ = run_case(i)
    return (not bad), [(c, m, repr(d)[:200]) for c, m, d in bad]
