"""C05 bounded part: run-time contract on the records / candidates of the real program (see bcheck.records)."""
from bcheck import pipe_driver as pd


def bounded(repo, tier, seed):
    n = 56 if tier == 'quick' else 1500
    return pd.run(repo, tier, seed, ['C05'], MODES if tier != 'quick' else (lambda i: [MODESQ[i % len(MODESQ)]]), n, params_list=PARAMS)


replay = pd.replay
MODES = ['best', 'separate', 'joined', 'all']
MODESQ = ['best', 'separate', 'all', 'best']
PARAMS = [{}, {'p': 1}, {'p': 5}, {'p': 2}]
