"""C05 bounded part: (a) run-time contract on the records / candidates of the real program (see bcheck.records);
(b) the two selection functions called directly on small exhaustive lattices (ties included)."""
import itertools
from types import SimpleNamespace

from bcheck import pipe_driver as pd
from bcheck.common import pmap, result, merge

FILT = 'src/alignment/alignment_results.py::AlignmentResults.filterOutSubsequentAlignmentsForSingleQuery'
SEL = 'src/correlation/peaks_selector.py::PeaksSelector.selectPeaks'


def filter_case(case):
    """case: tuple of (queryId, confidence); stub rows carry exactly the two attributes the function reads"""
    from src.alignment.alignment_results import AlignmentResults
    rows = [SimpleNamespace(queryId=q, confidence=c, n=i) for i, (q, c) in enumerate(case)]
    out = list(AlignmentResults.filterOutSubsequentAlignmentsForSingleQuery(list(rows)))
    bad = []
    ids = [r.queryId for r in out]
    if any(all(r is not x for x in rows) for r in out):
        bad.append('every_result_row_is_an_input_row')
    if ids != sorted(set(q for q, _ in case)):
        bad.append('one_row_per_query_in_ascending_query_id')
    for r in out:
        if r.confidence != max(c for q, c in case if q == r.queryId):
            bad.append('kept_row_has_the_highest_confidence_of_its_query')
            break
    return bad


def select_case(case):
    """case: (count, tuple of tuples of scores) - one inner tuple per correlation"""
    from src.correlation.peaks_selector import PeaksSelector
    count, corr = case
    cs = [SimpleNamespace(peaks=[SimpleNamespace(score=s, position=10 * j + i) for i, s in enumerate(scores)], n=j) for j, scores in enumerate(corr)]
    out = list(PeaksSelector(count).selectPeaks(iter(cs)))
    bad = []
    total = sum(len(c.peaks) for c in cs)
    if len(out) != min(max(count, 0), total):
        bad.append('at_most_peaksCount_seeds' if len(out) > max(count, 0) else 'as_many_seeds_as_available_up_to_peaksCount')
    allp = [(c, p) for c in cs for p in c.peaks]
    if any(all(not (sp.primaryCorrelation is c and sp.peak is p) for c, p in allp) for sp in out):
        bad.append('every_seed_is_a_peak_of_its_correlation')
    if len({id(sp.peak) for sp in out}) != len(out):
        bad.append('no_peak_selected_twice')
    sc = [sp.peak.score for sp in out]
    if sc != sorted(sc, reverse=True):
        bad.append('descending_scores')
    chosen = {id(sp.peak) for sp in out}
    if out and any(p.score > min(sc) for c, p in allp if id(p) not in chosen):
        bad.append('no_dropped_peak_scores_higher')
    return bad


def unit_chunk(chunk):
    kind, cases = chunk
    f = filter_case if kind == 'filter' else select_case
    out, nt = [], 0
    for c in cases:
        try:
            bad = f(c)
        except Exception as e:
            bad = [f"no_exception:{type(e).__name__}"]
        if kind == 'filter':
            nt += 1 if len(c) > len({q for q, _ in c}) else 0
        else:
            nt += 1 if sum(len(x) for x in c[1]) > c[0] else 0
        if bad:
            out.append((c, bad))
    return len(cases), nt, out[:5], kind


def unit_cases():
    filt = []
    cells = [(q, c) for q in (1, 2, 3) for c in (1.0, 2.0)]
    for n in range(0, 5):
        filt += list(itertools.product(cells, repeat=n))                 # 1 + 6 + 36 + 216 + 1296
    for combo in itertools.product((1.0, 2.0, 3.0), repeat=5):          # one query, up to five rows, all confidence orders
        filt.append(tuple((7, c) for c in combo))
    for combo in itertools.product((1.0, 2.0, 3.0), repeat=3):
        filt.append(((9, 2.0),) + tuple((7, c) for c in combo) + ((3, 1.0),))
    sel = []
    scores = (1.0, 2.0, 2.0, 3.0)
    shapes = [(a, b) for a in range(0, 4) for b in range(0, 4)]
    for a, b in shapes:
        for sa in set(itertools.product((-1.0, 0.0, 2.0, 3.0), repeat=a)):
            for sb in set(itertools.product((-1.0, 0.0, 2.0, 3.0), repeat=b)):
                for count in (0, 1, 2, 3, 5):
                    sel.append((count, (sa, sb)))
    return filt, sel


def bounded(repo, tier, seed):
    n = 56 if tier == 'quick' else 1500
    r1 = pd.run(repo, tier, seed, ['C05'], MODES if tier != 'quick' else (lambda i: [MODESQ[i % len(MODESQ)]]), n, params_list=PARAMS,
                overrides=lambda i: dict(generator='planted', modes=['separate'], params={}) if i % 4 == 3 else None)
    # densely labelled short contigs with molecules flush with a contig end: seed peaks that score at or below the noise level of their correlation
    nd = 40 if tier == 'quick' else 600
    r1d = pd.run(repo, tier, seed + 17, ['C05'], lambda i: ['separate'], nd, params_list=[{}, {'p': 5}],
                 overrides=lambda i: dict(generator='dense'))
    filt, sel = unit_cases()
    chunks = [('filter', filt[i:i + 600]) for i in range(0, len(filt), 600)] + [('select', sel[i:i + 1500]) for i in range(0, len(sel), 1500)]
    res = pmap(unit_chunk, chunks, repo)
    viol = {}
    for cnt, nt, bads, kind in res:
        fid = FILT if kind == 'filter' else SEL
        for case, bad in bads:
            k = f"{fid}::monitor::C05::{bad[0]}"
            v = dict(key=k, blame=fid, input=dict(unit=kind, case=[list(x) if isinstance(x, tuple) else x for x in case] if kind == 'filter'
                                                else [case[0], [list(x) for x in case[1]]]), observed=bad, required='C05 statement')
            viol.setdefault(k, v)
    r2 = result(sum(r[0] for r in res), sum(r[1] for r in res),
                "the two selection functions called directly on stub rows / peaks (only the attributes they read): "
                "filterOutSubsequentAlignmentsForSingleQuery on every list of up to 4 rows over 3 query ids x 2 confidences and every 5-row single-query "
                "list over 3 confidences (one input row per query, ascending ids, maximal confidence); selectPeaks on two correlations with 0-3 peaks each, "
                "scores from {-1,0,2,3} with ties (a score is height minus noise level: zero and negative values are ordinary), peaksCount 0/1/2/3/5 (exactly min(count, available) seeds, descending, none dropped scores higher); "
                "non-trivial = something had to be dropped",
                [dict(unit='filter', case=[list(x) for x in filt[300]]), dict(unit='select', case=[sel[200][0], [list(x) for x in sel[200][1]]])],
                list(viol.values())[:4], exhaustive=True, bounds="lists of <= 5 rows; <= 6 peaks")
    return merge([r1, r1d, r2])


def replay(repo, rp):
    i = rp['input']
    if 'unit' in i:
        from bcheck.common import use_repo
        use_repo(repo)
        if i['unit'] == 'filter':
            bad = filter_case(tuple(tuple(x) for x in i['case']))
        else:
            bad = select_case((i['case'][0], tuple(tuple(x) for x in i['case'][1])))
        return (not bad), bad
    return pd.replay(repo, rp)


MODES = ['best', 'separate', 'joined', 'all']
MODESQ = ['best', 'separate', 'all', 'best']
PARAMS = [{}, {'p': 1}, {'p': 5}, {'p': 2}]
