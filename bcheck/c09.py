"""C09: static frame obligations on the AST of /repo (the sequential core of the argument) and a bounded differential run of the real CLI with
different worker counts, repetitions and perturbed completion orders (the only part that exercises real scheduling)."""
import ast
import hashlib
import os
import subprocess
import sys
import random
from bcheck.common import result, pmap
from bcheck import pipeline as pl

WC = 'src/workflow_coordinator.py'


def static_obligations(repo):
    """(obligation id, holds?, detail).  Assumption they rest on: p_tqdm.p_imap yields f(x0), f(x1), ... in input order for every num_cpus."""
    out = []
    with open(os.path.join(repo, WC)) as f:
        tree = ast.parse(f.read())
    imported = {a.asname or a.name: (n.module, a.name) for n in tree.body if isinstance(n, ast.ImportFrom) for a in n.names}
    calls = [n for n in ast.walk(tree) if isinstance(n, ast.Call) and isinstance(n.func, ast.Name) and n.func.id in imported
             and (imported[n.func.id][0] or '').startswith('p_tqdm')]
    ok = len(calls) == 1 and imported[calls[0].func.id] == ('p_tqdm', 'p_imap')
    out.append((f"{WC}::_WorkflowCoordinator.execute::static::parallel_map_is_the_ordered_p_imap", ok,
                [(imported[c.func.id]) for c in calls]))
    # the whole query list goes to the coordinator in ONE execute call (rows = map(F, queries); additional files are opened once per call)
    with open(os.path.join(repo, 'src/program.py')) as f:
        pt = ast.parse(f.read())
    run = [fn for c in pt.body if isinstance(c, ast.ClassDef) and c.name == 'Program' for fn in c.body if isinstance(fn, ast.FunctionDef) and fn.name == 'run']
    execs, in_loop = [], False
    if run:
        for n in ast.walk(run[0]):
            if isinstance(n, ast.Call) and isinstance(n.func, ast.Attribute) and n.func.attr == 'execute':
                execs.append(n)
        loops = [n for n in ast.walk(run[0]) if isinstance(n, (ast.For, ast.While, ast.ListComp, ast.GeneratorExp, ast.SetComp, ast.DictComp))]
        in_loop = any(e in list(ast.walk(l)) for l in loops for e in execs)
    whole = len(execs) == 1 and len(execs[0].args) == 2 and isinstance(execs[0].args[1], ast.Attribute) and execs[0].args[1].attr == 'queryMaps' \
        and isinstance(execs[0].args[1].value, ast.Name) and execs[0].args[1].value.id == 'self'
    out.append(("src/program.py::Program.run::static::all_queries_go_to_the_coordinator_in_one_execute_call", bool(run) and whole and not in_loop,
                dict(execute_calls=len(execs), inside_a_loop=in_loop), 'argument'))
    # per-run service objects must not carry state between queries: attribute stores outside __init__
    allowed = {('AlignerEngine', 'iteration')}
    services = ['src/workflow_coordinator.py', 'src/multi_pass_workflow_coordinator.py', 'src/alignment/aligner.py', 'src/alignment/alignment_position_scorer.py',
                'src/alignment/segments_factory.py', 'src/alignment/segment_chainer.py', 'src/alignment/segment_with_resolved_conflicts.py',
                'src/correlation/peaks_selector.py', 'src/correlation/sequence_generator.py', 'src/correlation/optical_map.py', 'src/extensions/dispatcher.py']
    service_classes = {'_WorkflowCoordinator', '_MultiPassWorkflowCoordinator', 'Aligner', 'AlignerEngine', 'AlignmentPositionScorer', 'AlignmentSegmentsFactory',
                       'SegmentChainer', 'SequentialityScorer', 'AlignmentSegmentConflictResolver', 'PeaksSelector', 'SequenceGenerator', 'Dispatcher', 'OpticalMap'}
    offenders, global_state, nondet = [], [], []
    for rel in services:
        with open(os.path.join(repo, rel)) as f:
            t = ast.parse(f.read())
        for node in t.body:
            # module-level mutable state (caches) shared between queries handled by one worker
            if isinstance(node, (ast.Assign, ast.AnnAssign)):
                val = node.value
                if isinstance(val, (ast.Dict, ast.List, ast.Set)) or (isinstance(val, ast.Call) and getattr(val.func, 'id', '') in ('dict', 'list', 'set', 'defaultdict')):
                    # a module-level container is state only if some function writes to it (constants are fine)
                    names = [x.id for tg in (node.targets if isinstance(node, ast.Assign) else [node.target]) for x in ast.walk(tg) if isinstance(x, ast.Name)]
                    for fn in [n for n in ast.walk(t) if isinstance(n, (ast.FunctionDef, ast.Lambda))]:
                        for x in ast.walk(fn):
                            written = (isinstance(x, ast.Subscript) and isinstance(x.ctx, (ast.Store, ast.Del)) and isinstance(x.value, ast.Name) and x.value.id in names) or \
                                      (isinstance(x, ast.Call) and isinstance(x.func, ast.Attribute) and isinstance(x.func.value, ast.Name) and x.func.value.id in names
                                       and x.func.attr in ('append', 'add', 'update', 'setdefault', 'pop', 'extend', 'insert', 'clear', 'remove', 'popitem'))
                            if written:
                                global_state.append(f"{rel}:{node.lineno} ({names[0]} written at line {x.lineno})")
                                break
            if isinstance(node, (ast.Import, ast.ImportFrom)):
                mods = [a.name for a in node.names] + ([node.module] if isinstance(node, ast.ImportFrom) and node.module else [])
                if any(m and m.split('.')[0] in ('random', 'time', 'uuid', 'secrets') for m in mods):
                    nondet.append(f"{rel}:{node.lineno}")
            if isinstance(node, ast.ClassDef) and node.name in service_classes:
                for fn in node.body:
                    if isinstance(fn, ast.FunctionDef) and fn.name != '__init__' and fn.args.args:
                        selfname = fn.args.args[0].arg
                        for n in ast.walk(fn):
                            tg = n.targets if isinstance(n, ast.Assign) else [n.target] if isinstance(n, (ast.AugAssign, ast.AnnAssign)) else []
                            for t_ in tg:
                                for x in ast.walk(t_):
                                    if isinstance(x, ast.Attribute) and isinstance(x.value, ast.Name) and x.value.id == selfname and isinstance(x.ctx, ast.Store) \
                                            and (node.name, x.attr) not in allowed:
                                        offenders.append(f"{rel}::{node.name}.{fn.name}: self.{x.attr}")
                        for n in ast.walk(fn):
                            if isinstance(n, (ast.Global, ast.Nonlocal)):
                                global_state.append(f"{rel}::{node.name}.{fn.name}: global")
    out.append(("src::static::service_objects_are_not_mutated_between_queries (only AlignerEngine.iteration)", not offenders, offenders[:10]))
    out.append(("src::static::no_module_level_mutable_state_on_the_pipeline_path", not global_state, global_state[:10]))
    out.append(("src::static::no_clock_or_randomness_imported_on_the_pipeline_path", not nondet, nondet[:10]))
    # the run-specific field `source` (= AlignerEngine.iteration) must not influence results: only read by repr/hash/copy constructor
    with open(os.path.join(repo, 'src/alignment/alignment_position.py')) as f:
        t = ast.parse(f.read())
    readers = []
    for cls in [n for n in t.body if isinstance(n, ast.ClassDef)]:
        for fn in [n for n in cls.body if isinstance(n, ast.FunctionDef)]:
            for x in ast.walk(fn):
                if isinstance(x, ast.Attribute) and x.attr == 'source' and isinstance(x.ctx, ast.Load):
                    readers.append(f"{cls.name}.{fn.name}")
    ok = set(readers) <= {'AlignedPair.__repr__', 'AlignedPair.__hash__', 'ScoredAlignedPair.__init__'}
    out.append(("src/alignment/alignment_position.py::static::pair_source_only_read_by_repr_hash_and_copy", ok, sorted(set(readers))))
    return out


def run_cli(repo, d, cpus, perturb, mode, tag, hashseed=None):
    out = os.path.join(d, f"o_{tag}.xmap")
    runner = os.path.join(os.path.dirname(os.path.abspath(__file__)), 'c09_runner.py')
    env = dict(os.environ)
    if hashseed is not None:
        env['PYTHONHASHSEED'] = str(hashseed)          # "on every repetition": interpreters differ in their string hash seed (random by default)
    p = subprocess.run([sys.executable, runner, repo, str(perturb), '-r', os.path.join(d, 'r.cmap'), '-q', os.path.join(d, 'q.cmap'), '-o', out,
                        '-oM', mode, '-c', str(cpus), '-pb'], capture_output=True, text=True, timeout=900, env=env)
    files = {}
    base, ext = os.path.splitext(out)
    for sfx in ('', '_1', '_2'):
        fp = f"{base}{sfx}{ext}"
        if os.path.exists(fp):
            with open(fp) as f:
                files[sfx] = ''.join(l for l in f if not l.startswith('# coma ') and not l.startswith('# hostname'))
    return p.returncode, p.stderr[-400:], files


def many_queries_set(seed, n):
    """one small reference and n short queries (windows of it, a third with an indel so that the second pass has work): scale, not difficulty"""
    rnd = random.Random(seed)
    pos, length = pl.gen_reference(rnd, 70)
    queries = []
    for q in range(n):
        k = rnd.randint(12, 16)
        a = rnd.randint(0, len(pos) - k - 1)
        lab = [p - pos[a] for p in pos[a:a + k]]
        if q % 3 == 0:
            cut = rnd.randint(5, k - 5)
            lab = lab[:cut] + [p + 20000 for p in lab[cut:]]
        queries.append((q + 1, lab[-1] + 100, lab))
    return [(1, length, pos)], queries


def tie_set(seed):
    """one long reference and one molecule that carries the same reference region twice (copy - other region - copy - four more labels; the region is
    flanked by label-free stretches on the reference, the second copy starts at a multiple of the secondary resolution): the first pass aligns the
    middle, the second pass aligns the two flanking fragments to the same locus with EXACTLY the same confidence although they differ in their number
    of labels; which of the two is kept is decided by their order alone"""
    rnd = random.Random(seed)
    length, positions, p = 2400000, [], 3000
    while p < length - 3000:
        positions.append(p)
        p += rnd.randint(3000, 14000)
    a0 = rnd.randint(600000, 1000000)
    a1, b0 = a0 + 150000, a0 + 200000
    b1, desert = b0 + 240000, 45000
    positions = [x for x in positions if not (a0 - desert <= x < a0 or a1 <= x < a1 + desert)]
    region_a = [x for x in positions if a0 <= x < a1]
    region_b = [x for x in positions if b0 <= x < b1]
    origin_a, origin_b = region_a[0] - 500, region_b[0] - 500
    query = [x - origin_a for x in region_a]
    start_b = query[-1] + 6000
    query += [x - origin_b + start_b for x in region_b]
    start_a2 = ((query[-1] + 6000) // 100) * 100
    query += [x - origin_a + start_a2 for x in region_a]
    query += [query[-1] + d for d in (9000, 19700, 27300, 38100)]     # (inside the label-free stretch of the reference: they pair with nothing)
    return [(1, length, positions)], [(7, query[-1] + 500, query)]


def palindrome_set(seed):
    """a reference that contains a mirror-symmetric stretch of labels (gaps g1 .. gk, gk .. g1) and a molecule that is a copy of that stretch: its
    forward and its reverse candidate tie exactly (same seed score, same confidence); which of them is reported may depend on nothing but the fixed
    order in which the strands are tried"""
    rnd = random.Random(seed)
    step = 1400                 # every coordinate on a lattice that both correlation resolutions divide: the mirror image of the bit vector is exact
    pos, x = [], step * rnd.randint(3, 7)
    for _ in range(rnd.randint(25, 40)):
        pos.append(x)
        x += step * rnd.randint(3, 11)
    half = [step * rnd.randint(3, 10) for _ in range(rnd.randint(8, 12))]
    gaps = half + half[::-1]
    x += step * 20
    start = x
    pal = [x]
    for g in gaps:
        x += g
        pal.append(x)
    pos += pal
    x += step * 20
    for _ in range(rnd.randint(25, 40)):
        pos.append(x)
        x += step * rnd.randint(3, 11)
    query = [p - start for p in pal]
    return [(1, x + 5000, pos)], [(5, query[-1] + 1, query)]


def run_case(case):
    repo, seed, mode, cpu_list = case
    if mode.startswith('pal:'):
        mode = mode.split(':')[1]
        refs, queries = palindrome_set(seed)
        d = pl.make_workdir(refs, queries)
        bad = []
        try:
            rc0, err0, base = run_cli(repo, d, 1, 0, mode, 'base', hashseed=0)
            if rc0 != 0:
                return (seed, 'pal:' + mode), [('cli_run_succeeds', err0)], 1
            for i, c in enumerate(cpu_list):
                rc, err, files = run_cli(repo, d, c, 0, mode, f"v{i}", hashseed=i + 1)
                if rc != 0:
                    bad.append(('cli_run_succeeds', dict(cpus=c, error=err)))
                elif files != base:
                    bad.append(('output_identical_for_every_worker_count_and_repetition',
                                dict(cpus=c, set='palindrome', hashseed=i + 1, files=[s for s in set(files) | set(base) if files.get(s) != base.get(s)])))
        finally:
            pl.cleanup(d)
        return (seed, 'pal:' + mode), bad, len(cpu_list) + 1
    if mode.startswith('tie:'):
        mode = mode.split(':')[1]
        refs, queries = tie_set(seed)
        d = pl.make_workdir(refs, queries)
        bad = []
        try:
            rc0, err0, base = run_cli(repo, d, 1, 0, mode, 'base')
            if rc0 != 0:
                return (seed, 'tie:' + mode), [('cli_run_succeeds', err0)], 1
            for i, c in enumerate(cpu_list):
                rc, err, files = run_cli(repo, d, c, 0, mode, f"v{i}")
                if rc != 0:
                    bad.append(('cli_run_succeeds', dict(cpus=c, error=err)))
                elif files != base:
                    bad.append(('output_identical_for_every_worker_count_and_repetition',
                                dict(cpus=c, set='tie', files=[s for s in set(files) | set(base) if files.get(s) != base.get(s)])))
        finally:
            pl.cleanup(d)
        return (seed, 'tie:' + mode), bad, len(cpu_list) + 1
    if mode.startswith('many:'):
        # results must not depend on how many queries one worker (or one block of work) gets: several hundred queries, 1 vs 2 workers
        mode = mode.split(':')[1]
        refs, queries = many_queries_set(seed, 300)
        d = pl.make_workdir(refs, queries)
        bad = []
        try:
            rc0, err0, base = run_cli(repo, d, 1, 0, mode, 'base')
            rc1, err1, two = run_cli(repo, d, cpu_list[0], 0, mode, 'v0')
            if rc0 != 0 or rc1 != 0:
                bad.append(('cli_run_succeeds', dict(error=err0 or err1)))
            elif two != base:
                bad.append(('output_identical_for_every_worker_count_and_repetition',
                            dict(cpus=cpu_list[0], queries=len(queries), files=[s for s in set(two) | set(base) if two.get(s) != base.get(s)])))
        finally:
            pl.cleanup(d)
        return (seed, 'many:' + mode), bad, 2
    refs, queries, _ = pl.gen_set(seed, n_queries=(10, 16), weights=[2, 2, 1, 3, 3, 1])
    # a query whose two unaligned flanks are identical gives two second-pass candidates of exactly equal confidence
    rnd = random.Random(seed)
    rp = refs[0][2]
    if len(rp) > 40:
        a = rnd.randint(2, 8)
        flank = [p - rp[a] for p in rp[a:a + 9]]
        b = rnd.randint(20, len(rp) - 16)
        mid = [p - rp[b] for p in rp[b:b + 14]]
        lab = flank + [flank[-1] + 30000 + p for p in mid]
        lab = lab + [lab[-1] + 30000 + p for p in flank]
        queries.append((900, lab[-1] + 1, lab))
        # the same with the second copy at an offset that is a multiple of the secondary resolution and two more labels behind it: the two second-pass
        # fragments then differ in their number of labels but their alignments still tie exactly - which of them is kept may depend on nothing but
        # the (fixed) order of the fragments
        lab2 = flank + [flank[-1] + 30000 + p for p in mid]
        start2 = ((lab2[-1] + 30000) // 100) * 100
        lab2 = lab2 + [start2 + p for p in flank]
        lab2 = lab2 + [lab2[-1] + 9000, lab2[-1] + 19700]
        queries.append((901, lab2[-1] + 500, lab2))
    d = pl.make_workdir(refs, queries)
    bad = []
    try:
        # every run of the set writes to the SAME output path, as a user repeating the command does: what an earlier run left there must not show
        rc0, err0, base = run_cli(repo, d, 1, 0, mode, 'same')
        if rc0 != 0:
            return (seed, mode), [('cli_run_succeeds', err0)], 1
        variants = [(c, 0) for c in cpu_list] + [(1, 0)] + [(cpu_list[-1], 1), (cpu_list[len(cpu_list) // 2], 2)]
        for i, (c, pert) in enumerate(variants):
            rc, err, files = run_cli(repo, d, c, pert, mode, 'same')
            if rc != 0:
                bad.append(('cli_run_succeeds', dict(cpus=c, error=err)))
            elif files != base:
                diff = [s for s in set(files) | set(base) if files.get(s) != base.get(s)]
                bad.append(('output_identical_for_every_worker_count_and_repetition' if not pert else 'output_independent_of_worker_completion_order',
                            dict(cpus=c, perturbed=pert, files=diff)))
    finally:
        pl.cleanup(d)
    return (seed, mode), bad, len(variants) + 1


def bounded(repo, tier, seed):
    if tier == 'quick':
        cases = [(repo, seed * 4001 + i, m, [2, 3, 8, 16]) for i, m in enumerate(['best', 'all', 'best'])] + [(repo, seed * 4001 + 77, 'many:all', [2]),
                                                                                                                    (repo, seed * 4001 + 78, 'tie:best', [2, 3, 16]),
                                                                                                                    (repo, seed * 4001 + 79, 'pal:best', [1, 1, 2, 1, 3, 1, 16])]
    else:
        cases = [(repo, seed * 4001 + i, m, [2, 3, 4, 8, 12, 16]) for i, m in enumerate(['best', 'all', 'joined', 'separate'] * 5)] + \
                [(repo, seed * 4001 + 77 + i, 'many:' + m, [c]) for i, (m, c) in enumerate([('all', 2), ('separate', 3), ('joined', 4), ('best', 2)])] + \
                [(repo, seed * 4001 + 178 + i, 'tie:' + m, [2, 3, 4, 16]) for i, m in enumerate(['best', 'all', 'joined', 'best', 'all'])] + \
                [(repo, seed * 4001 + 278 + i, 'pal:' + m, [1, 1, 2, 1, 3, 1, 16, 1]) for i, m in enumerate(['best', 'separate', 'all'])]
    from concurrent.futures import ThreadPoolExecutor
    with ThreadPoolExecutor(max_workers=4) as ex:
        res = list(ex.map(run_case, cases))
    viol = {}
    tot = 0
    for case, bad, k in res:
        tot += k
        for clause, detail in bad:
            key = f"src/workflow_coordinator.py::_WorkflowCoordinator.execute::monitor::C09::{clause}"
            viol.setdefault(key, dict(key=key, blame='src/workflow_coordinator.py::_WorkflowCoordinator.execute', input=dict(seed=case[0], mode=case[1]),
                                      observed=detail, required='C09 statement'))
    return result(tot, tot, "real CLI runs (separate processes, real p_tqdm worker pools) on generated sets incl. two queries with two identical flanks (equal-confidence "
                            "second-pass candidates, once with fragments of different label counts): --cpus 1 (baseline and repetition), 2, 3, 8, 16, one set of 300 short queries with 1 and 2 workers, one set with a dispersed duplication (two second-pass fragments of different size whose alignments tie exactly), one set with a mirror-symmetric molecule (forward and reverse candidates tie exactly) run in interpreters with eight different string hash seeds, plus runs whose per-query workers sleep a seeded random "
                            "0-30 ms (perturbed completion order); all runs of a set write to the same output path; all XMAP files compared byte-wise except the '# coma' / '# hostname' header lines; "
                            "evaluations = CLI runs", [dict(seed=cases[0][1], mode=cases[0][2])], list(viol.values())[:5], exhaustive=False,
                  bounds=f"{len(cases)} sets x {len(cases[0][3]) + 4} runs")


def replay(repo, rp):
    mode = rp['input']['mode']
    case, bad, _ = run_case((repo, rp['input']['seed'], mode, [2] if mode.startswith('many:') else ([2, 3, 16] if mode.startswith('tie:') else ([1, 1, 2, 1, 3, 1, 16] if mode.startswith('pal:') else [2, 3, 8, 16]))))
    return (not bad), bad[:3]
