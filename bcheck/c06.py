"""C06 bounded part (decides the property; floating-point FFT seeding is outside any contract): noise-free copies of interior reference windows
through the real program with default parameters."""
import os
import random
from bcheck.common import pmap, result, time_limit, CaseTimeout
from bcheck import pipeline as pl

RUN = 'src/program.py::Program.run'


def gen(seed):
    rnd = random.Random(seed)
    n = rnd.randint(60, 140)
    dense_start = rnd.random() < 0.4       # the first labels close to the reference origin and to each other (still >= 2 kb apart)
    pos, x = [], rnd.randint(200, 2500) if dense_start else rnd.randint(3000, 30000)
    for i in range(n):
        pos.append(x)
        if dense_start and i < 8:
            x += rnd.randint(2000, 3400)
        else:
            x += 2000 + int(rnd.expovariate(1 / 7500.0))       # spacing >= 2 kb, mean about 9.5 kb overall
    queries, truth = [], {}
    windows = []
    for qi in range(8):
        k = rnd.randint(15, 45)
        a = rnd.randint(4, n - 4 - k) if not (dense_start and qi < 3) else 4 + qi % 2       # windows right at the allowed distance from the start
        windows.append((a, k))
    # near-duplicates: behind the last label the reference repeats two of the planted windows with every label displaced by up to 450 bp
    # (still >= 2 kb apart): each label of the query pairs there too, but only the exact copy is the true placement
    x = pos[-1]
    for a, k in windows[5:7]:
        x += rnd.randint(20000, 60000)
        dup = [x + (p - pos[a]) + rnd.choice((-1, 1)) * rnd.randint(60, 450) for p in pos[a:a + k]]
        if all(b - c >= 2000 for c, b in zip(dup, dup[1:])) and dup[0] - pos[-1] >= 2000:
            pos = pos + dup
            x = dup[-1]
    # a stretch whose label gaps are almost mirror-symmetric (mirrored gaps differ by 400 - 900 bp: less than a seeding bin, far more than the pairing tolerance of the statement; with differences below
    # about 300 bp the unchanged program itself can prefer the mirror image - known finding K5): at the coarse seeding resolution its reverse-strand
    # image correlates about as well as the true strand; only the refinement and the alignment tell them apart
    rs = random.Random(seed * 53 + 9)
    half = [2000 + int(rs.expovariate(1 / 7000.0)) for _ in range(rs.randint(8, 12))]
    gaps = half + [max(2000, g + rs.choice((-1, 1)) * rs.randint(400, 900)) for g in reversed(half)]
    x = pos[-1] + rs.randint(20000, 60000)
    sym_a = len(pos)
    pos.append(x)
    for g in gaps:
        x += g
        pos.append(x)
    sym_k = len(pos) - sym_a
    for _ in range(6):
        x += 2000 + int(rnd.expovariate(1 / 7500.0))
        pos.append(x)
    ref = (1, pos[-1] + rnd.randint(1000, 20000), pos)
    for qi in range(8):
        a, k = windows[qi]
        rev = rnd.random() < 0.5
        lab = [p - pos[a] for p in pos[a:a + k]]
        if rev:
            lab = sorted(lab[-1] - p for p in lab)
        off = rnd.choice((0, 0, rnd.randint(1, 5000)))
        tail = rnd.choice((1, rnd.randint(2, 3000)))
        if qi in (2, 4):
            # long unlabelled ends: the declared molecule length (offset + labelled span + tail) exceeds the reference length although the labelled
            # span is an interior window - legal, and irrelevant once the query is trimmed
            rx = random.Random(seed * 31 + qi)
            off, tail = rx.randint(pos[-1] // 2, pos[-1]), rx.randint(pos[-1] // 2, pos[-1])
        lab = [p + off for p in lab]
        qid = 10 + qi if qi else 1        # the two CMAP files have independent id spaces: one query carries the reference's own id
        queries.append((qid, lab[-1] + tail, lab))
        # true pairs in ascending reference order
        truth[qid] = dict(reverse=rev, pairs=[(a + i + 1, (k - i) if rev else (i + 1)) for i in range(k)])
    a, k, rev = sym_a, sym_k, rs.random() < 0.5
    lab = [p - pos[a] for p in pos[a:a + k]]
    if rev:
        lab = sorted(lab[-1] - p for p in lab)
    queries.append((30, lab[-1] + 1, lab))
    truth[30] = dict(reverse=rev, pairs=[(a + i + 1, (k - i) if rev else (i + 1)) for i in range(k)])
    return ref, queries, truth


def run_case(case, explicit=None):
    seed, mode = case
    if explicit is not None:
        ref = tuple(explicit['reference'][:2]) + (list(explicit['reference'][2]),)
        q = explicit['query']
        queries = [(q[0], q[1], list(q[2]))]
        truth = {q[0]: dict(reverse=explicit['truth']['reverse'], pairs=[tuple(x) for x in explicit['truth']['pairs']])}
    else:
        ref, queries, truth = gen(seed)
    d = pl.make_workdir([ref], queries)
    bad = []
    try:
        with time_limit(300):
            run = pl.run_program(d, mode, [])
        if run.error:
            return case, [('no_exception', run.error[-300:])], 0
        # where a mode reports single-pass records: 'best' main file; 'separate' main (first pass) and _1 (second pass); 'joined' main
        # (joined records) and _1 (un-joined records); 'all' _1 (first pass) and _2 (second pass) - its main file repeats the joined records
        files = {'best': ('',), 'separate': ('', '_1'), 'joined': ('', '_1'), 'all': ('_1', '_2')}[mode]
        byq = {}
        for sfx in files:
            _, recs = pl.parse_xmap_text(run.files.get(sfx, ''))
            for r in recs:
                byq.setdefault(int(r['QryContigID']), []).append(r)
        rows = {r.queryId: r for r in (run.rows or [])}
        for qid, t in truth.items():
            rs = byq.get(qid, [])
            if len(rs) != 1:
                bad.append(('planted_query_is_reported_exactly_once', dict(query=qid, records=len(rs))))
                continue
            r = rs[0]
            if r['RefContigID'] != '1' or (r['Orientation'] == '-') != t['reverse']:
                bad.append(('reported_on_the_true_reference_and_strand', dict(query=qid, orientation=r['Orientation'])))
            elif [tuple(x) for x in r['_pairs']] != [tuple(x) for x in t['pairs']]:
                bad.append(('exactly_the_true_label_pairs', dict(query=qid, got=r['_pairs'][:8], want=t['pairs'][:8], n_got=len(r['_pairs']), n_want=len(t['pairs']))))
            elif r['HitEnum'] != f"{len(t['pairs'])}M":
                bad.append(('no_hitenum_gaps', dict(query=qid, hitenum=r['HitEnum'])))
            row = rows.get(qid)
            if row is not None and any(abs(p.queryShift) > 200 for p in row.alignedPairs):
                bad.append(('every_pair_within_200bp_of_the_seed_diagonal', dict(query=qid, worst=max(abs(p.queryShift) for p in row.alignedPairs))))
    except CaseTimeout:
        bad.append(('terminates', None))
    finally:
        pl.cleanup(d)
    return case, bad, len(truth)


def bounded(repo, tier, seed):
    modes = ['best'] if tier == 'quick' else ['best', 'separate', 'joined', 'all']
    nsets = 28 if tier == 'quick' else 400
    cases = [(seed * 9973 + i, modes[i % len(modes)] if tier == 'quick' else m) for i in range(nsets) for m in ([None] if tier == 'quick' else modes)]
    cases = [(s, m or modes[0]) for s, m in cases]
    res = pmap(run_case, cases, repo)
    viol = {}
    n = 0
    for case, bad, k in res:
        n += k
        for clause, detail in bad:
            key = f"{RUN}::monitor::C06::{clause}"
            viol.setdefault(key, dict(key=key, blame=RUN, input=dict(seed=case[0], mode=case[1]), observed=detail, required='C06 statement'))
    return result(n, n, "single-reference maps of 60-140 labels with spacing >= 2 kb (mean about 9.5 kb); per map 8 planted queries = exact copies of interior windows "
                        "of 15-45 labels at least 4 labels from either end, either strand, random coordinate offset and trailing length; two of the windows re-appear further "
                        "on as near-duplicates (every label displaced by 60-450 bp), one more query copies a stretch with almost mirror-symmetric gaps; default parameters; "
                        "the planted query must be reported once, on the true reference and strand, with exactly the true pairs, HitEnum nM, every pair within "
                        "200 bp of its seed diagonal; every planting is non-trivial (distinct window)", [dict(seed=cases[0][0], mode=cases[0][1])],
                  list(viol.values())[:5], exhaustive=False, bounds=f"{len(cases)} maps x 9 plantings")


def replay(repo, rp):
    from bcheck.common import use_repo
    use_repo(repo)
    if 'explicit' in rp['input']:
        case, bad, _ = run_case((0, rp['input']['mode']), rp['input']['explicit'])
    else:
        case, bad, _ = run_case((rp['input']['seed'], rp['input']['mode']))
    return (not bad), bad[:3]
