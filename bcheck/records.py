"""Oracles for the record-level properties (C01, C02, C03 end-to-end, C04, C05, C07 file shape), evaluated on the output
of the real pipeline.  They read the XMAP/CMAP *text* with the independent parsers of bcheck.pipeline and, where the property
is about in-memory candidates, the objects handed out by the real program."""
from __future__ import annotations

from bcheck.pipeline import parse_cmap_text, parse_xmap_text, XMAP_COLS
from bcheck import conflict_monitor as cm

WRITER = 'src/parsers/xmap_reader.py::XmapReader.writeAlignments'
ALIGN = 'src/alignment/aligner.py::Aligner.align'
JOIN = 'src/alignment/alignment_results.py::AlignmentResultRow.resolve'


def fmt1(x):
    return "{:.1f}".format(x)


# ------------------------------------------------------------------------------------------------ C01
def c01_pairs(pairs, orientation, nref, nqry):
    """violated clauses of C01 for one listed pair sequence"""
    bad = []
    if not pairs:
        return ['at_least_one_pair']
    if any(not (1 <= r <= nref) for r, _ in pairs) or any(not (1 <= q <= nqry) for _, q in pairs):
        bad.append('labels_exist_in_the_named_maps')
    rs = [r for r, _ in pairs]
    qs = [q for _, q in pairs]
    if len(set(rs)) != len(rs):
        bad.append('each_reference_label_at_most_once')
    if len(set(qs)) != len(qs):
        bad.append('each_query_label_at_most_once')
    if any(b <= a for a, b in zip(rs, rs[1:])):
        bad.append('strictly_ascending_reference_order')
    if orientation == '+' and any(b <= a for a, b in zip(qs, qs[1:])):
        bad.append('query_labels_strictly_increasing_for_plus')
    if orientation == '-' and any(b >= a for a, b in zip(qs, qs[1:])):
        bad.append('query_labels_strictly_decreasing_for_minus')
    return bad


def conflict_mechanisms(events, qid):
    """known mechanisms (K1/K2) and unknown conflict failures observed while query `qid` was processed, by call site"""
    out = []
    for ev in events:
        ctx = ev.get('context')
        if not ctx or ctx[1] != qid:
            continue
        site = JOIN if ctx[0] == 'join' else ALIGN
        if ev['kind'] == 'judged':
            for clause, mech, _ in ev['bad']:
                if clause.startswith('no_two_segments'):
                    out.append((site, mech))
        elif ev['kind'] == 'pair' and ctx[0] == 'join':
            why = cm.shares_or_crosses(ev['out'][0], ev['out'][1], ev.get('reverse'))
            if why:
                out.append((site, 'K2:unequal_labels' if not ev['same_labels'] else None))
    return out


def c01(run, refs, qrys, events):
    """refs/qrys: {id: (length, [coords])} parsed from the CMAP text"""
    viol = []

    def judge(pairs, orientation, rid, qid, where, detail):
        if rid not in refs or qid not in qrys:
            viol.append((f"{WRITER}::monitor::C01::ids_name_input_maps", None, detail))
            return
        bad = c01_pairs(pairs, orientation, len(refs[rid][1]), len(qrys[qid][1]))
        if not bad:
            return
        mechs = conflict_mechanisms(events, qid) if bad[0] != 'at_least_one_pair' else []
        known = [m for m in mechs if m[1]]
        unknown = [m for m in mechs if m[1] is None]
        if known and not unknown and all(b != 'labels_exist_in_the_named_maps' for b in bad):
            site, mech = known[0]
            viol.append((f"{site}::monitor::C01::one_to_one_collinear", mech, dict(where=where, **detail, violated=bad)))
        else:
            viol.append((f"{WRITER if where.startswith('file') else ALIGN}::monitor::C01::{bad[0]}", None, dict(where=where, **detail, violated=bad)))

    for sfx, text in run.files.items():
        _, recs = parse_xmap_text(text)
        for rec in recs:
            try:
                rid, qid = int(rec['RefContigID']), int(rec['QryContigID'])
            except Exception:
                viol.append((f"{WRITER}::monitor::C07::well_formed_record", None, dict(file=sfx, line=str(rec)[:200])))
                continue
            judge(rec['_pairs'], rec['Orientation'], rid, qid, 'file' + sfx, dict(query=qid, reference=rid, pairs=rec['_pairs'][:60]))
    rmaps = {m.moleculeId: m for m in (run.reference_maps or [])}
    qmaps = {m.moleculeId: m for m in (run.query_maps or [])}
    for qid, cands in run.candidates.items():
        for row, q, r, corr in cands:
            pairs = [(p.reference.siteId, p.query.siteId) for p in row.alignedPairs]
            if pairs:
                judge(pairs, '-' if row.reverseStrand else '+', row.referenceId, row.queryId, 'candidate', dict(query=qid, reference=row.referenceId, pairs=pairs[:60]))
            # a label number must name the label whose coordinate was paired (whole-query numbering, also for fragments)
            rm, qm = rmaps.get(row.referenceId), qmaps.get(row.queryId)
            if rm is None or qm is None:
                continue
            for p in row.alignedPairs:
                ok = 1 <= p.reference.siteId <= len(rm.positions) and 1 <= p.query.siteId <= len(qm.positions)
                if ok:
                    qc = qm.positions[p.query.siteId - 1]
                    qc = (qm.length - 1 - qc) if row.reverseStrand else qc
                    ok = rm.positions[p.reference.siteId - 1] == p.reference.position and qc == p.query.position
                if not ok:
                    viol.append((f"{ALIGN}::monitor::C01::label_numbers_name_the_labels_paired", None,
                                 dict(query=qid, reference=row.referenceId, pair=(p.reference.siteId, p.query.siteId), fragment_shift=q.shift)))
                    break
    return viol


# ------------------------------------------------------------------------------------------------ C02
def c02(run, refs, qrys):
    viol = []
    for sfx, text in run.files.items():
        _, recs = parse_xmap_text(text)
        for i, rec in enumerate(recs):
            bad = []
            try:
                rid, qid = int(rec['RefContigID']), int(rec['QryContigID'])
                if rid not in refs or qid not in qrys:
                    bad.append('contig_ids_name_input_maps')
                else:
                    rlen, rpos = refs[rid]
                    _, qpos = qrys[qid]
                    if rec['XmapEntryID'] != str(i + 1):
                        bad.append('XmapEntryID_counts_from_1')
                    if rec['Orientation'] not in ('+', '-'):
                        bad.append('orientation_plus_or_minus')
                    if rec['RefLen'] != fmt1(int(rlen)):
                        bad.append('RefLen_is_reference_length')
                    if rec['QryLen'] != fmt1(qpos[-1] - qpos[0] + 1):
                        bad.append('QryLen_is_first_to_last_label')
                    pairs = rec['_pairs']
                    if pairs and all(1 <= r <= len(rpos) and 1 <= q <= len(qpos) for r, q in pairs):
                        # (the clauses about the listed pairs presuppose a valid matching - pairs listed in ascending reference order is C01's; an
                        # invalid one, e.g. a joined record hit by known finding K2, is reported there)
                        if not c01_pairs(pairs, rec['Orientation'], len(rpos), len(qpos)) and \
                                (rec['RefStartPos'] != fmt1(rpos[pairs[0][0] - 1]) or rec['RefEndPos'] != fmt1(rpos[pairs[-1][0] - 1])):
                            bad.append('RefStartPos_RefEndPos_are_first_and_last_listed_reference_labels')
                        qlabels = [q for _, q in pairs]
                        if c01_pairs(pairs, rec['Orientation'], len(rpos), len(qpos)):
                            # not a valid matching: that is a C01 violation (reported there, incl. the known conflict-resolution findings);
                            # "outermost aligned labels" of C02 presupposes the listed pairs are collinear
                            pass
                        elif rec['Orientation'] == '+':
                            s, e = qpos[min(qlabels) - 1] - qpos[0], qpos[max(qlabels) - 1] - qpos[0]
                            ok_order = float(rec['QryStartPos']) <= float(rec['QryEndPos'])
                        else:
                            s, e = qpos[-1] - qpos[min(qlabels) - 1], qpos[-1] - qpos[max(qlabels) - 1]
                            ok_order = float(rec['QryStartPos']) >= float(rec['QryEndPos'])
                        if not c01_pairs(pairs, rec['Orientation'], len(rpos), len(qpos)):
                            if rec['QryStartPos'] != fmt1(s) or rec['QryEndPos'] != fmt1(e):
                                bad.append('QryStartPos_QryEndPos_are_offsets_of_outermost_aligned_query_labels')
                            if not ok_order:
                                bad.append('query_start_end_order_follows_orientation')
            except Exception as ex:
                bad.append(f'well_formed_record:{type(ex).__name__}')
            for b in bad:
                viol.append((f"{WRITER}::monitor::C02::{b}", None, dict(file=sfx, record=i + 1, query=rec.get('QryContigID'), fields={k: rec.get(k) for k in XMAP_COLS[:13]})))
    return viol


# ------------------------------------------------------------------------------------------------ C03 end to end
def c03(run, events=()):
    from bcheck.c03 import decode
    viol = []
    for sfx, text in run.files.items():
        _, recs = parse_xmap_text(text)
        for i, rec in enumerate(recs):
            pairs = rec['_pairs']
            if not pairs:
                continue
            # a record whose matching is invalid because of one of the known conflict-resolution findings (K1/K2, reported under
            # C01/C15) is that finding's consequence, not a new C03 failure; any other invalid record is judged like every record
            if c01_pairs(pairs, rec['Orientation'], 10 ** 9, 10 ** 9):
                mechs = conflict_mechanisms(events, int(rec['QryContigID']))
                if mechs and all(m[1] for m in mechs):
                    continue
            bad = decode(rec['HitEnum'], pairs, 1 if rec['Orientation'] == '+' else -1)
            for b in bad:
                viol.append((f"src/alignment/alignment_results.py::AlignmentResultRow.cigarString::monitor::C03::{b}", None,
                             dict(file=sfx, record=i + 1, hitenum=rec['HitEnum'], pairs=pairs[:60])))
    return viol


# ------------------------------------------------------------------------------------------------ C04
def fragment_has(row, label, frag):
    """for a second-pass candidate only the labels of the re-aligned fragment take part"""
    if frag is None:
        return True
    return frag.shift + 1 <= label <= frag.shift + len(frag.positions)


def c04_row(row, ref_map, qry_map, params, frag=None):
    """recompute the confidence of a row from the raw maps, each segment's peak and the command-line parameters.
    ref_map / qry_map: OpticalMap objects of the program (positions = coordinates as read; query trimmed)."""
    from src.alignment.alignment_position import AlignedPair, ScoredNotAlignedPosition, NotAlignedReferencePosition
    sp, dp, su, d = params
    bad = []
    total = 0.0
    rpos, qpos = ref_map.positions, qry_map.positions
    n = len(qpos)
    # labels listed anywhere in the record (paired or unpaired): a label lying in the span of one segment but accounted for in
    # another segment of the same record (a joined record: the second-pass segment was built on a fragment that does not contain
    # the labels of the first-pass part) is accounted for once - exactly what the statement asks
    all_rl, all_ql = set(), set()
    for seg in row.segments:
        for p in seg.positions:
            if isinstance(p, AlignedPair):
                all_rl.add(p.reference.siteId)
                all_ql.add(p.query.siteId)
            else:
                inner = p.position if isinstance(p, ScoredNotAlignedPosition) else p
                if isinstance(inner, NotAlignedReferencePosition):
                    all_rl.add(inner.reference.siteId)
                else:
                    all_ql.add(inner.query.siteId)
    for seg in row.segments:
        if not seg.positions:
            continue
        seg_total = 0.0
        rl, ql = [], []
        for p in seg.positions:
            if isinstance(p, AlignedPair):
                r, q = p.reference.siteId, p.query.siteId
                if not (1 <= r <= len(rpos) and 1 <= q <= n):
                    bad.append('labels_exist')
                    continue
                qc = (qry_map.length - 1 - qpos[q - 1]) if row.reverseStrand else qpos[q - 1]
                off = qc - (rpos[r - 1] - seg.peak.position)
                if abs(off) > d + 1e-9:
                    bad.append('pair_offset_within_maxPairDistance')
                seg_total += sp - dp * abs(off)
                rl.append(r)
                ql.append(q)
            else:
                inner = p.position if isinstance(p, ScoredNotAlignedPosition) else p
                seg_total += su
                if isinstance(inner, NotAlignedReferencePosition):
                    rl.append(inner.reference.siteId)
                else:
                    ql.append(inner.query.siteId)
        for labels, name in ((rl, 'reference'), (ql, 'query')):
            if labels and len(set(labels)) != len(labels):
                bad.append(f'no_{name}_label_counted_twice')
        # span of the segment on the seed diagonal: every label strictly inside it must be accounted for
        def abs_pos(p):
            if isinstance(p, AlignedPair):
                return rpos[p.reference.siteId - 1]
            inner = p.position if isinstance(p, ScoredNotAlignedPosition) else p
            if isinstance(inner, NotAlignedReferencePosition):
                return rpos[inner.reference.siteId - 1]
            qq = qpos[inner.query.siteId - 1]
            return ((qry_map.length - 1 - qq) if row.reverseStrand else qq) + seg.peak.position
        if not bad:
            lo, hi = abs_pos(seg.positions[0]), abs_pos(seg.positions[-1])
            if any(lo < c < hi and (i + 1) not in all_rl for i, c in enumerate(rpos)):
                bad.append('no_reference_label_inside_the_span_unaccounted_for')
            shift_lo = min(ql) if ql else None
            for i, qq in enumerate(qpos):
                c = ((qry_map.length - 1 - qq) if row.reverseStrand else qq) + seg.peak.position
                if lo < c < hi and (i + 1) not in all_ql and fragment_has(row, i + 1, frag):
                    bad.append('no_query_label_inside_the_span_unaccounted_for')
                    break
        if abs(seg_total - seg.segmentScore) > 1e-9 * max(1.0, abs(seg_total)):      # (sums of about a hundred doubles: rounding noise stays below 1e-12)
            bad.append('segment_score_is_configured_score_of_its_positions')
        total += seg_total
    if abs(total - row.confidence) > 1e-9 * max(1.0, abs(total)):
        bad.append('confidence_is_sum_over_segments')
    return sorted(set(bad)), total


def c04(run, params, events, pr=None, pq=None):
    """pr / pq: the two CMAP files parsed independently of the project's reader ({id: (length, coordinates)}): the score is recomputed from THESE maps
    (the reference as written, the query trimmed as the statement of C17 says), so a reader that loses or renumbers labels shows"""
    from types import SimpleNamespace
    viol = []
    refs = {m.moleculeId: m for m in (run.reference_maps or [])}
    qrys = {m.moleculeId: m for m in (run.query_maps or [])}
    raw_refs = {i: SimpleNamespace(moleculeId=i, positions=list(v[1]), length=v[0]) for i, v in (pr or {}).items() if v[1]}
    raw_qrys = {i: SimpleNamespace(moleculeId=i, positions=[c - v[1][0] for c in v[1]], length=v[1][-1] - v[1][0] + 1) for i, v in (pq or {}).items() if v[1]}
    seen = set()

    def judge(row, where, frag=None):
        if id(row) in seen or row.referenceId not in refs or row.queryId not in qrys:
            return
        seen.add(id(row))
        bad, total = c04_row(row, raw_refs.get(row.referenceId, refs[row.referenceId]), raw_qrys.get(row.queryId, qrys[row.queryId]), params, frag)
        for b in bad:
            mechs = conflict_mechanisms(events, row.queryId) if 'counted_twice' in b else []
            known = [m for m in mechs if m[1]]
            mech = known[0][1] if known and not [m for m in mechs if m[1] is None] else None
            viol.append((f"{ALIGN}::monitor::C04::{b}", mech, dict(where=where, query=row.queryId, reference=row.referenceId,
                                                                  confidence=row.confidence, recomputed=total)))
    for row in (run.rows or []):
        if getattr(row, 'alignedRest', False):
            continue          # a second-pass row that won in mode 'best': judged below as a candidate, together with the fragment its label numbers refer to
        judge(row, 'returned_row')
    for qid, cands in run.candidates.items():
        for row, q, r, corr in cands:
            if q.moleculeId in qrys and q is qrys[q.moleculeId]:
                judge(row, 'candidate')
            else:
                # second-pass fragment: label numbers refer to the whole query
                judge(row, 'second_pass_candidate', q)
    # the Confidence column is the row's confidence to two decimals
    for sfx, text in run.files.items():
        if sfx != '':
            continue
        _, recs = parse_xmap_text(text)
        for rec, row in zip(recs, run.rows or []):
            if rec['Confidence'] != "{:.2f}".format(row.confidence):
                viol.append((f"{WRITER}::monitor::C04::confidence_column_is_row_confidence", None, dict(record=rec['XmapEntryID'])))
    return viol


# ------------------------------------------------------------------------------------------------ C05
def independent_first_pass_candidates(run, query):
    """the candidates of one whole query as the statement describes them - one per seed peak, the (at most peaksCount) highest-scoring seed peaks of the
    query over ALL references and BOTH strands - built here from the low-level functions only (getInitialAlignment / refine / Aligner.align), i.e.
    without the coordinator's own glue (__align, __getPrimaryCorrelations, __getSecondaryCorrelation, __getAlignmentRow, selectPeaks).
    None when the selection is ambiguous (equal scores at the cut) or the low-level functions are not there under these names."""
    wc, args = run.coordinator, run.args
    try:
        seeds = []
        for reference in run.reference_maps:
            for reverse in (False, True):
                ia = query.getInitialAlignment(reference, wc.primaryGenerator, args.minPeakDistance, args.peaksCount, reverseStrand=reverse)
                seeds += [(ia, peak) for peak in ia.peaks]
    except (AttributeError, TypeError):
        return None
    seeds.sort(key=lambda s: s[1].score, reverse=True)
    n = max(args.peaksCount, 0)
    if len(seeds) > n and n > 0 and seeds[n - 1][1].score == seeds[n][1].score:
        return None
    rows = []
    for ia, peak in seeds[:n]:
        sc = ia.refine(peak.position, wc.secondaryGenerator, args.secondaryMargin, args.peakHeightThreshold)
        rows.append(wc.aligner.align(sc.reference, sc.query, sc.peaks, sc.reverseStrand))
    return rows


def c05(run, mode, peaks_count):
    viol = []
    qrys = {m.moleculeId: m for m in (run.query_maps or [])}
    per_file = {}
    for sfx, text in run.files.items():
        _, recs = parse_xmap_text(text)
        ids = [int(r['QryContigID']) for r in recs]
        per_file[sfx] = recs
        claims_one = (sfx == '') or (mode in ('separate',) and sfx == '_1') or (mode == 'all' and sfx in ('_1', '_2'))
        if claims_one and len(set(ids)) != len(ids):
            viol.append((f"src/multi_pass_workflow_coordinator.py::_MultiPassWorkflowCoordinator.execute::monitor::C05::at_most_one_record_per_query",
                         None, dict(file=sfx, mode=mode, duplicated=sorted({i for i in ids if ids.count(i) > 1})[:10])))
        if sfx == '' and mode == 'best' and ids != sorted(ids):
            viol.append((f"src/multi_pass_workflow_coordinator.py::_MultiPassWorkflowCoordinator.execute::monitor::C05::best_mode_ascending_query_id",
                         None, dict(ids=ids[:30])))
    # first-pass record = the best candidate of the query's (at most peaksCount) seeds
    first_pass_file = {'separate': '', 'all': '_1', 'single': ''}.get(mode)
    first, second = {}, {}
    for qid, cands in run.candidates.items():
        for row, q, r, corr in cands:
            is_first = qid in qrys and q is qrys[qid]
            (first if is_first else second).setdefault(qid, []).append(row)
    for qid, rows in first.items():
        if len(rows) > peaks_count:
            viol.append((f"src/correlation/peaks_selector.py::PeaksSelector.selectPeaks::monitor::C05::at_most_peaksCount_seeds", None,
                         dict(query=qid, candidates=len(rows), peaksCount=peaks_count)))
    if first_pass_file is not None and first_pass_file in per_file:
        recs = {int(r['QryContigID']): r for r in per_file[first_pass_file]}
        for qid, rows in first.items():
            withpairs = [r for r in rows if r.alignedPairs]
            best = max((r.confidence for r in rows), default=None)
            best_row = next((r for r in rows if r.confidence == best), None)
            if best_row is not None and best_row.alignedPairs:
                if qid not in recs:
                    viol.append((f"src/workflow_coordinator.py::_WorkflowCoordinator.__getBestAlignment::monitor::C05::first_pass_record_is_best_candidate",
                                 None, dict(query=qid, expected_confidence=best, got='no record')))
                elif recs[qid]['Confidence'] != "{:.2f}".format(best):
                    viol.append((f"src/workflow_coordinator.py::_WorkflowCoordinator.__getBestAlignment::monitor::C05::first_pass_record_is_best_candidate",
                                 None, dict(query=qid, expected_confidence=best, got=recs[qid]['Confidence'])))
    # ... and the candidates are ALL selected seeds: re-derived independently for a few queries of the set
    if first_pass_file is not None and first_pass_file in per_file and run.coordinator is not None:
        recs = {int(r['QryContigID']): r for r in per_file[first_pass_file]}
        for qid in (sorted(qrys) if len(qrys) <= 40 else sorted(qrys)[:2] + sorted(qrys)[-3:]):
            try:
                rows = independent_first_pass_candidates(run, qrys[qid])
            except Exception:
                rows = None
            if not rows:
                continue
            best_row = max(rows, key=lambda r: r.confidence)
            if best_row.alignedPairs and (qid not in recs or recs[qid]['Confidence'] != "{:.2f}".format(best_row.confidence)):
                viol.append((f"src/workflow_coordinator.py::_WorkflowCoordinator.__align::monitor::C05::first_pass_record_is_the_best_over_all_selected_seeds",
                             None, dict(query=qid, seeds=len(rows), best_confidence=best_row.confidence,
                                        got=recs[qid]['Confidence'] if qid in recs else 'no record')))
    if mode == 'best' and '' in per_file:
        have = {int(r['QryContigID']) for r in per_file['']}
        aligned = {qid for qid, rows in list(first.items()) + list(second.items()) if any(r.alignedPairs for r in rows)}
        # a query has "any alignment" if its best first-pass candidate has pairs, or a second-pass one does
        must = set()
        for qid, rows in first.items():
            best = max((r.confidence for r in rows), default=None)
            br = next((r for r in rows if r.confidence == best), None)
            if br is not None and br.alignedPairs:
                must.add(qid)
        missing = sorted(must - have)
        if missing:
            viol.append((f"src/multi_pass_workflow_coordinator.py::_MultiPassWorkflowCoordinator.execute::monitor::C05::best_mode_every_aligned_query_has_a_record",
                         None, dict(missing=missing[:10])))
    return viol


# ------------------------------------------------------------------------------------------------ C07 (file shape)
def c07_files(run):
    viol = []
    for sfx, text in run.files.items():
        header, recs = parse_xmap_text(text)
        if len(header) != 7 or not header[5].startswith('#h') or not header[6].startswith('#f'):
            viol.append((f"{WRITER}::monitor::C07::seven_header_lines", None, dict(file=sfx, header=header[:8])))
        for rec in recs:
            if rec['_ncols'] != 15:
                viol.append((f"{WRITER}::monitor::C07::fifteen_columns", None, dict(file=sfx, ncols=rec['_ncols'])))
                break
    return viol
