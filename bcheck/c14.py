"""C14 bounded part: the real SegmentChainer.chain against exhaustive subset enumeration (<= 6 segments), both strands,
both join-score variants, several multipliers; plus the getScore clauses on the real function."""
import itertools
import math
import random
from bcheck.common import pmap, result, time_limit, CaseTimeout

CH = 'src/alignment/segment_chainer.py::SegmentChainer.chain'
GS = 'src/alignment/segment_chainer.py::SequentialityScorer.getScore'


def make_segment(spec, rev, idx):
    from src.alignment.alignment_position import AlignedPair, ScoredAlignedPair
    from src.alignment.segments import AlignmentSegment, EmptyAlignmentSegment
    from src.correlation.optical_map import PositionWithSiteId
    from src.correlation.peak import Peak
    if spec is None:
        return EmptyAlignmentSegment()
    r0, r1, q0, q1, score = spec
    # label numbers follow the coordinates; on the reverse strand query numbers run downwards
    qid = (lambda q: 1000 - q // 10) if rev else (lambda q: q // 10 + 1)
    a = ScoredAlignedPair(AlignedPair(PositionWithSiteId(r0 // 10 + 1, r0), PositionWithSiteId(qid(q0), q0), 0), score / 2)
    b = ScoredAlignedPair(AlignedPair(PositionWithSiteId(r1 // 10 + 1, r1), PositionWithSiteId(qid(q1), q1), 0), score / 2)
    # segments of one seed peak lie on one diagonal: segments on (nearly) the same diagonal share their peak, as the builder's segments do
    diagonal = (r0 + q0) if rev else (r0 - q0)
    return AlignmentSegment([a, b], float(score), Peak(1000 * round(diagonal / 1000), 1.), [])


def key(s):
    return s.startPosition.reference.position + s.endPosition.reference.position + \
        s.startPosition.query.position + s.endPosition.query.position


def overlap_more_than_half(p, c):
    rlen = min(c.endPosition.reference.position - c.startPosition.reference.position,
               p.endPosition.reference.position - p.startPosition.reference.position)
    qlen = min(abs(c.endPosition.query.position - c.startPosition.query.position),
               abs(p.endPosition.query.position - p.startPosition.query.position))
    rov = p.endPosition.reference.position - c.startPosition.reference.position
    qov = p.endPosition.query.position - c.startPosition.query.position
    return rov > rlen / 2 or qov > qlen / 2


def run_case(case, chainers=None):
    """chainers: {(multiplier, variant): SegmentChainer} shared by the cases of a chunk - the program uses ONE chainer for every candidate of
    every query, so chain() must be a function of the segments it is given whatever it chained before"""
    specs, rev, mult, variant = case
    from src.alignment.segment_chainer import SegmentChainer, SequentialityScorer
    scorer = SequentialityScorer(mult, variant)
    segs = [make_segment(s, rev, i) for i, s in enumerate(specs)]
    try:
        with time_limit(10):
            chainer = SegmentChainer(scorer) if chainers is None else chainers.setdefault((mult, variant), SegmentChainer(scorer))
            out = chainer.chain(list(segs))
    except CaseTimeout:
        return case, ['exception:timeout'], 0
    except Exception as e:
        return case, [f'exception:{type(e).__name__}:{e}'[:100]], 0
    bad = []
    nonempty = [s for s in segs if not s.empty]
    empties = [s for s in segs if s.empty]
    chain = [s for s in out if not s.empty]
    if [id(s) for s in out if s.empty] != [id(s) for s in empties]:
        bad.append('empty_segments_passed_through')
    if any(all(s is not t for t in nonempty) for s in chain) or len({id(s) for s in chain}) != len(chain):
        bad.append('subset_each_segment_at_most_once')
        return case, bad, len(chain)
    pre = sorted(nonempty, key=key)
    idx = [next(i for i, t in enumerate(pre) if t is s) for s in chain]
    if idx != sorted(idx):
        bad.append('ordered_along_the_diagonal')
    if not nonempty:
        return case, bad, 0
    if not chain:
        bad.append('nonempty_chain_when_segments_exist')
        return case, bad, 0

    def total(members):
        t = members[0].segmentScore
        for p, c in zip(members, members[1:]):
            j = scorer.getScore(p, c)
            if j == -math.inf:
                return -math.inf
            t += j + c.segmentScore
        return t

    got = total(chain)
    if got == -math.inf:
        bad.append('total_never_minus_infinity')
    for p, c in zip(chain, chain[1:]):
        if overlap_more_than_half(p, c):
            bad.append('over_half_overlap_never_consecutive')
    best = -math.inf
    n = len(pre)
    for mask in range(1, 1 << n):
        best = max(best, total([pre[i] for i in range(n) if mask >> i & 1]))
    if got != -math.inf and abs(got - best) > 1e-6 * max(1.0, abs(best)):
        bad.append('total_is_maximal_among_order_respecting_subsets')
    # join score clauses
    for p, c in itertools.permutations(nonempty[:4], 2):
        j = scorer.getScore(p, c)
        if j != -math.inf and mult >= 0 and j > 0:
            bad.append('join_score_never_positive')
        if (j == -math.inf) != overlap_more_than_half(p, c):
            bad.append('minus_infinity_exactly_when_overlap_exceeds_half_of_the_shorter')
        rd = c.startPosition.reference.position - p.endPosition.reference.position
        qd = c.startPosition.query.position - p.endPosition.query.position
        if rd == 0 and qd == 0 and j != 0:
            bad.append('contiguous_join_scores_zero')
        if mult == 0 and j not in (0, -math.inf):
            bad.append('join_score_scales_with_the_multiplier')
    return case, sorted(set(bad)), len(chain)


def run_chunk(cases):
    out, nt = [], 0
    chainers, last = {}, {}
    for c in cases:
        case, bad, n = run_case(c, chainers)
        nt += 1 if n >= 2 else 0
        if bad:
            out.append((case, bad, last.get((c[2], c[3]))))
        last[(c[2], c[3])] = c
    return len(cases), nt, out[:10]


POOL = [(0, 100, 0, 100, 1000), (100, 200, 100, 200, 1500), (100, 300, 110, 300, 900), (60, 160, 60, 160, 800),
        (200, 400, 230, 400, 2000), (90, 200, 150, 260, 700), (300, 380, 300, 380, 600), (0, 400, 0, 380, 1100),
        (150, 250, 40, 140, 1200), (400, 500, 380, 480, 500)]


def cases(tier, seed):
    rnd = random.Random(seed)
    out = []
    for n in (1, 2, 3):
        for combo in itertools.permutations(POOL[:7], n) if n < 3 else itertools.combinations(POOL, n):
            for rev in (False, True):
                out.append((tuple(combo), rev, 1.0, 0))
    for combo in itertools.combinations(POOL, 4):
        out.append((tuple(combo), False, 1.0, 1))
        out.append((tuple(combo) + (None,), True, 0.5, 0))
    # boundary lattice of the join score: unit coordinates, odd and even lengths (0..7), overlaps around half of the shorter
    # segment on each axis independently, multipliers incl. 0
    k = 0
    for lp in range(0, 8):
        for lc in range(0, 8):
            for ovr in range(-1, 5):
                for ovq in range(-1, 5):
                    k += 1
                    prev = (10, 10 + lp, 10, 10 + lp, 1000)
                    cur = (10 + lp - ovr, 10 + lp - ovr + lc, 10 + lp - ovq, 10 + lp - ovq + lc, 1000)
                    out.append(((prev, cur), k % 2 == 0, (0, 0.5, 1.0, 2.0)[k % 4], (k // 4) % 2))
    nrand = 1500 if tier == 'quick' else 20000
    for _ in range(nrand):
        n = rnd.randint(2, 6)
        specs = []
        for _ in range(n):
            r0 = rnd.randrange(0, 900, 10)
            ln = rnd.choice((40, 100, 100, 200, 400))
            q0 = max(0, r0 + rnd.choice((-200, -50, -10, 0, 0, 10, 50, 200)))
            qln = max(10, ln + rnd.choice((-30, 0, 0, 30)))
            specs.append((r0, r0 + ln, q0, q0 + qln, rnd.choice((300, 800, 1000, 2500))))
        if rnd.random() < 0.2:
            specs.insert(rnd.randrange(len(specs) + 1), None)
        out.append((tuple(specs), rnd.random() < 0.5, rnd.choice((0.5, 1.0, 2.0)), rnd.choice((0, 1))))
    return out


def bounded(repo, tier, seed):
    allc = cases(tier, seed)
    chunks = [allc[i:i + 300] for i in range(0, len(allc), 300)]
    res = pmap(run_chunk, chunks, repo)
    viol = {}
    for r in res:
        for case, bad, prev in r[2]:
            fid = GS if bad[0] in ('join_score_never_positive', 'minus_infinity_exactly_when_overlap_exceeds_half_of_the_shorter',
                                   'contiguous_join_scores_zero', 'join_score_scales_with_the_multiplier') else CH
            k = f"{fid}::ensures::{bad[0]}"
            v = dict(key=k, blame=fid, input=dict(segments=[list(s) if s else None for s in case[0]], reverse=case[1],
                                                  multiplier=case[2], variant=case[3],
                                                  previous_call_on_the_same_chainer=([list(x) if x else None for x in prev[0]], prev[1]) if prev else None),
                     observed=bad, required='C14 statement')
            if k not in viol or len(case[0]) < len(viol[k]['input']['segments']):
                viol[k] = v
    return result(sum(r[0] for r in res), sum(r[1] for r in res),
                  "segment sets of 1-6 segments (a pool of 10 geometries with overlaps, gaps, off-diagonal and contained segments; random sets; with and "
                  "without empty segments), both strands, both join-score variants, multipliers 0/0.5/1/2; a unit-coordinate lattice of segment pairs (lengths 0-7, overlaps -1..4 on each axis) around the half-overlap boundary; the chain total is compared with the maximum over "
                  "ALL order-respecting subsets (exhaustive 2^n enumeration); the cases of a chunk share one chainer per (multiplier, variant), as all candidates do in the program; non-trivial = chain of >= 2 segments",
                  [dict(segments=[list(s) if s else None for s in c[0]], reverse=c[1], multiplier=c[2], variant=c[3]) for c in allc[300:303]],
                  list(viol.values())[:5], exhaustive=False, bounds="<= 6 segments per set")


def replay(repo, rp):
    from bcheck.common import use_repo
    use_repo(repo)
    i = rp['input']
    chainers = {}
    prev = i.get('previous_call_on_the_same_chainer')
    if prev:
        run_case((tuple(tuple(s) if s else None for s in prev[0]), prev[1], i['multiplier'], i['variant']), chainers)
    case, bad, _ = run_case((tuple(tuple(s) if s else None for s in i['segments']), i['reverse'], i['multiplier'], i['variant']), chainers)
    return (not bad), bad
