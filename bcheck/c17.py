"""C17 bounded part: the real CmapReader on generated CMAP text (pandas is outside the verifier) against an independent parser;
OpticalMap.trim cross-checked on the same maps (its contract is proved, see specs/optical_map.py)."""
import io
import itertools
import random
from bcheck.common import pmap, result

RD = 'src/parsers/cmap_reader.py::CmapReader.__read'
TR = 'src/correlation/optical_map.py::OpticalMap.trim'


def make_text(maps, rnd, extra_cols, shuffle, two_colour=False):
    names = ['CMapId', 'ContigLength', 'NumSites', 'SiteID', 'LabelChannel', 'Position', 'StdDev', 'Coverage', 'Occurrence'] + \
            [f'Extra{i}' for i in range(extra_cols)]
    order = list(names)
    if extra_cols and rnd.random() < 0.5:          # extra columns may also sit between the used ones
        order.insert(rnd.randint(1, 5), order.pop())
    rows = []
    for mid, length, pos in maps:
        n = len(pos)
        for i, p in enumerate(pos):
            rows.append(dict(CMapId=mid, ContigLength=f"{length:.1f}", NumSites=n, SiteID=i + 1, LabelChannel=(rnd.choice((1, 2)) if two_colour else 1), Position=f"{p:.1f}",
                             StdDev='0.0', Coverage='1.0', Occurrence='1.0'))
        rows.append(dict(CMapId=mid, ContigLength=f"{length:.1f}", NumSites=n, SiteID=n + 1, LabelChannel=0, Position=f"{length:.1f}",
                         StdDev='0.0', Coverage='1.0', Occurrence='1.0'))
    if shuffle:
        rnd.shuffle(rows)
    text = "# CMAP File Version:\t0.1\n# Label Channels:\t" + ("2" if two_colour else "1") + "\n#h " + "\t".join(order) + "\n#f " + "\t".join('x' for _ in order) + "\n"
    for r in rows:
        text += "\t".join(str(r.get(c, '7.5')) for c in order) + "\n"
    return text


def expected(maps, ids):
    out = {}
    for mid, length, pos in maps:
        if ids and mid not in ids:
            continue
        if pos:
            out[mid] = (int(length), sorted(pos))
    return out


def run_case(case):
    seed, = case
    from src.parsers.cmap_reader import CmapReader
    rnd = random.Random(seed)
    nm = rnd.randint(1, 6)
    idpool = rnd.sample(range(1, 60), nm) if rnd.random() < 0.8 else list(range(1, nm + 1))
    if rnd.random() < 0.15:
        # "any ids": merged-run ids beyond 32 bits, some of them equal modulo 2**32
        base = rnd.choice((2 ** 31, 2 ** 32, 3 * 10 ** 9, 7 * 10 ** 12))
        idpool = [base + i for i in idpool]
        if nm >= 2:
            idpool[1] = idpool[0] + 2 ** 32
    maps = []
    for mid in idpool:
        nl = rnd.choice((0, 0, 1, 2, 3, 5, 8))
        pos = sorted(round(rnd.uniform(0, 90000), 1) for _ in range(nl))
        if pos and rnd.random() < 0.2:
            pos[0] = 0.0                         # a molecule whose first label already sits at coordinate 0
        if nl >= 2 and rnd.random() < 0.15:
            pos[1] = pos[0]                      # duplicate coordinate
        length = round((pos[-1] if pos else 0) + rnd.uniform(0.5, 5000), 1)
        r3 = random.Random(seed * 29 + mid % 1000)
        if pos and r3.random() < 0.15:
            # the end marker right behind the last label, within the same base pair: the length (truncated) is then not above the last label's coordinate
            length = round(pos[-1] + r3.choice((0.0, 0.1, 0.4, 0.7)), 1)
        maps.append((mid, length, pos))
    filt = rnd.choice(('none', 'subset', 'superset', 'disjoint', 'empty'))
    ids = {'none': None, 'empty': [], 'subset': idpool[:max(1, nm // 2)], 'superset': idpool + [777], 'disjoint': [888, 999]}[filt]
    if ids and random.Random(seed * 13 + 5).random() < 0.4:
        # the option takes any list of ids: in any order and with repetitions (-qId 7 3 7)
        r2 = random.Random(seed * 13 + 6)
        ids = ids + [r2.choice(ids) for _ in range(r2.randint(1, 2))]
        r2.shuffle(ids)
    text = make_text(maps, rnd, rnd.randint(0, 3), rnd.random() < 0.7, two_colour=rnd.random() < 0.15)
    bad = []
    got = None
    try:
        reader = CmapReader()
        fn = reader.readQueries if rnd.random() < 0.5 else reader.readReferences
        got = fn(io.StringIO(text), ids)
    except Exception as e:
        return case, [f'exception:{type(e).__name__}:{e}'[:120]], 0, dict(text=text, ids=ids)
    exp = expected(maps, ids)
    gd = {}
    for m in got:
        if m.moleculeId in gd:
            bad.append('one_map_per_molecule_id')
        gd[m.moleculeId] = m
    if set(gd) != set(exp):
        bad.append('exactly_the_labelled_molecules_selected_by_the_filter')
    for mid, (length, pos) in exp.items():
        if mid in gd:
            m = gd[mid]
            if list(m.positions) != pos:
                bad.append('label_coordinates_exact_and_ascending')
            if m.length != length or not isinstance(m.length, int):
                bad.append('length_is_end_marker_truncated_to_integer')
    # trim on the maps read
    for m in got:
        t = m.trim()
        p = m.positions
        if len(t.positions) != len(p) or (p and (t.positions[0] != 0 or any(abs((a - p[0]) - b) > 1e-9 for a, b in zip(p, t.positions))
                                              or t.length != p[-1] - p[0] + 1 or t.moleculeId != m.moleculeId)):
            bad.append('trim_keeps_geometry')
        tt = t.trim()
        if tt.positions != t.positions or tt.length != t.length or tt.moleculeId != t.moleculeId:
            bad.append('trim_is_idempotent')
    return case, sorted(set(bad)), len(exp), dict(text=text, ids=ids)


def run_chunk(seeds):
    out, nt = [], 0
    for s in seeds:
        case, bad, n, info = run_case((s,))
        nt += 1 if n >= 2 else 0
        if bad:
            out.append((case, bad, info))
    return len(seeds), nt, out[:5]


def bounded(repo, tier, seed):
    n = 6000 if tier == 'quick' else 120000
    seeds = [seed * 7919 + i for i in range(n)]
    chunks = [seeds[i:i + 300] for i in range(0, n, 300)]
    res = pmap(run_chunk, chunks, repo)
    viol = {}
    for r in res:
        for case, bad, info in r[2]:
            fid = TR if bad[0].startswith('trim') else RD
            key = f"{fid}::monitor::C17::{bad[0]}"
            viol.setdefault(key, dict(key=key, blame=fid, input=dict(seed=case[0]), observed=dict(violated=bad, ids=info['ids'], text=info['text'][:1500]),
                                      required='C17 statement'))
    return result(sum(r[0] for r in res), sum(r[1] for r in res),
                  "generated CMAP text: 1-6 molecules with arbitrary ids (15% beyond 32 bits, two of them equal modulo 2**32), 15% two-colour files (labels on channel 1 or 2), 0-8 labels each (molecules with only an end-marker row included; 15% with the end marker within one base pair behind the last label), coordinates with one "
                  "decimal incl. duplicates, shuffled rows, 0-3 extra columns in varying positions, id filters none/empty/subset/superset/disjoint (40% of the non-empty ones in shuffled order with repeated ids), through "
                  "readQueries/readReferences, compared with an independent parser; trim() applied to every map read; non-trivial = at least two labelled molecules expected",
                  [dict(seed=seeds[0]), dict(seed=seeds[1])], list(viol.values())[:5], exhaustive=False, bounds=f"{n} generated files")


def replay(repo, rp):
    from bcheck.common import use_repo
    use_repo(repo)
    case, bad, _, info = run_case((rp['input']['seed'],))
    return (not bad), bad
