"""C07 bounded part: well-formed (incl. degenerate) CMAP sets through the real Program.run in all output modes; every file written must be
well-formed and readable by the project's own XMAP reader."""
from bcheck import pipe_driver as pd

MODES = ['best', 'separate', 'joined', 'all']


def _special(i):
    """sets on which the SECOND pass has nothing to do (every query placed completely, or no query placed at all), run with the default
    worker count (no -c option) and an output name without extension: an execute() call with zero work items"""
    if i % 7 == 5:
        return dict(kinds=('exact',), weights=None, style=2, modes=['best', 'separate'])
    if i % 7 == 6:
        return dict(kinds=('degenerate',), weights=None, style=2, modes=['all', 'best'])
    return None


def bounded(repo, tier, seed):
    n = 70 if tier == 'quick' else 1400
    params = [{}, {'p': 1}, {'d': 500, 'ms': 500}, {'su': -50, 'bs': 300}, {'p': 5, 'diff': 1000}, {'ss': 1}, {'ss': 1, 'sj': 2.0, 'p': 5}]
    return pd.run(repo, tier, seed, ['C07'], lambda i: [MODES[i % 4], MODES[(i + 1) % 4]] if tier == 'quick' else MODES, n, params_list=params,
                  weights=[1, 2, 1, 2, 2, 6], odd_refs=True, overrides=_special,
                  rule="generated CMAP sets with the degenerate classes over-weighted (one- and two-label molecules, duplicate coordinates, queries longer than every "
                       "reference, unrelated random molecules, references of any size), all four multi-pass output modes, five parameter settings; contract: no "
                       "exception out of Program.run, every file has 7 header lines and 15-column records and is read back by XmapReader.readAlignments "
                       "(one alignment per record, zero-record files included); evaluations = records + runs")


replay = pd.replay
