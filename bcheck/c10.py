"""C10 bounded part (decides the property; file order goes through pandas): per-query records of the real program on a generated set compared
with runs on subsets / permutations / row-shuffled files / -qId -rId selections."""
import os
import random
from bcheck.common import pmap, result, time_limit, CaseTimeout
from bcheck import pipeline as pl
from bcheck.c08 import body

RUN = 'src/program.py::Program.run'


def records(run):
    out = {}
    for sfx, text in run.files.items():
        for r in pl.parse_xmap_text(text)[1]:
            out.setdefault((sfx, int(r['QryContigID'])), []).append(body(r))
    return out


def run_variant(refs, queries, mode, extra=(), shuffle=None):
    """one run of the program = one process, as on the command line: the run happens in a forked child, so that nothing a run leaves behind in
    module- or class-level state (the checking process itself never runs the program) reaches the next run"""
    import os
    import pickle
    from types import SimpleNamespace
    d = pl.make_workdir(refs, queries, shuffle)
    try:
        rfd, wfd = os.pipe()
        pid = os.fork()
        if pid == 0:
            code = 0
            try:
                os.close(rfd)
                run = pl.run_program(d, mode, list(extra), capture=False)
                with os.fdopen(wfd, 'wb') as w:
                    pickle.dump((run.files, run.error), w)
            except BaseException:
                code = 1
            finally:
                os._exit(code)
        os.close(wfd)
        with os.fdopen(rfd, 'rb') as r:
            data = r.read()
        os.waitpid(pid, 0)
        files, error = pickle.loads(data) if data else ({}, 'the run ended without handing back a result')
    finally:
        pl.cleanup(d)
    return SimpleNamespace(files=files, error=error)


def run_case(case):
    seed, mode = case
    rnd = random.Random(seed ^ 0x5bd1)
    refs, queries, truths = pl.gen_set(seed, weights=[2, 2, 1, 2, 2, 1], n_refs=rnd.choice((2, 3)))
    # one SHORT molecule (six labels spanning less than 45 kb - far below every other molecule of the set): whatever is decided per data set
    # (units, scales, thresholds derived from "the" molecules) shows when it is alone in the file
    rp = refs[0][2]
    spans = [(rp[i + 5] - rp[i], i) for i in range(len(rp) - 5)]
    short_id = None
    if spans and min(spans)[0] < 45000:
        i = min(spans)[1]
        short_id = 950
        queries = queries + [(short_id, rp[i + 5] - rp[i] + 40, [p - rp[i] + 20 for p in rp[i:i + 6]])]
        truths = dict(truths)
        truths[short_id] = dict(kind='short', reference=refs[0][0], reverse=False)
    # a TWIN placed in front of an alignable molecule: the same number of labels and the same first-to-last span, unrelated labels in between.
    # Whatever is remembered per molecule under a key coarser than the molecule itself makes the molecule behind the twin inherit the twin's data
    twin_id = None
    sib = next((q for q in queries if len(q[2]) >= 12 and q[0] != short_id and truths[q[0]]['kind'] in ('exact', 'noisy', 'stretched')), None)
    if sib is not None:
        rt = random.Random(seed * 37 + 11)
        lo, hi = sib[2][0], sib[2][-1]
        inner = set()
        while len(inner) < len(sib[2]) - 2:
            inner.add(rt.randint(lo + 200, hi - 200))
        twin_id = 951
        at = queries.index(sib)
        queries = queries[:at] + [(twin_id, sib[1], [lo] + sorted(inner) + [hi])] + queries[at:]
        truths = dict(truths)
        truths[twin_id] = dict(kind='twin', reference=None, reverse=None)
    bad = []
    try:
        with time_limit(600):
            base = run_variant(refs, queries, mode)
            if base.error:
                return case, [('no_exception', base.error[-300:])], 0
            B = records(base)

            def same(run, ids, what):
                if run.error:
                    bad.append((what, dict(error=run.error[-200:])))
                    return
                R = records(run)
                for key in set(B) | set(R):
                    if key[1] in ids and B.get(key) != R.get(key):
                        bad.append((what, dict(file=key[0], query=key[1], baseline=str(B.get(key))[:300], variant=str(R.get(key))[:300])))
                        return
            allq = [q[0] for q in queries]
            sub = sorted(rnd.sample(allq, max(1, len(allq) // 2)))
            same(run_variant(refs, [q for q in queries if q[0] in sub], mode), set(sub), 'record_unchanged_when_other_queries_are_removed')
            # a query ALONE in the file: chimeric ones first (their second pass lands on a reference that, in the full run, other molecules hit too)
            lone = ([q[0] for q in queries if truths[q[0]]['kind'] == 'chimeric'][:2] or [allq[0]]) + ([short_id] if short_id else []) + ([sib[0]] if twin_id else [])
            for qid in lone:
                same(run_variant(refs, [q for q in queries if q[0] == qid], mode), {qid}, 'record_unchanged_when_the_query_is_alone_in_the_file')
            shuffled = list(queries)
            rnd.shuffle(shuffled)
            same(run_variant(refs, shuffled, mode), set(allq), 'record_unchanged_when_queries_are_reordered')
            same(run_variant(refs, queries, mode, shuffle=random.Random(seed + 1)), set(allq), 'record_unchanged_when_cmap_rows_are_reordered')
            rrefs = list(refs)
            rnd.shuffle(rrefs)
            same(run_variant(rrefs, queries, mode), set(allq), 'record_unchanged_when_references_are_listed_in_another_order')
            rsel = sorted(rnd.sample([r[0] for r in refs], max(1, len(refs) - 1)))
            viaflag = run_variant(refs, queries, mode, ['-qId'] + sub + ['-rId'] + rsel)
            physical = run_variant([r for r in refs if r[0] in rsel], [q for q in queries if q[0] in sub], mode)
            if viaflag.error or physical.error:
                bad.append(('id_selection_equals_physically_restricted_files', dict(error=(viaflag.error or physical.error)[-200:])))
            elif records(viaflag) != records(physical):
                bad.append(('id_selection_equals_physically_restricted_files', dict(queries=sub, references=rsel)))
    except CaseTimeout:
        bad.append(('terminates', None))
    return case, bad, len(queries) * 5


def run_big_case(case):
    """scale: a query file of more than 100000 rows in shuffled row order; -qId selects three molecules; the records must equal those of a run
    on a file that physically holds only these three (reading must not depend on where in a big file a molecule's rows sit)"""
    seed, mode = case
    rnd = random.Random(seed)
    refs, queries, truths = pl.gen_set(seed, weights=[3, 2, 1, 2, 1, 0], n_refs=2)
    filler = []
    for i in range(1500):
        pos, x = [], rnd.randint(100, 3000)
        for _ in range(rnd.randint(60, 80)):
            pos.append(x)
            x += rnd.randint(2000, 20000)
        filler.append((5000 + i, pos[-1] + 100, pos))
    sel = sorted(q[0] for q in queries[:3])
    bad = []
    try:
        with time_limit(900):
            big = run_variant(refs, queries + filler, mode, ['-qId'] + sel, shuffle=random.Random(seed + 2))
            small = run_variant(refs, [q for q in queries if q[0] in sel], mode)
        if big.error or small.error:
            bad.append(('id_selection_equals_physically_restricted_files', dict(error=(big.error or small.error)[-300:])))
        elif records(big) != records(small):
            B, S = records(big), records(small)
            diff = [k for k in set(B) | set(S) if B.get(k) != S.get(k)]
            bad.append(('id_selection_equals_physically_restricted_files', dict(queries=sel, rows_in_query_file=sum(len(q[2]) + 1 for q in queries + filler),
                                                                             differing=[list(k) for k in diff[:4]])))
    except CaseTimeout:
        bad.append(('terminates', None))
    return (seed, 'big:' + mode), bad, 3


def bounded(repo, tier, seed):
    n = 14 if tier == 'quick' else 200
    modes = ['best', 'all']
    cases = [(seed * 6151 + i, modes[i % 2]) for i in range(n)]
    res = pmap(run_case, cases, repo)
    bigc = [(seed * 6151 + 901 + i, 'best') for i in range(2 if tier == 'quick' else 8)]
    res = list(res) + list(pmap(run_big_case, bigc, repo))
    viol = {}
    tot = 0
    for case, bad, k in res:
        tot += k
        for clause, detail in bad:
            key = f"{RUN}::monitor::C10::{clause}"
            viol.setdefault(key, dict(key=key, blame=RUN, input=dict(seed=case[0], mode=case[1]), observed=detail, required='C10 statement'))
    return result(tot, tot, "generated CMAP sets (2-3 references, 6-10 queries); the per-query records (all files of the mode) of a run on the full files are compared "
                            "with runs on (a) a random half of the queries and one or two (chimeric) queries and one short molecule (six labels, < 45 kb) and a molecule that follows its twin in the file (same label count and span, unrelated labels) alone, (b) shuffled query order, (c) shuffled rows inside both CMAP files, (d) permuted reference "
                            "order, (e) -qId/-rId selection versus physically restricted files, (f) a query file of more than 100000 shuffled rows with -qId of three molecules; evaluations = query x variant comparisons",
                  [dict(seed=cases[0][0], mode=cases[0][1])], list(viol.values())[:5], exhaustive=False, bounds=f"{n} sets x 5 variants")


def replay(repo, rp):
    from bcheck.common import use_repo
    use_repo(repo)
    mode = rp['input']['mode']
    if mode.startswith('big:'):
        case, bad, _ = run_big_case((rp['input']['seed'], mode.split(':')[1]))
    else:
        case, bad, _ = run_case((rp['input']['seed'], mode))
    return (not bad), bad[:3]
