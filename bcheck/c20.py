"""C20 bounded part: the real cluster_indels / write_indel_file (list aliasing and string concatenation, outside the verifier) on all short
sorted call lists around the blur distance, and the two indel finders on small synthetic alignments."""
import itertools
import operator
import os
import random
import tempfile
from bcheck.common import pmap, result

CL = 'sv/write_indel_files.py::cluster_indels'
WR = 'sv/write_indel_files.py::write_indel_file'
MI = 'sv/molecule_indels.py::look_for_indels_in_breakage'
SI = 'sv/segment_indels.py::look_for_indels_in_breakage'


def judge_clusters(calls, out, blur):
    bad = []
    counts = [line[8] if len(line) > 8 else None for line in out]
    if any(c is None for c in counts) or sum(counts) != len(calls):
        bad.append('counts_sum_to_number_of_input_calls')
    ids_out = [str(x) for line in out for x in str(line[4]).split(',')]
    if sorted(ids_out) != sorted(str(c[4]) for c in calls):
        bad.append('every_query_id_in_exactly_one_cluster')
    byid = {str(c[4]): c for c in calls}
    for line in out:
        members = [byid[i] for i in str(line[4]).split(',') if i in byid]
        if any(m[0] != line[0] or m[1] != line[1] for m in members):
            bad.append('clusters_do_not_mix_types_or_chromosomes')
        if any(m[2] < line[2] or m[3] > line[3] for m in members):
            bad.append('cluster_interval_covers_member_intervals')
    return sorted(set(bad))


def run_cluster_case(case):
    from write_indel_files import cluster_indels
    calls, blur = case
    inp = [list(c) for c in calls]
    try:
        out = cluster_indels([list(c) for c in inp], blur)
    except Exception as e:
        return [f'exception:{type(e).__name__}']
    return judge_clusters(inp, out, blur)


def run_file_case(case):
    from write_indel_files import write_indel_file
    ins, dels = case
    d = tempfile.mkdtemp(prefix='coma_ind_')
    try:
        p = os.path.join(d, 'indels.txt')
        write_indel_file({"insertion": [list(c) for c in ins], "deletion": [list(c) for c in dels]}, 'x.xmap', file_name=p)
        lines = [l.rstrip('\n').split('\t') for l in open(p) if not l.startswith('#')]
    except Exception as e:
        return [f'exception:{type(e).__name__}']
    finally:
        import shutil
        shutil.rmtree(d, ignore_errors=True)
    bad = []
    if sum(int(l[8]) for l in lines) != len(ins) + len(dels):
        bad.append('file_counts_sum_to_number_of_calls')
    ids = sorted(x for l in lines for x in l[4].split(','))
    if ids != sorted(str(c[4]) for c in list(ins) + list(dels)):
        bad.append('file_lists_every_query_id_once')
    return bad


def finder_case(case):
    """Length = |ref gap| - |query gap| between the two flanking aligned labels; type insertion iff negative"""
    which, rpos, qpos, pairs, brk = case[:5]
    flank = case[5] if len(case) > 5 else None      # the flanking pair recorded at the breakpoint, when it is not a pair of the joined alignment itself
    from src.diagnostic.benchmark_alignment import BenchmarkAlignedPair

    class M:
        def __init__(self, positions): self.positions = positions

    class Al:
        def __init__(self): self.queryId, self.referenceId = 5, 1; self.alignedPairs = [BenchmarkAlignedPair.create(str(r), str(q)) for r, q in pairs]
    al = Al()
    try:
        if which == 'molecule':
            import molecule_indels as m
            fp = al.alignedPairs[brk] if flank is None else BenchmarkAlignedPair.create(str(flank[0]), str(flank[1]))
            out = m.look_for_indels_in_breakage({1: [al]}, {1: M(rpos)}, {5: M(qpos)}, {5: [brk, fp]})
            lo = 2000
        else:
            import segment_indels as m
            out = m.look_for_indels_in_breakage({1: [al]}, {1: M(rpos)}, {5: M(qpos)}, {5: [[brk, str(al.alignedPairs[brk])]]})
            lo = 100
    except Exception as e:
        return [f'exception:{type(e).__name__}:{e}'[:80]]
    bad = []
    (r1, q1), (r2, q2) = (pairs[brk] if flank is None or which != 'molecule' else tuple(flank)), pairs[brk + 1]
    diff = abs(rpos[r1 - 1] - rpos[r2 - 1]) - abs(qpos[q1 - 1] - qpos[q2 - 1])
    calls = out['insertion'] + out['deletion']
    # which sizes are reported (the band) is the program's choice and not part of the statement: only self-consistency is checked
    if len(calls) > 1:
        bad.append('at_most_one_call_per_breakpoint')
    for c in calls:
        if c[7] != diff or c[2] != rpos[r1 - 1] or c[3] != rpos[r2 - 1] or c[5] != qpos[q1 - 1] or c[6] != qpos[q2 - 1]:
            bad.append('length_is_reference_gap_minus_query_gap_of_flanking_labels')
        if (c[0] == 'insertion') != (c[7] < 0) or c[0] not in ('insertion', 'deletion'):
            bad.append('type_is_insertion_exactly_when_length_negative')
        if (c in out['insertion']) != (c[0] == 'insertion'):
            bad.append('call_filed_under_its_type')
    return sorted(set(bad))


def finder_multi_case(case):
    """ONE call of a finder on several alignments spread over several reference maps (the maps share label numbers, not label distances): every call
    must be computed from the maps and the alignment it names - nothing carried over from the alignment handled before"""
    which, specs, pairs, brk = case
    from src.diagnostic.benchmark_alignment import BenchmarkAlignedPair

    class M:
        def __init__(self, positions): self.positions = positions

    class Al:
        def __init__(self, q, r): self.queryId, self.referenceId = q, r; self.alignedPairs = [BenchmarkAlignedPair.create(str(a), str(b)) for a, b in pairs]
    als = {c + 1: [Al(50 + c, c + 1)] for c in range(len(specs))}
    refs = {c + 1: M(list(sp[0])) for c, sp in enumerate(specs)}
    qrys = {50 + c: M(list(sp[1])) for c, sp in enumerate(specs)}
    try:
        if which == 'molecule':
            import molecule_indels as m
            out = m.look_for_indels_in_breakage(als, refs, qrys, {50 + c: [brk, als[c + 1][0].alignedPairs[brk]] for c in range(len(specs))})
        else:
            import segment_indels as m
            out = m.look_for_indels_in_breakage(als, refs, qrys, {50 + c: [[brk, str(als[c + 1][0].alignedPairs[brk])]] for c in range(len(specs))})
    except Exception as e:
        return [f'exception:{type(e).__name__}:{e}'[:80]]
    bad = []
    (r1, q1), (r2, q2) = pairs[brk], pairs[brk + 1]
    for c in out['insertion'] + out['deletion']:
        ci = c[1] - 1
        if not (0 <= ci < len(specs)) or c[4] != 50 + ci:
            bad.append('call_names_the_ids_of_its_alignment')
            continue
        rpos, qpos = specs[ci]
        diff = abs(rpos[r1 - 1] - rpos[r2 - 1]) - abs(qpos[q1 - 1] - qpos[q2 - 1])
        if c[7] != diff or c[2] != rpos[r1 - 1] or c[3] != rpos[r2 - 1] or c[5] != qpos[q1 - 1] or c[6] != qpos[q2 - 1]:
            bad.append('length_is_reference_gap_minus_query_gap_of_flanking_labels')
        if (c[0] == 'insertion') != (c[7] < 0):
            bad.append('type_is_insertion_exactly_when_length_negative')
    return sorted(set(bad))


def run_chunk(cases):
    out, nt = [], 0
    for kind, case in cases:
        bad = {'cluster': run_cluster_case, 'file': run_file_case, 'finder': finder_case, 'finder_multi': finder_multi_case}[kind](case)
        nt += 1 if kind != 'cluster' or len(case[0]) >= 2 else 0
        if bad:
            out.append((kind, case, bad))
    return len(cases), nt, out[:5]


def all_cases(tier, seed):
    blur = 100
    coords = (0, 90, 100, 250)       # differences 90/100 (inside / exactly at blur), 150, 250 (outside)
    calls = []
    for typ in ('deletion', 'insertion'):
        for chrom in (1, 2):
            for s in coords[:3]:
                for e in coords:
                    calls.append((typ, chrom, 1000 + s, 5000 + e, 0, 10, 20, 3000.0))
    cs = []
    base = [c for c in calls]
    nmax = 3 if tier == 'quick' else 4
    rnd = random.Random(seed)
    for n in range(0, nmax + 1):
        combos = itertools.combinations(range(len(base)), n)
        for combo in combos:
            if n == 3 and tier == 'quick' and rnd.random() > 0.15:
                continue
            if n == 4 and rnd.random() > 0.03:
                continue
            idpool = (312, 12, 2, 45, 2045, 7)
            lst = [base[i][:4] + (idpool[k % len(idpool)] if n <= 3 else 100 + k,) + base[i][5:] for k, i in enumerate(combo)]
            lst = sorted(lst, key=operator.itemgetter(1, 3))
            # cluster_indels is called per type by the writer: lists of one type; mixed lists are also valid input of the statement
            cs.append(('cluster', (tuple(lst), blur)))
    for _ in range(300 if tier == 'quick' else 5000):
        n = rnd.randint(1, 30)
        lst = [(rnd.choice(('deletion', 'insertion')), rnd.randint(1, 3), 0, 0, 1000 + k, 5, 9, float(rnd.randint(-9000, 9000))) for k in range(n)]
        lst = [c[:2] + (x, x + rnd.randint(100, 60000)) + c[4:] for c in lst for x in [rnd.randint(0, 200000)]]
        # calls whose two flanking reference labels are far apart (a label-free stretch of the reference) and calls near the finders' upper size limit:
        # the finders bound only |Length| (< 100 kb), the reference interval may have any width
        rx = random.Random(seed * 977 + len(cs))
        lst = [(c[:3] + (c[2] + rx.randint(100000, 400000),) + c[4:7] + (float(rx.choice((-1, 1)) * rx.randint(100, 99000)),)) if rx.random() < 0.15 else c for c in lst]
        lst = sorted(lst, key=operator.itemgetter(1, 3))
        cs.append(('cluster', (tuple(lst), 30000)))
        ins = tuple(c for c in lst if c[0] == 'insertion')
        dels = tuple(c for c in lst if c[0] == 'deletion')
        cs.append(('file', (ins, dels)))
    rpos = [1000, 9000, 20000, 31000, 45000, 60000]
    for which in ('molecule', 'segment'):
        # reference gap between labels 2 and 3 is 11000: query gaps giving Length exactly at +-100, +-2000, +-100000 and around
        for qgap in (50, 150, 2100, 7000, 8900, 9000, 9100, 10899, 10900, 10901, 11000, 11099, 11100, 11101, 12900, 13000, 13100, 20000, 110999, 111000, 111001, 150000):
            qpos = [0, 8000, 8000 + qgap, 8000 + qgap + 9000]
            for pairs in (((1, 1), (2, 2), (3, 3), (4, 4)), ((2, 1), (3, 2), (4, 3), (5, 4))):
                cs.append(('finder', (which, rpos, qpos, pairs, 1)))
    # the flanking pair of molecule_indels comes from the first-/second-pass record, the next pair from the joined one: the two labels can
    # DESCEND on the reference (the join replaced the tail of the partial alignment), and query labels descend on the reverse strand
    for qgap in (150, 2100, 7000, 9000, 13000, 20000):
        qpos = [0, 8000, 8000 + qgap, 8000 + qgap + 9000, 8000 + qgap + 20000]
        for pairs, flank in ((((1, 1), (2, 2), (3, 3), (4, 4)), (5, 2)), (((1, 1), (2, 2), (3, 3), (4, 4)), (6, 2)),
                             (((1, 5), (2, 4), (3, 3), (4, 2)), (2, 4)), (((1, 5), (2, 4), (3, 3), (4, 2)), (5, 4)), (((2, 4), (3, 3), (4, 2), (5, 1)), (6, 3))):
            cs.append(('finder', ('molecule', rpos, qpos, pairs, 1, flank)))
    # one finder call over several reference maps that share label numbers but not label distances
    rm = random.Random(seed * 211 + 3)
    for which in ('molecule', 'segment'):
        for _ in range(40 if tier == 'quick' else 600):
            specs = []
            for c in range(rm.randint(2, 4)):
                rp = [1000]
                for _k in range(5):
                    rp.append(rp[-1] + rm.choice((6000, 9000, 11000, 15000, 30000)))
                qp = [0]
                for _k in range(4):
                    qp.append(qp[-1] + rm.choice((3000, 6000, 9000, 11000, 20000, 40000)))
                specs.append((tuple(rp), tuple(qp)))
            cs.append(('finder_multi', (which, tuple(specs), ((1, 1), (2, 2), (3, 3), (4, 4)), rm.choice((0, 1, 2)))))
    return cs


def bounded(repo, tier, seed):
    cs = all_cases(tier, seed)
    chunks = [cs[i:i + 500] for i in range(0, len(cs), 500)]
    res = pmap(run_chunk, chunks, repo)
    viol = {}
    for r in res:
        for kind, case, bad in r[2]:
            fid = {'cluster': CL, 'file': WR}.get(kind) or (MI if case[0] == 'molecule' else SI)
            key = f"{fid}::monitor::C20::{bad[0]}"
            v = dict(key=key, blame=fid, input=dict(kind=kind, case=case), observed=bad, required='C20 statement')
            if key not in viol or len(str(case)) < len(str(viol[key]['input']['case'])):
                viol[key] = v
    return result(sum(r[0] for r in res), sum(r[1] for r in res),
                  "cluster_indels on all sorted lists of <= 3 calls (quick; 4 thorough, sampled) over 2 types x 2 chromosomes x start/stop coordinates at "
                  "differences 0/90/100/150/250 around blur=100 (exactly at, inside, outside), plus random lists of up to 30 calls with the default blur; "
                  "write_indel_file re-read; the two indel finders on synthetic joined alignments with query gaps around both size bands, and in one call over 2-4 reference maps that share label numbers but not label distances",
                  [dict(kind=cs[30][0], case=cs[30][1])], list(viol.values())[:6], exhaustive=False, bounds="<= 3-4 calls per list (exhaustive part sampled)")


def replay(repo, rp):
    from bcheck.common import use_repo
    use_repo(repo)
    i = rp['input']
    def tup(x): return tuple(tup(y) for y in x) if isinstance(x, list) else x
    bad = {'cluster': run_cluster_case, 'file': run_file_case, 'finder': finder_case, 'finder_multi': finder_multi_case}[i['kind']](tup(i['case']))
    return (not bad), bad
