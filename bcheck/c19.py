"""C19 bounded part: the real AlignmentComparer.compare (dict/set/difflib, outside the verifier) on all pairs of small alignment sets."""
import itertools
import random
from bcheck.common import pmap, result

CMP = 'src/diagnostic/alignment_comparer.py::AlignmentComparer.compare'


class A:
    """minimal BenchmarkAlignment stand-in (the comparer only reads these attributes)"""
    def __init__(self, q, r, pairs, rev=False):
        from src.diagnostic.benchmark_alignment import BenchmarkAlignedPair
        self.queryId, self.referenceId = q, r
        self.alignedPairs = [BenchmarkAlignedPair.create(str(a), str(b)) for a, b in pairs]
        self.reverseStrand = rev
        self.orientation = '-' if rev else '+'


XMAP_HEAD = ("# XMAP File Version:\t0.2\n#h XmapEntryID\tQryContigID\tRefContigID\tQryStartPos\tQryEndPos\tRefStartPos\tRefEndPos\tOrientation\t"
             "Confidence\tHitEnum\tQryLen\tRefLen\tLabelChannel\tAlignment\n#f int\tint\tint\tfloat\tfloat\tfloat\tfloat\tstring\tfloat\tstring\tfloat\tfloat\tint\tstring\n")


def through_files(s):
    """the alignment set as the comparison tool gets it: written as an XMAP file and read by the project's own reader"""
    import io
    from src.parsers.xmap_reader import XmapReader
    rows = [f"{i + 1}\t{q}\t{r}\t0.0\t10.0\t0.0\t10.0\t+\t1.00\t1M\t100.0\t100.0\t1\t" + ''.join(f"({a},{b})" for a, b in p)
            for i, (q, r, p) in enumerate(s)]
    return XmapReader().readAlignments(io.StringIO(XMAP_HEAD + ''.join(x + "\n" for x in rows)))


def check(set1, set2, combine, files=False):
    from src.diagnostic.alignment_comparer import AlignmentComparer, AlignmentRowComparer, AlignmentRowComparisonResultType as T
    bad = []
    mk = (lambda s: through_files(s)) if files else (lambda s: [A(q, r, p) for (q, r, p) in s])
    try:
        c = AlignmentComparer(AlignmentRowComparer(combine)).compare(mk(set1), mk(set2))
        cs = AlignmentComparer(AlignmentRowComparer(combine)).compare(mk(set2), mk(set1))
    except Exception as e:
        return [f'exception:{type(e).__name__}:{e}'[:100]]
    k1 = {(q, r) for q, r, _ in set1}
    k2 = {(q, r) for q, r, _ in set2}
    if c.overlapping + c.nonOverlapping + c.firstOnly + c.secondOnly != len(k1 | k2):
        bad.append('counts_sum_to_number_of_distinct_keys')
    if c.firstOnly != len(k1 - k2) or c.secondOnly != len(k2 - k1) or c.overlapping + c.nonOverlapping != len(k1 & k2):
        bad.append('only_counts_are_the_set_differences')
    keys = [(row.queryId, row.referenceId) for row in c.rows]
    if len(keys) != len(set(keys)) and 0 not in [x for k in keys for x in k]:
        bad.append('every_key_classified_exactly_once')
    for row in c.rows:
        if not (0 <= row.identity <= 1 and 0 <= row.alignment1Coverage <= 1 and 0 <= row.alignment2Coverage <= 1):
            bad.append('measures_in_0_1')
    if (cs.firstOnly, cs.secondOnly, cs.overlapping, cs.nonOverlapping) != (c.secondOnly, c.firstOnly, c.overlapping, c.nonOverlapping):
        bad.append('swap_swaps_counts')
    rows = {(r.queryId, r.referenceId): r for r in c.rows if r.type == T.BOTH}
    rows_s = {(r.queryId, r.referenceId): r for r in cs.rows if r.type == T.BOTH}
    for k, r in rows.items():
        s = rows_s.get(k)
        if s is None or abs(r.alignment1Coverage - s.alignment2Coverage) > 1e-12 or abs(r.alignment2Coverage - s.alignment1Coverage) > 1e-12:
            bad.append('swap_swaps_coverages')
    # reflexivity
    try:
        cr = AlignmentComparer(AlignmentRowComparer(combine)).compare(mk(set1), mk(set1))
    except Exception as e:
        return bad + [f'exception:{type(e).__name__}']
    dedup = {}
    for q, r, p in sorted(set1, key=lambda a: (a[1], a[0])):
        dedup[(q, r)] = p
    for row in cr.rows:
        p = dedup.get((row.queryId, row.referenceId))
        if p:
            if row.identity != 1 or row.alignment1Coverage != 1 or row.alignment2Coverage != 1 or row.alignment1ExclusivePairs or row.alignment2ExclusivePairs:
                bad.append('self_comparison_is_identity_1_coverage_1_no_exclusive_pairs')
    if cr.firstOnly or cr.secondOnly:
        bad.append('self_comparison_has_no_only_rows')
    return sorted(set(bad))


def run_chunk(cases):
    out, nt = [], 0
    for s1, s2, comb in cases:
        files = any(q > 2 ** 40 or r > 2 ** 40 for q, r, _ in tuple(s1) + tuple(s2))       # (the cases with huge ids go through XMAP text)
        bad = check(s1, s2, comb, files)
        nt += 1 if s1 and s2 else 0
        if bad:
            out.append(((s1, s2, comb), bad))
    return len(cases), nt, out[:5]


def bounded(repo, tier, seed):
    keys = [(1, 1), (1, 2), (2, 1), (2, 2)]
    pls = [(), ((1, 1),), ((1, 1), (2, 2)), ((1, 1), (2, 1)), ((1, 2), (2, 3), (3, 3)), ((2, 2), (3, 1))]
    als = [(q, r, p) for (q, r) in keys[:3] for p in pls]
    sets = [()] + [(a,) for a in als] + [c for c in itertools.combinations(als, 2)][:: (3 if tier == 'quick' else 1)]
    cases = [(s1, s2, comb) for s1 in sets for s2 in sets for comb in (False, True)][:: (5 if tier == 'quick' else 1)]
    rnd = random.Random(seed)
    for _ in range(300 if tier == 'quick' else 5000):
        def rs():
            out = []
            for _ in range(rnd.randint(0, 4)):
                n = rnd.randint(0, 6)
                out.append((rnd.randint(1, 3), rnd.randint(1, 2), tuple((rnd.randint(1, 6), rnd.randint(1, 6)) for _ in range(n))))
            return tuple(out)
        cases.append((rs(), rs(), rnd.random() < 0.5))
    # through files, as compare_alignments reads them: ids beyond 2^53 that differ in the last bit are different keys
    rf = random.Random(seed * 7 + 2)
    big = 2 ** 53
    for _ in range(60 if tier == 'quick' else 1500):
        def rsf():
            out = []
            for _ in range(rf.randint(1, 4)):
                n = rf.randint(1, 4)          # (an XMAP record has at least one pair)
                out.append((big + rf.randint(0, 3), rf.choice((1, 2, big + 1, big + 2)), tuple((rf.randint(1, 6), rf.randint(1, 6)) for _ in range(n))))
            return tuple(out)
        cases.append((rsf(), rsf(), rf.random() < 0.5))
    chunks = [cases[i:i + 400] for i in range(0, len(cases), 400)]
    res = pmap(run_chunk, chunks, repo)
    viol = {}
    for r in res:
        for case, bad in r[2]:
            key = f"{CMP}::monitor::C19::{bad[0]}"
            viol.setdefault(key, dict(key=key, blame=CMP, input=dict(set1=case[0], set2=case[1], combine=case[2]), observed=bad, required='C19 statement'))
    return result(sum(r[0] for r in res), sum(r[1] for r in res),
                  "pairs of alignment sets with <= 2 alignments over 3 (query, reference) keys and 6 pair lists (empty, duplicated query labels, shared and "
                  "exclusive pairs), with and without combining multiple query sources, plus random larger sets: key partition, set differences, measures in "
                  "[0,1], reflexivity, swap symmetry; plus sets written as XMAP text and read by the project's reader (as compare_alignments gets them) with ids around 2^53; non-trivial = both sets non-empty", [dict(set1=cases[40][0], set2=cases[40][1], combine=cases[40][2])],
                  list(viol.values())[:5], exhaustive=(tier != 'quick'), bounds="<= 2 alignments per set (exhaustive part)")


def replay(repo, rp):
    from bcheck.common import use_repo
    use_repo(repo)
    i = rp['input']
    def tup(x): return tuple(tup(y) for y in x) if isinstance(x, (list, tuple)) else x
    s1, s2 = tup(i['set1']), tup(i['set2'])
    bad = check(s1, s2, i['combine'], any(q > 2 ** 40 or r > 2 ** 40 for q, r, _ in s1 + s2))
    return (not bad), bad
