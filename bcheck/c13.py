"""C13 bounded cross-check: all short score sequences through the real AlignmentSegmentsFactory, judged by an
independent brute-force reading of the property statement."""
import itertools
import random
from bcheck.common import pmap, result

ALPHABET = (-3, -1, 0, 1, 2, 3)
FRACTIONS = (-1.25, -0.75, 0.5, 1.0, 1.5)
FRACTION_THRESHOLDS = ((0.5, 0.5), (1.0, 0.75), (0.25, 1.0))
THRESHOLDS = ((1, 1), (2, 1), (2, 3), (3, 2), (3, 100), (4, 2), (1, 0))     # (minScore, breakSegmentThreshold)
FID = 'src/alignment/segments_factory.py::_AlignmentSegmentBuilder.getSegments'


def make_positions(scores, unpaired_mask):
    from src.alignment.alignment_position import AlignedPair, ScoredAlignedPair, NotAlignedReferencePosition, ScoredNotAlignedPosition
    from src.correlation.optical_map import PositionWithSiteId
    out = []
    for i, s in enumerate(scores):
        if s <= 0 and (unpaired_mask >> i) & 1:
            out.append(ScoredNotAlignedPosition(NotAlignedReferencePosition(PositionWithSiteId(i + 1, 100 * i)), s))
        else:
            out.append(ScoredAlignedPair(AlignedPair(PositionWithSiteId(i + 1, 100 * i), PositionWithSiteId(i + 1, 100 * i), 0), s))
    return out


def oracle(positions, segments, ms, bst):
    """returns the list of violated clauses of the C13 statement"""
    from src.alignment.alignment_position import ScoredAlignedPair
    scores = [p.score for p in positions]
    n = len(scores)
    bad = []
    if len(segments) == 1 and len(segments[0].positions) == 0:
        return bad
    if not segments or any(len(s.positions) == 0 for s in segments):
        return ['single_empty_segment_iff_no_run_qualifies']
    ranges = []
    for s in segments:
        idx = [i for i, p in enumerate(positions) if p is s.positions[0]]
        if len(idx) != 1:
            return ['results_are_runs_of_the_input']
        a = idx[0]
        b = a + len(s.positions)
        if b > n or any(s.positions[i] is not positions[a + i] for i in range(b - a)):
            return ['results_are_runs_of_the_input']
        ranges.append((a, b))
    for (a, b), (a2, b2) in zip(ranges, ranges[1:]):
        if not b < a2:
            bad.append('separated_and_in_order')
    for (a, b), s in zip(ranges, segments):
        pre = list(itertools.accumulate(scores[a:b]))
        if s.segmentScore != pre[-1] or s.segmentScore < ms:
            bad.append('score_is_sum_and_at_least_minScore')
        if not (isinstance(positions[a], ScoredAlignedPair) and scores[a] > 0
                and isinstance(positions[b - 1], ScoredAlignedPair) and scores[b - 1] > 0):
            bad.append('starts_and_ends_on_a_pair')
        if any(x <= 0 for x in pre):
            bad.append('prefix_sums_positive')
        run_max = None
        for x in pre:
            if run_max is not None and x <= run_max - bst:
                bad.append('never_falls_threshold_below_running_max')
                break
            run_max = x if run_max is None else max(run_max, x)
        if any(x >= pre[-1] for x in pre[:-1]):
            bad.append('ends_at_first_maximum')
        # right-maximality: extend until a condition is violated; no higher score may be reached before
        cur, run_max = pre[-1], max(pre)
        for t in range(b, n):
            cur += scores[t]
            if cur <= 0 or cur <= run_max - bst:
                break
            if cur > pre[-1]:
                bad.append('not_improvable_before_break')
                break
            run_max = max(run_max, cur)
    return sorted(set(bad))


def run_case(case):
    scores, mask, ms, bst = case
    from src.alignment.segments_factory import AlignmentSegmentsFactory
    from src.correlation.peak import Peak
    positions = make_positions(scores, mask)
    try:
        segs = AlignmentSegmentsFactory(ms, bst).getSegments(positions, Peak(0, 1))
    except Exception as e:
        return (case, ['exception:' + type(e).__name__], 0)
    bad = oracle(positions, segs, ms, bst)
    return (case, bad, sum(1 for s in segs if s.positions))


def run_chunk(cases):
    out = []
    nontrivial = 0
    for c in cases:
        case, bad, nseg = run_case(c)
        if nseg >= 1:
            nontrivial += 1
        if bad:
            out.append((case, bad))
    return len(cases), nontrivial, out[:20]


def cases(max_len, seed, extra_random):
    for ln in range(0, max_len + 1):
        for scores in itertools.product(ALPHABET, repeat=ln):
            for ms, bst in THRESHOLDS:
                yield (scores, (1 << ln) - 1, ms, bst)
    # scores are real numbers (non-integer penalty multipliers): sequences over dyadic fractions, whose sums are exact in floating point
    for ln in range(1, min(max_len, 5) + 1):
        for scores in itertools.product(FRACTIONS, repeat=ln):
            for ms, bst in FRACTION_THRESHOLDS:
                yield (scores, (1 << ln) - 1, ms, bst)
    rx = random.Random(seed * 17 + 3)
    for _ in range(extra_random // 2):
        ln = rx.randint(6, 24)
        scores = tuple(rx.choice((-250.0, -250.0, -199.5, -0.75, 100.25, 400.5, 998.5, 1000.0, 1000.0)) for _ in range(ln))
        yield (scores, rx.getrandbits(ln) | 1 | (1 << (ln - 1)), rx.choice((500, 1000, 1000.5)), rx.choice((100.25, 600, 1200, 1200.5)))
    # runs that miss minScore by a hair (a relative 1e-6 .. 1e-5, exactly representable): "at least minScore" is an exact comparison
    for ms, d in ((1000, 2.0 ** -8), (1000, 2.0 ** -7), (200000, 1.0), (200000, 0.5), (1024, 2.0 ** -10), (0.5, 2.0 ** -19)):
        for bst in (ms * 1.25, ms / 4):
            for shape in ((ms - d,), (ms / 2, ms / 2 - d), (ms - d, -ms / 8, ms / 8), (ms / 4, ms / 4, ms / 4, ms / 4 - d), (ms,), (ms / 2, ms / 2),
                          (ms - d, -ms * 2, ms), (ms, -ms * 2, ms - d)):
                yield (tuple(float(x) for x in shape), (1 << len(shape)) - 1, ms, bst)
    rnd = random.Random(seed)
    for _ in range(extra_random):
        ln = rnd.randint(8, 30)
        scores = tuple(rnd.choice((-900, -250, -250, 100, 400, 700, 1000, 1000)) for _ in range(ln))
        yield (scores, rnd.getrandbits(ln), rnd.choice((500, 1000, 1500)), rnd.choice((100, 600, 1200, 3000)))


def bounded(repo, tier, seed):
    max_len = 5 if tier == 'quick' else 7
    allc = list(cases(max_len, seed, 2000 if tier == 'quick' else 20000))
    chunks = [allc[i:i + 4000] for i in range(0, len(allc), 4000)]
    res = pmap(run_chunk, chunks, repo, chunksize=1)
    ev = sum(r[0] for r in res)
    nt = sum(r[1] for r in res)
    viol = []
    for r in res:
        for case, bad in r[2]:
            viol.append(dict(key=f"{FID}::ensures::{bad[0]}", blame=FID,
                             input=dict(scores=list(case[0]), unpaired_mask=case[1], minScore=case[2], breakSegmentThreshold=case[3]),
                             observed=bad, required='C13 statement'))
    viol.sort(key=lambda v: len(v['input']['scores']))
    uniq = {}
    for v in viol:
        uniq.setdefault(v['key'], v)
    viol = list(uniq.values())
    return result(ev, nt, f"all score sequences of length 0..{max_len} over {ALPHABET} x {len(THRESHOLDS)} (minScore, breakSegmentThreshold) pairs, all of length 1..{min(max_len, 5)} over the fractions {FRACTIONS} x {len(FRACTION_THRESHOLDS)} fractional pairs, random longer fractional ones, runs that miss minScore by a relative 1e-6 .. 1e-5 "
                          f"hitting the threshold equalities, plus random longer sequences; non-trivial = at least one non-empty segment returned",
                  [dict(scores=list(c[0]), minScore=c[2], breakSegmentThreshold=c[3]) for c in allc[5000:5003]],
                  viol[:5], exhaustive=True, bounds=f"length <= {max_len}, alphabet {ALPHABET}")


def replay(repo, rp):
    from bcheck.common import use_repo
    use_repo(repo)
    i = rp['input']
    case, bad, _ = run_case((tuple(i['scores']), i['unpaired_mask'], i['minScore'], i['breakSegmentThreshold']))
    return (not bad), bad
