"""C03 bounded cross-check: every valid matching on a small label grid (both orientations) through the real
AlignmentResultRow.cigarString, decoded by an independent replay of the HitEnum string."""
import itertools
import random
import re
from bcheck.common import pmap, result, time_limit, CaseTimeout

AGG = 'src/alignment/alignment_results.py::AlignmentResultRow.__aggregateHitEnums'
GHE = 'src/alignment/alignment_results.py::AlignmentResultRow.__getHitEnums'
CIG = 'src/alignment/alignment_results.py::AlignmentResultRow.cigarString'


def make_row(pairs, split=None):
    """split = None: one segment; (k, where): pairs[:k] and pairs[k:] as two segments with an empty segment
    inserted at position `where` (0 front, 1 middle, 2 back, 3 none)"""
    row = _make_row(pairs)
    if split is None:
        return row
    from src.alignment.alignment_results import AlignmentResultRow
    from src.alignment.segments import AlignmentSegment, EmptyAlignmentSegment
    from src.correlation.peak import Peak
    k, where = split
    pos = row.segments[0].positions
    segs = [AlignmentSegment(p, 1000. * len(p), Peak.null, []) for p in (pos[:k], pos[k:]) if p]
    if where < 3:
        segs.insert(min(where, len(segs)), EmptyAlignmentSegment())
    return AlignmentResultRow(segs)


def _make_row(pairs):
    from src.alignment.alignment_position import AlignedPair, ScoredAlignedPair
    from src.alignment.alignment_results import AlignmentResultRow
    from src.alignment.segments import AlignmentSegment
    from src.correlation.optical_map import PositionWithSiteId
    from src.correlation.peak import Peak
    pos = [ScoredAlignedPair(AlignedPair(PositionWithSiteId(r, 100 * r), PositionWithSiteId(q, 100 * q), 0), 1000.) for r, q in pairs]
    return AlignmentResultRow([AlignmentSegment(pos, 1000. * len(pos), Peak.null, [])])


def decode(text, pairs, d):
    """violated clauses of the C03 statement for HitEnum `text` of the listed pairs (orientation d)"""
    bad = []
    runs = re.findall(r'(\d+)([MDI])', text)
    if ''.join(c + o for c, o in runs) != text:
        return ['well_formed_run_text']
    if pairs and not text:
        return ['nonempty_when_hits']
    if not pairs:
        return [] if text == '' else ['empty_exactly_when_no_pair']
    ops = ''.join(o * int(c) for c, o in runs)
    if any(int(c) < 1 for c, _ in runs) or any(a[1] == b[1] for a, b in zip(runs, runs[1:])):
        bad.append('adjacent_runs_differ')
    if ops[0] != 'M':
        bad.append('starts_with_match')
    if ops[-1] != 'M':
        bad.append('ends_with_match')
    r, q = pairs[0]
    got = []
    for o in ops:
        if o == 'M':
            got.append((r, q))
            r, q = r + 1, q + d
        elif o == 'D':
            r += 1
        else:
            q += d
    if got != list(pairs):
        bad.append('replay_reproduces_all_listed_pairs')
    return bad


def run_case(case):
    pairs, d = case[0], case[1]
    try:
        with time_limit(5):
            text = make_row(pairs, case[2] if len(case) > 2 else None).cigarString
    except CaseTimeout:
        return case, ['exception:does_not_terminate_within_5s'], None
    except Exception as e:
        return case, ['exception:' + type(e).__name__ + ':' + str(e)[:80]], None
    return case, decode(text, pairs, d), text


def run_chunk(cases):
    out, nt = [], 0
    slow = 0
    for c in cases:
        case, bad, text = run_case(c)
        if text and ('D' in text or 'I' in text):
            nt += 1
        if bad:
            out.append((case, bad, text))
            if 'terminate' in bad[0]:
                slow += 1
                if slow >= 2:
                    break
    return len(cases), nt, out[:20]


def matchings(n):
    for k in range(0, n + 1):
        for rs in itertools.combinations(range(1, n + 1), k):
            for qs in itertools.combinations(range(1, n + 1), k):
                yield tuple(zip(rs, qs)), 1
                if k >= 1:
                    yield tuple(zip(rs, reversed(qs))), -1
                if 1 <= k <= 3 and n <= 6:
                    for cut in range(0, k + 1):
                        for where in range(4):
                            yield tuple(zip(rs, qs)), 1, (cut, where)


def blame_of(bad):
    b = bad[0]
    if b in ('nonempty_when_hits', 'adjacent_runs_differ', 'well_formed_run_text'):
        return AGG, f"{AGG}::ensures::{b if b != 'well_formed_run_text' else 'run_texts'}"
    if b.startswith('exception'):
        return GHE, f"{GHE}::safety::{b}"
    if b == 'empty_exactly_when_no_pair':
        return CIG, f"{CIG}::ensures::{b}"
    return GHE, f"{GHE}::ensures::{b}"


def bounded(repo, tier, seed):
    n = 6 if tier == 'quick' else 8
    allc = list(matchings(n))
    rnd = random.Random(seed)
    for _ in range(300 if tier == 'quick' else 5000):
        k = rnd.randint(1, 60)
        rs = sorted(rnd.sample(range(1, 200), k))
        qs = sorted(rnd.sample(range(1, 200), k))
        d = rnd.choice((1, -1))
        allc.append((tuple(zip(rs, qs if d == 1 else reversed(qs))), d))
    chunks = [allc[i:i + 500] for i in range(0, len(allc), 500)]
    res = pmap(run_chunk, chunks, repo, chunksize=1)
    viol = []
    for r in res:
        for case, bad, text in r[2]:
            fid, key = blame_of(bad)
            viol.append(dict(key=key, blame=fid, input=dict(pairs=[list(p) for p in case[0]], direction=case[1], split=list(case[2]) if len(case) > 2 else None),
                             observed=dict(hitenum=text, violated=bad), required='C03 statement'))
    viol.sort(key=lambda v: len(v['input']['pairs']))
    uniq = {}
    for v in viol:
        uniq.setdefault(v['key'], v)
    r1 = result(sum(r[0] for r in res), sum(r[1] for r in res),
                  f"every valid matching (strictly ascending reference labels, strictly monotone query labels) on a {n}x{n} label grid, "
                  f"both orientations, plus random matchings of up to 60 pairs on 200 labels; non-trivial = HitEnum contains a D or an I",
                  [dict(pairs=[list(p) for p in c[0]], direction=c[1]) for c in allc[700:703]],
                  list(uniq.values())[:5], exhaustive=True, bounds=f"grid {n}x{n}")
    # "... and for every record produced end to end": the records of the real program on generated CMAP sets
    from bcheck import pipe_driver as pd
    from bcheck.common import merge
    modes = ['best', 'separate', 'joined', 'all']
    r2 = pd.run(repo, tier, seed, ['C03'], (lambda i: [modes[i % 4]]) if tier == 'quick' else modes, 42 if tier == 'quick' else 600,
                params_list=[{}, {'d': 600}, {'d': 3000}], weights=[1, 2, 1, 3, 3, 1])
    # ... molecules with tandem duplications (the two passes align overlapping reference stretches, the join has to trim), default mode, worker results
    # handed over as pickled copies as the real pool does
    r2t = pd.run(repo, tier, seed + 5, ['C03'], lambda i: ['best'] if i % 3 else ['all'], 24 if tier == 'quick' else 400, params_list=[{}],
                 overrides=lambda i: dict(generator='tandem'))
    # ... and the candidate rows the aligner builds from several nearby seed peaks (conflict resolution is where invalid matchings come from)
    na = 30000 if tier == 'quick' else 800000
    seeds = [seed * 1000003 + i for i in range(na)]
    res3 = pmap(aligner_chunk, [seeds[i:i + 150] for i in range(0, na, 150)], repo)
    v3 = {}
    for r in res3:
        for case, bad, detail in r[2]:
            fid = 'src/alignment/alignment_results.py::AlignmentResultRow.resolve' if bad[0].startswith('self_joined_record') else CIGAR
            key = f"{fid}::monitor::C03::{bad[0]}"
            if key not in v3 or len(case['query']) < len(v3[key]['input']['aligner_case']['query']):
                v3[key] = dict(key=key, blame=fid, input=dict(aligner_case=case), observed=detail, required='C03 statement')
    from bcheck.c15 import build_case
    r3 = result(sum(r[0] for r in res3), sum(r[1] for r in res3),
                "HitEnum of the candidate rows of the real Aligner.align on generated label data with 2-6 seed peaks on neighbouring diagonals, both strands "
                "(the C15 generators, every fourth case densely labelled): replayed from the first pair it must reproduce the row's pairs; a row whose matching is invalid is skipped only if the "
                "conflict monitor attributes it to a known conflict-resolution finding (K1/K2); each valid row is also joined with itself (what mode 'best' does when a "
                "second-pass row wins) and the joined record's HitEnum replayed; non-trivial = >= 2 segments",
                [build_case(seeds[0])], list(v3.values())[:4], exhaustive=False, bounds=f"{na} generated cases")
    return merge([r1, r2, r2t, r3])


CIGAR = 'src/alignment/alignment_results.py::AlignmentResultRow.cigarString'


def aligner_case(case):
    from bcheck import conflict_monitor as cm
    from bcheck import records as R
    from bcheck.c01 import align_case
    row, ref, query = align_case(case)
    pairs = [(p.reference.siteId, p.query.siteId) for p in row.alignedPairs]
    nseg = len([s for s in row.segments if s.positions])
    if not pairs:
        return [], nseg, None
    orient = '-' if case['reverse'] else '+'
    if R.c01_pairs(pairs, orient, 10 ** 9, 10 ** 9):
        mechs = R.conflict_mechanisms(cm.events(), 5)
        if mechs and all(m[1] for m in mechs):
            return [], nseg, None                      # consequence of a known finding (reported under C15 / C01)
    text = row.cigarString
    bad = decode(text, pairs, 1 if orient == '+' else -1)
    if not bad:
        # ... and of the record the multi-pass coordinator makes of it in mode 'best' when this row is the better of a query's two passes: the row is then in
        # both lists handed to AlignmentResults.resolve and is joined WITH ITSELF (AlignmentResultRow.resolve(row, row)) whenever its reference span is
        # within maxDifference
        joined = row.resolve(row)
        if joined is not None and joined.alignedPairs:
            jp = [(p.reference.siteId, p.query.siteId) for p in joined.alignedPairs]
            jt = joined.cigarString
            jbad = decode(jt, jp, 1 if orient == '+' else -1)
            if jbad:
                return ['self_joined_record::' + b for b in jbad], nseg, dict(hitenum=jt, pairs=jp[:60], joined_with_itself=True)
    return bad, nseg, dict(hitenum=text, pairs=pairs[:60])


def aligner_chunk(seeds):
    from bcheck.c01 import make_case as build_case        # every fourth case densely labelled (several candidates per label)
    from bcheck.common import time_limit, CaseTimeout
    out, nt = [], 0
    for s in seeds:
        case = build_case(s)
        try:
            with time_limit(20):
                bad, nseg, detail = aligner_case(case)
        except CaseTimeout:
            bad, nseg, detail = ['terminates'], 0, None
        except Exception as e:
            bad, nseg, detail = [f'no_exception:{type(e).__name__}'], 0, repr(e)[:200]
        nt += 1 if nseg >= 2 else 0
        if bad:
            out.append((case, bad, detail))
    return len(seeds), nt, out[:10]


def replay(repo, rp):
    from bcheck.common import use_repo
    use_repo(repo)
    i = rp['input']
    if 'aligner_case' in i:
        bad, _, detail = aligner_case(i['aligner_case'])
        return (not bad), dict(violated=bad, detail=detail)
    if 'job' in i:
        from bcheck import pipe_driver as pd
        return pd.replay(repo, rp)
    c = (tuple(tuple(p) for p in i['pairs']), i['direction']) + ((tuple(i['split']),) if i.get('split') else ())
    case, bad, text = run_case(c)
    return (not bad), dict(hitenum=text, violated=bad)
