"""C01 bounded part: (a) run-time contract on the records / candidates of the real program (see bcheck.records);
(b) "every candidate alignment the aligner builds from any list of seed peaks": the real Aligner.align on generated label data with
2-6 nearby seed peaks (the C15 generators), the candidate row judged by the C01 clauses; failures are attributed to the known
conflict-resolution findings only if the conflict monitor saw that mechanism in that call."""
from bcheck import pipe_driver as pd
from bcheck.common import pmap, result, merge, time_limit, CaseTimeout

ALIGN = 'src/alignment/aligner.py::Aligner.align'


def align_case(case, aligners=None):
    """the real Aligner.align on one generated case -> (row, reference map, query map); the conflict monitor records what the resolver did.
    aligners: {maxDistance: Aligner} shared by the cases of a chunk (the program uses ONE aligner, engine, factory, chainer and resolver for every
    candidate of every query: a candidate must not depend on what the services were asked before)"""
    from bcheck import conflict_monitor as cm
    from src.alignment.aligner import Aligner, AlignerEngine
    from src.alignment.alignment_position_scorer import AlignmentPositionScorer
    from src.alignment.segments_factory import AlignmentSegmentsFactory
    from src.alignment.segment_chainer import SegmentChainer, SequentialityScorer
    from src.alignment.segment_with_resolved_conflicts import AlignmentSegmentConflictResolver
    from src.correlation.optical_map import OpticalMap
    from src.correlation.peak import Peak
    pd.install_context()
    cm.reset()
    cm.set_context(('align', 5))
    ref = OpticalMap(1, case['ref'][-1] + 1000, list(case['ref']))
    qpos = case['query']
    if case['reverse']:
        qpos = sorted(qpos[-1] - p for p in qpos)
    query = OpticalMap(5, qpos[-1] + 1, list(qpos))
    def mk():
        return Aligner(AlignmentPositionScorer(1000, 1., -250), AlignmentSegmentsFactory(1000, 1200), AlignerEngine(case['maxDistance']),
                       AlignmentSegmentConflictResolver(SegmentChainer(SequentialityScorer(1., 0))))
    aligner = mk() if aligners is None else aligners.setdefault(case['maxDistance'], mk())
    row = aligner.align(ref, query, [Peak(pk, 10. + i) for i, pk in enumerate(case['peaks'])], case['reverse'])
    return row, ref, query


def run_aligner_case(case, aligners=None):
    from bcheck import conflict_monitor as cm
    from bcheck import records as R
    row, ref, query = align_case(case, aligners)
    qpos = query.positions
    pairs = [(p.reference.siteId, p.query.siteId) for p in row.alignedPairs]
    if not pairs:
        return [], 0, pairs
    bad = R.c01_pairs(pairs, '-' if case['reverse'] else '+', len(case['ref']), len(qpos))
    nseg = len([s for s in row.segments if s.positions])
    if not bad:
        # label numbers name the labels whose coordinates were paired
        for p in row.alignedPairs:
            qc = query.positions[p.query.siteId - 1]
            qc = (query.length - 1 - qc) if case['reverse'] else qc
            if ref.positions[p.reference.siteId - 1] != p.reference.position or qc != p.query.position:
                return [('label_numbers_name_the_labels_paired', None)], nseg, pairs
        return [], nseg, pairs
    mechs = R.conflict_mechanisms(cm.events(), 5)
    known = [m for m in mechs if m[1]]
    unknown = [m for m in mechs if m[1] is None]
    if known and not unknown and all(b != 'labels_exist_in_the_named_maps' for b in bad):
        return [('one_to_one_collinear', known[0][1])], nseg, pairs
    return [(bad[0], None)], nseg, pairs


def dense_case(seed):
    """densely labelled maps: neighbouring labels closer to each other than maxDistance, every query label displaced independently - several
    candidates per label, doublets displaced by more than half their spacing (where a pairing rule other than mutual-nearest crosses pairs)"""
    import random
    rnd = random.Random(seed)
    n = rnd.randint(10, 30)
    ref, x = [], rnd.randint(1000, 3000)
    for _ in range(n):
        ref.append(x)
        x += rnd.choice((300, 500, 700, 900, 1200, 2500, 6000))
    a = rnd.randint(0, n // 3)
    q = [p - ref[a] + rnd.randint(-600, 600) for p in ref[a:]]
    q = sorted(set(max(0, p) for p in q))
    shift0 = q[0]
    q = [p - shift0 for p in q]
    base = ref[a] + shift0
    peaks = [base + rnd.randint(-200, 200)] + ([base + rnd.choice((-1, 1)) * rnd.randint(400, 1500)] if rnd.random() < 0.5 else [])
    return dict(ref=ref, query=q, reverse=rnd.random() < 0.5, peaks=peaks, maxDistance=rnd.choice((800, 1500, 2000)), seed=seed, dense=True)


def make_case(s):
    from bcheck.c15 import build_case
    return dense_case(s) if s % 4 == 3 else build_case(s)


def aligner_chunk(seeds):
    build_case = make_case
    out, nt = [], 0
    aligners, last = {}, {}
    for s in seeds:
        case = build_case(s)
        case['previous_case_on_the_same_aligner'] = last.get(case['maxDistance'])
        last[case['maxDistance']] = {k: v for k, v in case.items() if k != 'previous_case_on_the_same_aligner'}
        try:
            with time_limit(20):
                bad, nseg, pairs = run_aligner_case(case, aligners)
        except CaseTimeout:
            bad, nseg, pairs = [('terminates', None)], 0, []
        except Exception as e:
            bad, nseg, pairs = [(f'no_exception:{type(e).__name__}:{e}'[:120], None)], 0, []
        nt += 1 if nseg >= 2 else 0
        if bad:
            out.append((case, bad, pairs[:60]))
    return len(seeds), nt, out[:20]


def bounded(repo, tier, seed):
    n = 56 if tier == 'quick' else 1500
    r1 = pd.run(repo, tier, seed, ['C01'], MODES if tier != 'quick' else (lambda i: [MODESQ[i % len(MODESQ)]]), n, params_list=PARAMS)
    na = 60000 if tier == 'quick' else 1500000
    seeds = [seed * 1000003 + i for i in range(na)]
    chunks = [seeds[i:i + 150] for i in range(0, len(seeds), 150)]
    res = pmap(aligner_chunk, chunks, repo)
    viol, known = {}, {}
    for r in res:
        for case, bad, pairs in r[2]:
            for clause, mech in bad:
                key = f"{ALIGN}::monitor::C01::{clause}" + (f"::{mech}" if mech else '')
                tgt = known if mech else viol
                if key not in tgt or len(case['query']) < len(tgt[key]['input']['aligner_case']['query']):
                    tgt[key] = dict(key=key, blame=ALIGN, input=dict(aligner_case=case), observed=dict(pairs=pairs, violated=clause), required='C01 statement')
    build_case = make_case
    r2 = result(sum(r[0] for r in res), sum(r[1] for r in res),
                "candidate rows of the real Aligner.align (engine + scorer + segment factory + chainer + conflict resolver) on generated label data with 2-6 "
                "seed peaks on neighbouring diagonals (stretched, indel, repeat-expansion, noisy molecules; spread shifts) and, for a quarter of the cases, on densely "
                "labelled maps (neighbouring labels closer than maxDistance, every label displaced independently), both strands, maxDistance "
                "500-2000: labels exist, each label at most once, strictly ascending reference order, query order by strand, label numbers name the paired "
                "coordinates; non-trivial = the candidate has >= 2 segments",
                [build_case(seeds[0])], list(viol.values())[:5] + list(known.values())[:3], exhaustive=False, bounds=f"{na} generated cases")
    return merge([r1, r2])


def replay(repo, rp):
    i = rp['input']
    if 'aligner_case' in i:
        from bcheck.common import use_repo
        use_repo(repo)
        aligners = {}
        prev = i['aligner_case'].get('previous_case_on_the_same_aligner')
        if prev:
            try:
                run_aligner_case(prev, aligners)
            except Exception:
                pass
        bad, nseg, pairs = run_aligner_case(i['aligner_case'], aligners)
        want = rp.get('key', '')
        hit = [b for b in bad if f"{ALIGN}::monitor::C01::{b[0]}" + (f"::{b[1]}" if b[1] else '') == want]
        return (not hit), dict(violated=bad, pairs=pairs[:40])
    return pd.replay(repo, rp)


MODES = ['best', 'separate', 'joined', 'all']
MODESQ = ['best', 'all', 'joined', 'best']
PARAMS = [{}, {'d': 1000}, {'p': 5}, {'d': 2000, 'ms': 500}, {'ss': 1, 'sj': 0.01}, {'ss': 1, 'sj': 0.1, 'p': 5}]
