"""C02 bounded part: run-time contract on the records / candidates of the real program (see bcheck.records)."""
from bcheck import pipe_driver as pd


def bounded(repo, tier, seed):
    n = 56 if tier == 'quick' else 1500
    return pd.run(repo, tier, seed, ['C02'], MODES if tier != 'quick' else (lambda i: [MODESQ[i % len(MODESQ)]]), n, params_list=PARAMS)


replay = pd.replay
MODES = ['best', 'separate', 'joined', 'all']
MODESQ = ['best', 'all', 'separate', 'joined']
# (a small pairing distance with a low minimum score yields records of one or two pairs - legal, and where header fields degenerate)
PARAMS = [{}, {'p': 2}, {}, {'d': 120, 'ms': 500}, {}, {'p': 2}, {'d': 300, 'ms': 500, 'p': 5}]
