"""C08 bounded part: the four multi-pass output modes of the real program on identical generated inputs; files compared with each other
and joined records compared with their single-pass parts (all from the XMAP text)."""
from bcheck import pipe_driver as pd
from bcheck.pipeline import parse_xmap_text
from bcheck.records import c01_pairs

EXE = 'src/multi_pass_workflow_coordinator.py::_MultiPassWorkflowCoordinator.execute'
RES = 'src/alignment/alignment_results.py::AlignmentResults.resolve'
JOIN = 'src/alignment/alignment_results.py::AlignmentResultRow.resolve'
MODES = ['separate', 'joined', 'all', 'best']


def body(rec):
    """a record without its running entry id"""
    return tuple(rec[k] for k in ("QryContigID", "RefContigID", "QryStartPos", "QryEndPos", "RefStartPos", "RefEndPos", "Orientation",
                                  "Confidence", "HitEnum", "QryLen", "RefLen", "AlignedRest", "Alignment"))


def compare_modes(runs, pr, pq, params, cm):
    v = []
    recs = {m: {sfx: parse_xmap_text(t)[1] for sfx, t in runs[m].files.items()} for m in runs}
    get = lambda m, sfx: [body(r) for r in recs[m].get(sfx, [])]
    if get('all', '') != get('joined', ''):
        v.append((f"{EXE}::monitor::C08::main_of_all_equals_main_of_joined", None, dict(all=len(get('all', '')), joined=len(get('joined', '')))))
    if get('all', '_1') != get('separate', ''):
        v.append((f"{EXE}::monitor::C08::file_1_of_all_equals_main_of_separate", None, dict(all_1=len(get('all', '_1')), separate=len(get('separate', '')))))
    if get('all', '_2') != get('separate', '_1'):
        v.append((f"{EXE}::monitor::C08::file_2_of_all_equals_file_1_of_separate", None, dict(all_2=len(get('all', '_2')), separate_1=len(get('separate', '_1')))))
    if any(r['AlignedRest'] != 'False' for r in recs['all'].get('_1', [])) or any(r['AlignedRest'] != 'True' for r in recs['all'].get('_2', [])):
        v.append((f"{EXE}::monitor::C08::pass_files_carry_AlignedRest_False_and_True", None, {}))
    first = {int(r['QryContigID']): r for r in recs['separate'].get('', [])}
    second = {int(r['QryContigID']): r for r in recs['separate'].get('_1', [])}
    joined = recs['joined'].get('', [])
    unjoined = [body(r) for r in recs['joined'].get('_1', [])]
    jkeys = {}
    for j in joined:
        jkeys.setdefault(int(j['QryContigID']), []).append(j)
    # every single-pass record is un-joined or contributes to exactly one joined record
    for passname, table in (('first', first), ('second', second)):
        for q, r in table.items():
            in_unjoined = unjoined.count(body(r))
            js = [j for j in jkeys.get(q, []) if j['RefContigID'] == r['RefContigID'] and j['Orientation'] == r['Orientation']]
            if not ((in_unjoined == 1 and len(js) == 0) or (in_unjoined == 0 and len(js) == 1)):
                v.append((f"{RES}::monitor::C08::every_single_pass_record_is_unjoined_or_in_exactly_one_joined_record", None,
                          dict(query=q, which=passname, unjoined_copies=in_unjoined, joined_records=len(js))))
    maxdiff = params['diff']
    for j in joined:
        q = int(j['QryContigID'])
        f, s = first.get(q), second.get(q)
        if f is None or s is None or not (f['RefContigID'] == s['RefContigID'] == j['RefContigID']) or \
                not (f['Orientation'] == s['Orientation'] == j['Orientation']):
            v.append((f"{RES}::monitor::C08::joined_only_for_first_and_second_pass_on_same_reference_and_strand", None, dict(query=q)))
            continue
        gap = max(float(f['RefStartPos']), float(s['RefStartPos'])) - min(float(f['RefEndPos']), float(s['RefEndPos']))
        if gap > maxdiff:
            v.append((f"src/alignment/alignment_results.py::AlignmentResultRow.check_overlap::monitor::C08::joined_only_when_reference_gap_at_most_maxDifference",
                      None, dict(query=q, gap=gap, maxDifference=maxdiff)))
        union = sorted(set(f['_pairs']) | set(s['_pairs']))
        jp = j['_pairs']
        if not set(jp) <= set(union):
            v.append((f"{JOIN}::monitor::C08::joined_pairs_are_a_subset_of_the_union_of_the_parts", None, dict(query=q, extra=sorted(set(jp) - set(union))[:10])))
        elif not c01_pairs(union, j['Orientation'], 10 ** 9, 10 ** 9) and jp != union:
            # which mechanism lost pairs?  a parent with several segments (only segments[0] of each parent is joined) is the known one
            rows = {id(r): r for r in (runs['separate'].rows or [])}
            whole = {m.moleculeId: m for m in (runs['separate'].query_maps or [])}
            multi = any(len([sg for sg in r.segments if sg.positions]) > 1 for r in (runs['separate'].rows or []) if r.queryId == q) or \
                any(len([sg for sg in row.segments if sg.positions]) > 1 for row, qmap, _, _ in runs['separate'].candidates.get(q, [])
                    if qmap is not whole.get(q))       # a second-pass candidate: aligned from a fragment, not from the program's own query map
            # (the AlignedRest flag cannot tell them apart here: it is set on the copy that came back from the worker, not on the object captured there)
            # K4: one part lies inside the other on the reference (the later-starting part ends before the earlier one does): the equal-
            # index cut removes the earlier part's tail from the cut to its END, i.e. also its pairs beyond the nested part.  Classified
            # from the two single-pass records alone: the missing pairs are exactly pairs of the enclosing part beyond the nested one.
            fp, sp_ = f['_pairs'], s['_pairs']
            early, late = (fp, sp_) if (fp and sp_ and fp[0][0] <= sp_[0][0]) else (sp_, fp)
            missing = set(union) - set(jp)
            nested = bool(early and late) and max(r for r, _ in late) < max(r for r, _ in early) and \
                all(m in set(early) and m[0] > max(r for r, _ in late) for m in missing)
            mech = 'K3:only_first_segment_of_each_part_is_joined' if multi else \
                ('K4:nested_part_costs_the_enclosing_part_its_tail' if nested else None)
            v.append((f"{JOIN}::monitor::C08::joined_record_is_exactly_the_union_when_the_union_is_a_valid_matching",
                      mech,
                      dict(query=q, union=len(union), joined=len(jp), missing=sorted(set(union) - set(jp))[:10])))
    return v


def bounded(repo, tier, seed):
    n = 42 if tier == 'quick' else 900
    params = [{}, {'diff': 20000}, {'diff': 1000}, {'p': 5}, {'diff': 0}]        # (0 is a value like any other: join only what touches or overlaps)
    # every 7th set holds only exact copies of reference windows: every query is aligned in full by the first pass, the second pass
    # yields nothing, and the mode equalities must hold all the same (empty additional files included)
    clean = lambda i: dict(kinds=('exact',), weights=None) if i % 7 == 3 else None
    return pd.run(repo, tier, seed, ['C08'], MODES, n, params_list=params, weights=[1, 2, 1, 4, 4, 1], overrides=clean,
                  rule="generated CMAP sets with indel-containing and chimeric queries over-weighted, run in the four multi-pass modes (separate, joined, all, best) "
                       "on identical inputs with maxDifference 100000/20000/1000/0 (every 7th set: exact copies only, so that the second pass finds nothing): file equalities between modes, AlignedRest flags, every single-pass record un-joined "
                       "or in exactly one joined record, joined only for same query/reference/strand within maxDifference, joined pairs subset of the union and equal "
                       "to it when the union is a valid matching; evaluations = records + runs")


replay = pd.replay
