"""Per-property plans: which functions are verified deductively, which bounded stand-in runs, what level is claimed."""
from dataclasses import dataclass, field
from typing import Callable, List, Optional


@dataclass
class Plan:
    pid: str
    fids: List[str]
    level: str
    explanation: str
    bounded: Optional[Callable] = None
    replay: Optional[Callable] = None
    assumptions: List[str] = field(default_factory=list)
    technique: str = ''
    level_text: str = ''
    level_note: str = ''


PLANS = {}


def _lazy(mod, name):
    def f(*a, **k):
        import importlib
        return getattr(importlib.import_module(mod), name)(*a, **k)
    return f


SF = 'src/alignment/segments_factory.py::'
SEG = 'src/alignment/segments.py::'

PLANS['C13'] = Plan(
    'C13', [SF + '_AlignmentSegmentBuilder.getSegments', SEG + 'AlignmentSegment.create'], 'proof',
    "The C13 statement is the postcondition of the real _AlignmentSegmentBuilder.getSegments (its four private methods inlined, "
    "one loop invariant with ghost prefix sums and a ghost break index per result); AlignmentSegment.create carries "
    "'score = sum of member scores'. All obligations are discharged for every list length and every real-valued score. "
    "A bounded cross-check (exhaustive short score sequences through the real factory against an independent reading of the "
    "statement) runs alongside; it supplies concrete failing inputs when an obligation stops discharging and is not counted as proof.",
    bounded=_lazy('bcheck.c13', 'bounded'), replay=_lazy('bcheck.c13', 'replay'),
    technique='deductive: own VC generator over the real AST + z3; bounded exhaustive cross-check for replay',
)

NOT_APPLICABLE = {}
FIX_COMMITS = []
