"""Per-property plans: which functions are verified deductively, which bounded stand-in runs, what level is claimed."""
from dataclasses import dataclass, field
from typing import Callable, List, Optional


@dataclass
class Plan:
    pid: str
    fids: List[str]
    level: str
    explanation: str
    bounded: Optional[Callable] = None
    replay: Optional[Callable] = None
    assumptions: List[str] = field(default_factory=list)
    technique: str = ''
    level_text: str = ''
    level_note: str = ''
    static: Optional[Callable] = None      # AST-level obligations: callable(repo) -> [(obligation id, holds, detail)]


PLANS = {}


def _lazy(mod, name):
    def f(*a, **k):
        import importlib
        return getattr(importlib.import_module(mod), name)(*a, **k)
    return f


SF = 'src/alignment/segments_factory.py::'
SEG = 'src/alignment/segments.py::'

PLANS['C13'] = Plan(
    'C13', [SF + '_AlignmentSegmentBuilder.getSegments', SEG + 'AlignmentSegment.create', SF + 'AlignmentSegmentsFactory.getSegments',
            SF + 'AlignmentSegmentsFactory.__init__'], 'proof',
    "The C13 statement is the postcondition of the real _AlignmentSegmentBuilder.getSegments (its four private methods inlined, "
    "one loop invariant with ghost prefix sums and a ghost break index per result); AlignmentSegment.create carries "
    "'score = sum of member scores'; the public entry point AlignmentSegmentsFactory.getSegments (constructor + builder, thresholds passed in the right order) "
    "carries the same statement, and the factory constructor raises ValueError exactly for minScore <= 0. All obligations are discharged for every list length and every real-valued score. "
    "A bounded cross-check (exhaustive short score sequences through the real factory against an independent reading of the "
    "statement) runs alongside; it supplies concrete failing inputs when an obligation stops discharging and is not counted as proof.",
    bounded=_lazy('bcheck.c13', 'bounded'), replay=_lazy('bcheck.c13', 'replay'),
    technique='deductive: own VC generator over the real AST + z3; bounded exhaustive cross-check for replay',
)

AR = 'src/alignment/alignment_results.py::AlignmentResultRow.'
PLANS['C03'] = Plan(
    'C03', [AR + 'cigarString', AR + '__getHitEnums', AR + '__removeDuplicateQueryPositionsPreservingLastOne',
            AR + '__aggregateHitEnums'], 'proof',
    "C03 is the conjunction of the postconditions of the four real functions behind cigarString: __getHitEnums is verified with a ghost "
    "replay cursor (every MATCH is asserted to be exactly the next listed pair; at exit all pairs are consumed; first and last operation "
    "are M; the pair iterator is never dereferenced when exhausted), __removeDuplicate... is proved to be the identity on valid matchings, "
    "__aggregateHitEnums is proved to be a run-length encoding (runs tile the hit list, adjacent runs differ, non-empty output), and "
    "cigarString composes them. Assumed: the text of one run (f-string) and str.join are opaque; `alignedPairs` is a ghost-mirrored "
    "read-only property. A bounded exhaustive cross-check on small label grids through the real cigarString supplies replayable inputs.",
    bounded=_lazy('bcheck.c03', 'bounded'), replay=_lazy('bcheck.c03', 'replay'),
    technique='deductive: own VC generator over the real AST + z3 (ghost replay cursor); bounded exhaustive cross-check for replay',
)

PLANS['C16'] = Plan(
    'C16', ['src/correlation/vectorise.py::vectorisePositions', 'src/correlation/optical_map.py::toRelativeGenomicPositions',
            'src/correlation/optical_map.py::toRelativeGenomicPositions#real',
            'src/correlation/peaks_selector.py::PeaksSelector.selectPeaks',
            'src/correlation/sequence_generator.py::SequenceGenerator.positionsToSequence', 'src/correlation/vectorise.py::blur',
            'src/correlation/optical_map.py::CorrelationResult.createPeaks', 'src/correlation/optical_map.py::OpticalMap.getSequence',
            'src/correlation/optical_map.py::OpticalMap.getInitialAlignment', 'src/correlation/optical_map.py::InitialAlignment.create'], 'proof',
    "C16 is the conjunction of the postconditions of the real functions, each proved for all inputs: vectorisePositions (bit k set iff a label lies in "
    "[start+k*res, start+(k+1)*res), every label between start and end covered; ghost bin boundaries and witness array); blur (a result bit is 1 exactly when a "
    "non-zero original entry lies within the radius, length kept, ValueError exactly for a negative radius: invariant over the list of shifted copies, then the "
    "zip_longest table column by column); SequenceGenerator.positionsToSequence (their composition, bins counted from `start`, proved against the two proved "
    "contracts); toRelativeGenomicPositions (bin centre, within resolution/2 of every coordinate of the bin; also for fractional bin coordinates); "
    "CorrelationResult.createPeaks (min(peaksCount, found) peaks, each one of the found peaks - none twice - converted to its bin centre with its height and score "
    "= height - noise level; no dropped peak is higher than a kept one); PeaksSelector.selectPeaks (over all correlations of a query: the count highest-scoring "
    "peaks in descending order). Library functions enter through assumed contracts, listed under assumptions: sorted (stable ordered permutation), "
    "itertools.zip_longest, any, numpy.array, numpy.argpartition, numpy fancy indexing, numpy.arange, element-wise numpy arithmetic. A bounded cross-check of blur, "
    "createPeaks and the composition (exhaustive small cases through the real functions, numpy included) runs alongside; it supplies replayable inputs and is "
    "not counted as proof.",
    bounded=_lazy('bcheck.c16', 'bounded'), replay=_lazy('bcheck.c16', 'replay'),
    technique='deductive: own VC generator over the real AST + z3, every function of the statement under contract (library functions as assumed contracts); bounded exhaustive cross-check for replay',
    assumptions=['numpy array arithmetic is element-wise (toRelativeGenomicPositions proved for one coordinate and applied to arrays)',
                 'itertools.zip_longest, any, numpy.array, numpy.argpartition, numpy fancy indexing, numpy.arange, sorted: assumed library contracts (pyvc/builtins_.py)',
                 'createPeaks precondition: one property entry per found peak (scipy.signal.find_peaks), peaksCount >= 0',
                 'the glue that feeds these functions (FFT correlation, scipy find_peaks, getSequence / getInitialAlignment / refine) is not part of C16'],
)

AE = 'src/alignment/aligner.py::AlignerEngine.'
AP = 'src/alignment/alignment_position.py::AlignedPair.'
PLANS['C12'] = Plan(
    'C12', [AE + '__getReferencePositionsWithinRange', AE + '__getAlignedPairs', AP + '__deduplicateByKey', AP + 'deduplicate',
            'src/correlation/optical_map.py::OpticalMap.getPositionsWithSiteIds', AE + '__getNotAlignedPositions', AE + 'align',
            'lemma::C12::pairs_kept_by_the_query_keyed_pass_are_order_preserving',
            'lemma::C12::mutually_strictly_nearest_labels_within_maxDistance_are_paired'], 'proof',
    "Proved for all inputs (deductive, each function against its contract, callers against callee contracts): the search window is exactly the "
    "reference labels with start-d <= position <= end+d (inclusive); the candidate list is exactly the (reference, query) pairs within maxDistance of "
    "the seed diagonal (inclusive) with offset = query position - (reference position - seed), in (reference, query) order (nested loops over "
    "dropwhile/takewhile, ghost row tables); __deduplicateByKey keeps per key the nearest candidate, first among ties, keys strictly increasing, every key "
    "represented (sorted/groupby/min assumed); deduplicate (two passes) is one-to-one on both label numbers and keeps mutually strictly nearest "
    "candidates and only candidates; label numbering and strand mirroring of getPositionsWithSiteIds; __getNotAlignedPositions lists exactly the window / query labels "
    "that occur in no kept pair (complement by label number, unpaired query positions carry the seed); AlignerEngine.align (glue, callers checked against callee "
    "contracts, incl. that the query label list is ascending on both strands): the result is the kept pairs plus the unpaired positions sorted by position, every "
    "window reference label and every query label is in a kept pair or listed unpaired, kept pairs use each label number at most once, every kept pair is within "
    "maxDistance with offset = query - (reference - seed). Two LEMMAS over these contracts close the statement: pairs kept by the query-keyed pass are order "
    "preserving - strictly, so coincident labels cannot both survive (midpoint argument over the completeness of the candidates; the reference-keyed pass only "
    "removes pairs) - and labels that are strictly each other's nearest partner within maxDistance are paired. A bounded cross-check of the real "
    "AlignerEngine.align on an exhaustive small lattice supplies replayable inputs and is not counted as proof: ties, coincident labels, "
    "labels exactly at maxDistance, empty windows, both strands and fragments with label-number offsets.",
    bounded=_lazy('bcheck.c12', 'bounded'), replay=_lazy('bcheck.c12', 'replay'),
    technique='deductive: own VC generator over the real AST + z3, all functions of the pairing step under contract, two lemmas over the contracts; bounded exhaustive lattice cross-check for replay',
    assumptions=['precondition: label coordinates of both maps ascending (established by the CMAP reader - bounded, C17 - and preserved by trim / mirroring - proved)'],
)

PLANS['C14'] = Plan(
    'C14', ['src/alignment/segment_chainer.py::SequentialityScorer.getScore', 'src/alignment/segment_chainer.py::SegmentChainer.chain'], 'proof',
    "C14 is the conjunction of the postconditions of the two real functions. SequentialityScorer.getScore (nonlinear real arithmetic): -inf exactly when the "
    "overlap on one map exceeds half of the shorter segment (geometric overlap, both strands), otherwise finite, <= 0 for a non-negative multiplier and 0 for a "
    "contiguous join; no division by zero. SegmentChainer.chain: Bellman invariants of the dynamic programme on extended reals for the two nested loops, and "
    "for the back-tracking loop a ghost index list: the result is a strictly increasing selection of the pre-ordered non-empty segments (each at most once, "
    "diagonal order), consecutive members are never joined by -inf, its total (scores + joins, ghost sum) equals the maximal cumulated score and is finite, the "
    "empty segments are appended unchanged. Optimality over ALL order-respecting subsets is an induction on the length of the selection whose base, step and "
    "final obligations are discharged here; the induction schema itself is applied at the meta level (trusted). A bounded comparison with exhaustive subset "
    "enumeration on the real code supplies replayable inputs and is not counted as proof.",
    bounded=_lazy('bcheck.c14', 'bounded'), replay=_lazy('bcheck.c14', 'replay'),
    technique='deductive: own VC generator over the real AST + z3 (nonlinear reals, DP invariants, ghost chain index); bounded exhaustive-subset cross-check for replay',
    assumptions=['meta-level induction schema for chain optimality (base/step/final discharged as obligations)',
                 'SegmentChainer.chain precondition: every non-empty segment has at least one aligned pair and EmptyAlignmentSegment has no positions (established by the segment factory, C13)'],
)

SGP = 'src/alignment/segments.py::'
RSV = 'src/alignment/segment_with_resolved_conflicts.py::AlignmentSegmentConflictResolver.'
CONFLICT_CHAIN = [SGP + 'AlignmentSegment.__sub__#segment', SGP + 'AlignmentSegment.__sub__#positions',
                  SGP + '_SegmentPairWithConflict.__removeWholeConflictingSubsegmentWithWorseScore',
                  SGP + '_SegmentPairWithConflict.__trimSegmentsAtOptimalPosition', SGP + '_SegmentPairWithConflict.__trimSegmentsAtOptimalPosition#geometry',
                  SGP + '_SegmentPairWithConflict.resolveConflict', SGP + '_SegmentPairWithNoConflict.resolveConflict', SGP + 'AlignmentSegment.slice#partial', SGP + '_SegmentPairWithConflict.create',
                  SGP + 'AlignmentSegment.checkForConflicts', SGP + 'EmptyAlignmentSegment.checkForConflicts',
                  RSV + '__pairAndResolveConflicts', RSV + 'resolveConflicts']
PLANS['C15'] = Plan(
    'C15', CONFLICT_CHAIN + [SGP + 'AlignmentSegment.getReferenceLabels', SGP + 'AlignmentSegment.getQueryLabels', SGP + 'AlignmentSegment.slice',
                             SEG + 'AlignmentSegment.create', SGP + 'AlignmentSegment.__init__', SGP + 'EmptyAlignmentSegment.__init__',
                             'src/alignment/segment_chainer.py::SegmentChainer.chain'], 'other',
    "PROVED for all inputs (whenever resolution returns; partial correctness with respect to IndexError): the first sentence of the statement in its "
    "'never adds, moves or re-scores' reading - every segment returned by AlignmentSegmentConflictResolver.resolveConflicts is one of the input segments "
    "(SegmentChainer.chain: every chained segment is an input segment) or was rebuilt through AlignmentSegment.create (score = sum of what is left, same peak; the "
    "empty segment if nothing is left) from a SUB-SEQUENCE of one input segment's positions (same objects, same order). The chain of contracts: __sub__ (both "
    "argument shapes; keeps exactly the positions not `in` the subtrahend), __removeWhole..., the equal-index cut __trimSegmentsAtOptimalPosition (both "
    "segments cut at the same label count m, each cut directly before that segment's OWN m-th label; at the edges one whole conflict zone is removed), "
    "getReferenceLabels / getQueryLabels (well-formed label tables: precondition of the cut, discharged in resolveConflict), slice (conflict zone = contiguous "
    "run of the segment), _SegmentPairWithConflict.create, checkForConflicts and resolveConflict of both segment / pair classes, and the loop over consecutive "
    "chain members (invariant: the segment at place i is derived from the chained segment at place i; witness = composition of the index maps). The numpy merge "
    "index is an assumed contract (an index in range). Exception freedom of slice is a separate contract (operand shapes of conflict resolution). BOUNDED "
    "(run-time contract monitor on the real resolver and on every checkForConflicts(...).resolveConflict() it performs): CONTIGUITY of what is left, pairs "
    "outside the overlap are kept, no two resulting segments share a label or cross. Inputs are produced by the real engine, scorer and segment factory from "
    "generated label data with 2-6 nearby seed peaks, both strands, four maxDistance values. The last clause is genuinely violated by the pinned code in two "
    "ways that are recorded as known findings, each pinned to its mechanism (K1 pair never compared, K2 equal-index cut on unequal label lists) and "
    "replayed from a minimal witness on every run; any other failure of that clause is a violation.",
    bounded=_lazy('bcheck.c15', 'bounded'), replay=_lazy('bcheck.c15', 'replay'),
    technique='deductive contracts (own VC generator + z3) on the whole conflict-resolution call chain (sub-sequence + recomputed score proved for all inputs); bounded run-time contract monitor on the real resolver for contiguity and disjointness',
    assumptions=['numpy cumsum/add/argmax in __getOptimalMergeIndex: assumed to return an index between 0 and the number of labels',
                 'partial correctness: IndexError permitted in slice / startPosition / endPosition (exception freedom: slice default contract + C07 bounded)'],
)

WCF = 'src/workflow_coordinator.py::_WorkflowCoordinator.'
PLANS['C07'] = Plan(
    'C07', [WCF + '__align', WCF + '__getBestAlignment', 'src/alignment/segment_chainer.py::SequentialityScorer.getScore', WCF + 'execute',
            'src/alignment/segments.py::AlignmentSegment.slice', 'src/correlation/optical_map.py::OpticalMap.getInitialAlignment',
            'src/correlation/optical_map.py::InitialAlignment.refine', WCF + '__getPrimaryCorrelations', WCF + '__getSecondaryCorrelation',
            'src/program.py::Program.run', 'src/program.py::Program.__readMaps'], 'other',
    "Deductive part (exception-freedom of the per-query glue, safety obligations generated automatically by the VC generator): _WorkflowCoordinator.__align "
    "never raises - in particular the unpacking of zip(*rows) is only reached with at least one candidate row - and __getBestAlignment returns None exactly for "
    "an empty candidate list (else a maximal-confidence candidate); _WorkflowCoordinator.execute hands p_imap a worker count that is None or at least 1 "
    "(precondition of the assumed pool contract, under the documented requirement that -c, if given, is positive) and never dereferences a None row; "
    "SequentialityScorer.getScore never divides by zero (both join-score variants); AlignmentSegment.slice never indexes an empty list for the operand shapes of conflict resolution; the seeding steps getInitialAlignment / refine never "
    "correlate or take the maximum of an empty array and never index a peak outside the correlation (a query longer than the reference, by length or by its bit "
    "vector, gets an empty result: where defect D5 was); the numerical callees (FFT seeding, refinement, Aligner.align) are assumed contracts "
    "(result types only). BOUNDED: the whole program on generated well-formed CMAP sets with degenerate molecules over-weighted, all output modes and several "
    "parameter settings: no exception, well-formed files, every written file (zero-record ones included) is read back by the project's XMAP reader.",
    bounded=_lazy('bcheck.c07', 'bounded'), replay=_lazy('bcheck.c07', 'replay'),
    technique='deductive safety obligations (own VC generator + z3) on the per-query glue; bounded run-time contract on Program.run and the XMAP round trip',
    assumptions=['pandas / numpy / scipy code (readers, FFT seeding, find_peaks, DataFrame.to_csv) is exercised only by the bounded part'],
)

OMP = 'src/correlation/optical_map.py::OpticalMap.'
PLANS['C01'] = Plan(
    'C01', [AP + 'deduplicate', AP + '__deduplicateByKey', OMP + 'getPositionsWithSiteIds', AE + '__getAlignedPairs',
            SF + '_AlignmentSegmentBuilder.getSegments', 'src/alignment/segment_chainer.py::SegmentChainer.chain',
            'src/alignment/segments.py::_SegmentPairWithConflict.__trimSegmentsAtOptimalPosition',
            'src/alignment/segments.py::_SegmentPairWithConflict.resolveConflict', 'src/alignment/segments.py::AlignmentSegment.getReferenceLabels',
            'src/alignment/segments.py::AlignmentSegment.getQueryLabels', AE + 'align', AE + '__getNotAlignedPositions',
            'src/alignment/aligner.py::Aligner.getSegments', 'src/alignment/aligner.py::Aligner.align#peaks', 'src/alignment/aligner.py::Aligner.align#peak',
            'src/alignment/alignment_results.py::AlignmentResultRow.resolve', 'src/alignment/segment_chainer.py::SequentialityScorer.getScore'] + CONFLICT_CHAIN, 'other',
    "Deductive links (proved for all inputs): label numbers handed to the pairing step are shift+1..shift+n of the named map (getPositionsWithSiteIds), "
    "candidates pair window labels with query labels (__getAlignedPairs), after the two de-duplication passes a peak's pairs are one-to-one on both label "
    "numbers with strictly increasing reference labels (deduplicate), segments are contiguous runs of that list (segment builder), the chain is a "
    "sub-list with each segment once and never joins two segments that overlap by more than half of the shorter one (chain; getScore returns -inf exactly "
    "then, for both join-score variants and both strands); the conflict cut is made on the label table chosen by the seed-peak order and at each segment's own m-th label "
    "(resolveConflict, label tables, equal-index cut); conflict resolution never adds or moves positions (every resulting segment is an input segment or a "
    "sub-sequence of one, see C15), so every pair of every candidate row (Aligner.align, both argument shapes) and of every joined record "
    "(AlignmentResultRow.resolve: at most two segments, each derived from the FIRST segment of a part) is a pair produced by the pairing step for one of the "
    "seed peaks. BOUNDED: the composed statement (strict query monotonicity per strand, disjointness across the segments "
    "of a record, joined records, at least one pair, every file of every mode, every candidate row) is a run-time contract on the records written by the real "
    "program and on the candidates it builds, on generated CMAP sets. Cross-segment disjointness is genuinely violated by the pinned code through the two "
    "known conflict-resolution findings (C15 K1/K2); a failing record is attributed to them only if the conflict monitor saw that mechanism for that query.",
    bounded=_lazy('bcheck.c01', 'bounded'), replay=_lazy('bcheck.c01', 'replay'),
    technique='deductive per-function contracts (own VC generator + z3) for the per-peak links; bounded run-time contract on every record and candidate',
)
PLANS['C02'] = Plan(
    'C02', [OMP + 'trim', OMP + 'getPositionsWithSiteIds', AR + 'create', AR + 'getUnalignedFragments', AR + 'check_overlap', AR + 'resolve',
            'src/alignment/alignment_results.py::AlignmentResults.resolve', 'src/alignment/aligner.py::Aligner.align#peaks', 'src/alignment/aligner.py::Aligner.align#peak',
            WCF + '__getPrimaryCorrelations', WCF + '__getSecondaryCorrelation', WCF + '__getAlignmentRow#checked', WCF + '__align', WCF + 'execute',
            'src/correlation/optical_map.py::OpticalMap.getInitialAlignment', 'src/correlation/optical_map.py::InitialAlignment.refine',
            'src/correlation/optical_map.py::OpticalMap.trim#wellformed'], 'other',
    "Deductive links: OpticalMap.trim (first label at 0, distances kept, length = last-first+1, id kept) and getPositionsWithSiteIds (label numbers refer to the "
    "whole molecule via shift; reverse strand mirrors about length-1, i.e. measures from the last label of a trimmed query); AlignmentResultRow.create derives "
    "RefStart/RefEnd as the smallest/largest reference coordinate of any pair and QryStart/QryEnd as the query coordinates of those two pairs, swapped on the "
    "reverse strand, and passes ids/lengths/strand through; every fragment handed to the second pass (getUnalignedFragments) carries the whole query's "
    "id and length, is a slice of the query's positions and has shift = slice start, so second-pass label numbers refer to the whole query; a candidate row "
    "carries the ids and lengths of the two maps it was aligned on (Aligner.align); a joined record is built only from two records of the same query, "
    "REFERENCE and strand (AlignmentResults.resolve + check_overlap) and carries their ids, lengths and strand (AlignmentResultRow.resolve), so its pairs "
    "are labels of the reference it names; and the whole per-query glue: every row returned by _WorkflowCoordinator.execute names one of the query maps (rows in "
    "query order, each query at most once) and one of the reference maps - seeding keeps the maps it was given (getInitialAlignment), the refined "
    "correlation is about the maps of the seed's own primary correlation (__getSecondaryCorrelation, refine), the candidate row carries their ids, lengths and "
    "strand (__getAlignmentRow#checked, Aligner.align), the best candidate is one of them (__align); the preconditions of all these (maps with at least one "
    "label, ascending non-negative coordinates) are the class invariant of OpticalMap, established by the reader (bounded, C17) and preserved by trim and by "
    "the second-pass fragments (obligations at their constructor calls). BOUNDED: every record of every "
    "file of the real program is re-derived from the CMAP *text* with independent parsers (ids, lengths, start/end coordinates per orientation, entry ids, "
    "second-pass records numbered in whole-query labels).",
    bounded=_lazy('bcheck.c02', 'bounded'), replay=_lazy('bcheck.c02', 'replay'),
    technique='deductive contracts for trimming and label numbering; bounded re-derivation of every record field from the input text',
)
PLANS['C04'] = Plan(
    'C04', [SEG + 'AlignmentSegment.create', SF + '_AlignmentSegmentBuilder.getSegments', AE + '__getAlignedPairs', AP + 'getScoredPosition',
            'src/alignment/alignment_position.py::NotAlignedPosition.getScoredPosition',
            'src/alignment/alignment_position_scorer.py::AlignmentPositionScorer.getScoredPositions', AR + 'create',
            'src/workflow_coordinator_factory.py::WorkflowCoordinatorFactory.create', 'src/alignment/aligner.py::Aligner.getSegments',
            'src/alignment/segments.py::_SegmentPairWithConflict.__trimSegmentsAtOptimalPosition',
            'src/alignment/segments.py::_SegmentPairWithConflict.__trimSegmentsAtOptimalPosition#geometry',
            'src/alignment/aligner.py::Aligner.align#peaks', 'src/alignment/aligner.py::Aligner.align#peak', RSV + 'resolveConflicts',
            SGP + 'AlignmentSegment.__sub__#segment', SGP + 'AlignmentSegment.__sub__#positions'], 'other',
    "Deductive links: a candidate's offset is query position - (reference position - seed) and within maxDistance (__getAlignedPairs), a pair scores sp - dp*|offset| and an unpaired label su (getScoredPosition x2, getScoredPositions element-wise), a segment's score is "
    "the sum of its members' scores (AlignmentSegment.create; every trim goes through it), builder segments are contiguous runs of the scored list, a row's "
    "confidence is the sum of its segment scores (AlignmentResultRow.create), the per-peak composition Aligner.getSegments uses the window [peak, peak + query "
    "length] and discharges every callee precondition, and every command-line value reaches the component that uses it "
    "(WorkflowCoordinatorFactory.create, symbolic execution of all constructors); the candidate row of Aligner.align (after conflict resolution) has "
    "Confidence = sum of its segment scores, each non-empty segment carries one of the given seed peaks and scores exactly the sum of the scores of the positions it "
    "still has (trimming goes through __sub__ -> create). BOUNDED: "
    "Confidence of every returned row and every candidate is recomputed from the raw maps, each segment's peak position and the parameters passed on the "
    "command line (-sp/-dp/-su/-d swept), labels strictly inside a segment's span are all accounted for, none twice; the Confidence column equals it to 2 decimals.",
    bounded=_lazy('bcheck.c04', 'bounded'), replay=_lazy('bcheck.c04', 'replay'),
    technique='deductive contracts for offset and segment score; bounded recomputation of every confidence from raw maps and command-line parameters',
)
PLANS['C05'] = Plan(
    'C05', ['src/correlation/peaks_selector.py::PeaksSelector.selectPeaks', WCF + '__getBestAlignment', WCF + 'execute',
            'src/alignment/alignment_results.py::AlignmentResults.filterOutSubsequentAlignmentsForSingleQuery',
            'src/multi_pass_workflow_coordinator.py::_MultiPassWorkflowCoordinator.execute', WCF + '__align', WCF + '__getPrimaryCorrelations', 'src/program.py::Program.run',
            'src/correlation/optical_map.py::OpticalMap.getInitialAlignment', 'src/correlation/optical_map.py::InitialAlignment.create',
            'src/correlation/optical_map.py::CorrelationResult.createPeaks'], 'other',
    "Deductive links: selectPeaks keeps the peaksCount highest-scoring peaks in descending order; __getBestAlignment returns a maximal-confidence candidate; "
    "filterOutSubsequentAlignmentsForSingleQuery keeps one input row per query id, of maximal confidence, in ascending id order; the mode logic of "
    "_MultiPassWorkflowCoordinator.execute returns / writes the stated row lists per mode (ghost log of the writes; best mode: ascending ids, contains every "
    "joined row and the first-pass row of every other query). BOUNDED: at most one record per query in the main file of every mode and in the pass files of separate/all, the first-pass record carries the maximal "
    "confidence among the captured candidates (at most peaksCount), best mode has exactly one record for every aligned query in ascending id; on generated sets.",
    bounded=_lazy('bcheck.c05', 'bounded'), replay=_lazy('bcheck.c05', 'replay'),
    technique='deductive contracts for seed selection and best-candidate choice; bounded run-time contract on the files of all modes',
)

PLANS['C17'] = Plan(
    'C17', [OMP + 'trim', OMP + 'trim#wellformed', 'lemma::C17::trim_is_idempotent', 'src/program.py::Program.__readMaps'], 'other',
    "Deductive part (proved for all maps): OpticalMap.trim keeps the number of labels, moves the first label to 0, keeps every inter-label distance, sets the length "
    "to last-first+1 and keeps the id; idempotence trim(trim(m)) = trim(m) is a lemma over that contract. BOUNDED: CmapReader (pandas) on generated CMAP text "
    "(arbitrary ids, 0-8 labels, one-decimal coordinates, shuffled rows, extra columns, label-less molecules, id filters) against an independent parser.",
    bounded=_lazy('bcheck.c17', 'bounded'), replay=_lazy('bcheck.c17', 'replay'),
    technique='deductive contract + lemma for trimming (own VC generator + z3); bounded differential check of the pandas reader',
    assumptions=['CmapReader / BionanoFileReader (pandas): bounded only'],
)
PLANS['C18'] = Plan(
    'C18', ['src/correlation/bionano_alignment.py::BionanoAlignment.parse'], 'other',
    "Deductive part: BionanoAlignment.parse stores int() of the column of the same meaning in each field (no transposition). BOUNDED: the writer and reader go "
    "through pandas (to_csv / read_csv / DataFrame.apply) and string formatting, outside the verifier: every file written by the real program on generated sets "
    "is read back and compared field by field with the text; pair-string parsing is enumerated on short strings.",
    bounded=_lazy('bcheck.c18', 'bounded'), replay=_lazy('bcheck.c18', 'replay'),
    technique='bounded round-trip contract on the real writer/reader; deductive contract for the field wiring of BionanoAlignment.parse',
    assumptions=['XmapReader.writeAlignments / readAlignments (pandas, string formatting): bounded only'],
)

PLANS['C19'] = Plan(
    'C19', ['src/diagnostic/alignment_comparer.py::AlignmentRowComparer.__getCoverage', 'src/diagnostic/alignment_comparer.py::AlignmentComparison.create',
            'src/diagnostic/alignment_comparer.py::AlignmentRowComparer.compare'], 'other',
    "Deductive part: AlignmentRowComparer.__getCoverage lies in [0,1], is 1 for an empty list or no exclusive pairs, and equals (n-d)/n (no division by zero); "
    "AlignmentComparison.create: overlapping + nonOverlapping + firstOnly + secondOnly = number of comparison rows, every row falling in exactly one of the four "
    "classes (base and step of the induction over the rows discharged; induction schema applied at the meta level; needs identity 0 on rows present in one set "
    "only); AlignmentRowComparer.compare: which list goes into which measure - each coverage is computed from its OWN combined pair list and its own exclusive "
    "pairs, identity from the two combined lists, all three measures in [0,1] (set difference, source combination and difflib ratio as assumed contracts). "
    "BOUNDED: AlignmentComparer.compare / AlignmentRowComparer.compare use dict, set and difflib.SequenceMatcher, outside the verifier: all pairs of small "
    "alignment sets (with duplicated keys, empty and duplicated-label pair lists), both settings of combineMultipleQuerySources: key partition, set "
    "differences, measures in [0,1], reflexivity, swap symmetry.",
    bounded=_lazy('bcheck.c19', 'bounded'), replay=_lazy('bcheck.c19', 'replay'),
    technique='bounded exhaustive small-scope contract on the real comparer; deductive contracts for the coverage formula and for the partition of the rows into the four counts',
    assumptions=['dict / set / difflib based comparison: bounded only'],
)
PLANS['C20'] = Plan(
    'C20', ['sv/molecule_indels.py::look_for_indels_in_breakage', 'sv/segment_indels.py::look_for_indels_in_breakage'], 'other',
    "Deductive (second sentence): both indel finders are verified (partial correctness: KeyError / IndexError end the run) with loop invariants over the "
    "two result lists and ghost lists naming the source of every call: a call carries the ids of ONE given alignment, its four coordinates are those of the "
    "label pair at the breakpoint and of the next aligned pair in the given maps (Python indexing), Length = |reference gap| - |query gap|, and its type - and "
    "the list it is filed under, 'insertion' first as write_indel_file reads them - is 'insertion' exactly when Length < 0. Dicts are read-only arguments "
    "(DICT kind: has / get / insertion-ordered tables); a table row is a fixed-length row. BOUNDED (first sentence): cluster_indels mutates the previous "
    "cluster through an alias and concatenates ids as strings - outside the VC generator. The four clustering clauses are a run-time contract on the real "
    "cluster_indels over all short sorted call lists around the blur distance (exactly at / inside / outside, types and chromosomes mixed) and random longer "
    "lists; write_indel_file is re-read; the two indel finders are also run on synthetic alignments around both size bands (Length, type, band).",
    bounded=_lazy('bcheck.c20', 'bounded'), replay=_lazy('bcheck.c20', 'replay'),
    technique='deductive contracts on the two indel finders (own VC generator, z3) + bounded exhaustive small-scope run-time contract on the real cluster_indels / write_indel_file',
)

PLANS['C08'] = Plan(
    'C08', ['src/multi_pass_workflow_coordinator.py::_MultiPassWorkflowCoordinator.execute', 'src/multi_pass_workflow_coordinator.py::_MultiPassWorkflowCoordinator.saveAdditionalOutput', AR + 'check_overlap',
            'src/alignment/alignment_results.py::AlignmentResults.filterOutSubsequentAlignmentsForSingleQuery',
            'src/alignment/alignment_results.py::AlignmentResults.resolve', 'src/alignment/alignment_results.py::AlignmentResultRow.resolve',
            SGP + 'AlignmentSegment.checkForConflicts', SGP + '_SegmentPairWithConflict.resolveConflict', SGP + '_SegmentPairWithNoConflict.resolveConflict',
            SGP + 'AlignmentSegment.__sub__#segment', SGP + 'AlignmentSegment.__sub__#positions'], 'other',
    "Deductive links: _MultiPassWorkflowCoordinator.execute is verified once with a symbolic output mode and a ghost log of the additional-file writes: "
    "separate returns filter(first pass) and writes filter(second pass) to _1; all returns the joined rows and writes filter(first) to _1, filter(second) to _2; "
    "joined returns the joined rows and writes the un-joined rows to _1 - the same callee results in every mode, so the file equalities between modes follow by "
    "congruence; the join is called once, on filter(first)+filter(second), with the configured maxDifference; check_overlap is true only for the same strand and "
    "reference with a reference gap <= maxDifference; AlignmentResults.resolve (two nested groupby loops, ghost maps row -> place) creates a joined row only "
    "for two input rows of the same query, reference and strand whose gap is at most the maxDifference it was given, every un-joined row is an input row, and "
    "every input row is un-joined or one of the two parts of a joined row (its precondition, at most two rows per reference and query, is discharged at the "
    "call site from the de-duplication contract). The row-level join AlignmentResultRow.resolve is verified (partial correctness): the joined record carries the first part's ids, lengths and strand, has "
    "at most two segments, each the FIRST segment of one part or rebuilt from a sub-sequence of its positions - hence its pairs are a subset of the union of the two parts' pairs - and its Confidence is the sum of its segment scores (that only the first segment of each part takes part is known finding K3, now also visible as a proved postcondition). BOUNDED: the four multi-pass modes of the real program on identical generated inputs (indel-containing and chimeric queries over-weighted, three "
    "maxDifference values); all clauses of the statement are evaluated on the XMAP text with an independent parser.",
    bounded=_lazy('bcheck.c08', 'bounded'), replay=_lazy('bcheck.c08', 'replay'),
    technique='bounded differential run-time contract across output modes (deductive part: see functions_under_contract)',
)

PLANS['C06'] = Plan(
    'C06', ['src/correlation/optical_map.py::toRelativeGenomicPositions', 'src/correlation/sequence_generator.py::SequenceGenerator.positionsToSequence',
            AE + '__getAlignedPairs', 'src/correlation/optical_map.py::OpticalMap.getSequence', 'src/correlation/optical_map.py::CorrelationResult.create',
            'src/correlation/optical_map.py::CorrelationResult.createPeaks', 'src/correlation/optical_map.py::InitialAlignment.refine',
            'src/correlation/optical_map.py::InitialAlignment.create', 'src/correlation/optical_map.py::OpticalMap.getInitialAlignment', 'src/program.py::Program.__readMaps'], 'exploration',
    "Decided by a BOUNDED run-time contract on Program.run: that FFT cross-correlation plus scipy find_peaks seeds the true diagonal is floating-point "
    "numerics outside any contract within reach. Planted exact copies of interior reference windows (class stated in the property) must be reported exactly. "
    "Deductive contributions reported alongside and not counted towards the level: bins are counted from the window start and a bin index converts to the "
    "bin centre (within resolution/2), and candidates within maxDistance of the seed diagonal are exactly enumerated with offset = query - (reference - seed); the "
    "coordinate bookkeeping of the refinement step (InitialAlignment.refine, OpticalMap.getSequence, CorrelationResult.create / createPeaks): the reference is "
    "vectorised from seed - margin to seed + query length + margin and the secondary peaks are converted back with the SAME origin and resolution, each peak at "
    "the centre of a bin of that window; maps and strand are passed on; the primary seeding step (OpticalMap.getInitialAlignment, InitialAlignment.create) "
    "vectorises both maps with the same generator from their origin, keeps at most peaksCount peaks at bin centres counted from the reference origin, and "
    "gives a query that does not fit into the reference an empty result. The FFT correlation and scipy find_peaks enter as library contracts that say nothing "
    "about values.",
    bounded=_lazy('bcheck.c06', 'bounded'), replay=_lazy('bcheck.c06', 'replay'),
    technique='bounded run-time contract on the real program for planted exact copies (deductive lemmas on binning and pairing reported alongside)',
)

PLANS['C11'] = Plan(
    'C11', ['lemma::C11::mirror_image_read_forwards_equals_query_read_on_reverse_strand', OMP + 'getPositionsWithSiteIds',
            'src/workflow_coordinator.py::_WorkflowCoordinator.__getPrimaryCorrelations', OMP + 'getSequence',
            'src/alignment/segment_chainer.py::SequentialityScorer.getScore'], 'exploration',
    "Decided by a BOUNDED run-time contract on the real program: that binning/FFT seeding gives the same seed peaks for a query and its mirror image is numerics "
    "outside any contract. Lattice-commensurate sets; every query is run together with its mirror image and the two first-pass records must mirror each "
    "other (reference, opposite orientation, same reference labels, k -> N+1-k, same Confidence). Deductive contributions reported alongside: the mirror lemma "
    "(reading the mirror image forwards yields the same coordinate sequence as reading the query on the reverse strand, with labels k <-> N+1-k, from the "
    "contract of getPositionsWithSiteIds) the strand-independence of the join score (getScore contract, both strands), and the seeding glue: __getPrimaryCorrelations correlates the forward and the reverse strand with the SAME reference, generator, minPeakDistance and peaksCount and no further argument, and getSequence reads the same bins backwards on the reverse strand.",
    bounded=_lazy('bcheck.c11', 'bounded'), replay=_lazy('bcheck.c11', 'replay'),
    technique='bounded differential run-time contract (query vs mirror image) on the real program; mirror lemma over the numbering contract reported alongside',
)

PLANS['C10'] = Plan(
    'C10', [AR + 'getUnalignedFragments', 'src/alignment/alignment_results.py::AlignmentResults.filterOutSubsequentAlignmentsForSingleQuery',
            'src/workflow_coordinator.py::_WorkflowCoordinator.execute',
            'src/multi_pass_workflow_coordinator.py::_MultiPassWorkflowCoordinator.getSecondPassAlignmentRows#checked', 'src/program.py::Program.run', 'src/program.py::Program.__readMaps'], 'exploration',
    "Decided by a BOUNDED differential run-time contract on the real program: file order and id filters go through pandas, outside any contract within "
    "reach. The records of a run on the full files are compared per query with runs on subsets, permutations, row-shuffled files and -qId/-rId selections. "
    "Deductive contributions reported alongside: the only cross-query access, the lookup in getUnalignedFragments, returns the map with the row's own query id "
    "wherever it sits in the list; the per-query filter groups by query id only; _WorkflowCoordinator.execute hands each query to the per-query procedure as "
    "its own work item (referenceMaps, q), in order; the second pass (getSecondPassAlignmentRows, verified under the stated precondition on the first-pass "
    "rows) searches the SAME reference list as the first pass - not a selection that depends on the other molecules - on exactly the unaligned fragments.",
    bounded=_lazy('bcheck.c10', 'bounded'), replay=_lazy('bcheck.c10', 'replay'),
    technique='bounded differential run-time contract on the real program (variants of the same input)',
)

PLANS['C09'] = Plan(
    'C09', ['src/workflow_coordinator.py::_WorkflowCoordinator.execute', 'src/program.py::Program.run'], 'other',
    "Contracts are silent on scheduling; what is checked deductively is the sequential core, as STATIC obligations on the AST of /repo on every run: the map "
    "used by _WorkflowCoordinator.execute is p_tqdm.p_imap (assumed contract: results in input order for every num_cpus); the per-run service objects are not "
    "mutated between queries (only AlignerEngine.iteration, which reaches results only through AlignedPair.source, itself read only by repr/hash/copy); no "
    "module-level mutable state and no clock/randomness on the pipeline path. Hence the row list is map(F, queries) for a function F of (references, query, "
    "arguments): _WorkflowCoordinator.execute is under contract (one work item (referenceMaps, q) per query, in query order, through the assumed ordered map, "
    "then an order-preserving filter), and Program.run hands the whole query list to the coordinator in ONE execute call (static premise; if it fails the "
    "verdict is UNDECIDED, the property itself being decided by the bounded part). BOUNDED (the only part that exercises real scheduling): the real CLI "
    "with worker counts 1..16, repetitions, perturbed completion orders, and one set of 300 queries (results must not depend on how much work one worker gets).",
    bounded=_lazy('bcheck.c09', 'bounded'), replay=_lazy('bcheck.c09', 'replay'), static=_lazy('bcheck.c09', 'static_obligations'),
    technique='static frame obligations on the real AST under an assumed ordered-map contract; bounded differential CLI runs across worker counts and perturbed schedules',
    assumptions=['p_tqdm.p_imap yields f(x0), f(x1), ... in input order for every num_cpus (assumed library contract)',
                 'the quantifier over schedules rests on that assumption; real scheduling is exercised only by the bounded runs'],
)

NOT_APPLICABLE = {}
FIX_COMMITS = ['a1f5353', '24a396c', 'd3d25c6', '9ca2be3', 'e4731ef', '77613ad', 'f7d663a', 'd05bf62', '5771382']
