"""mutate.py [--filter substr] [--tests] [--out file]: mutation analysis of the contracts' strength.

For every function under (non-trusted) contract, small AST mutants of the REAL function are generated (comparison flips, boundary
shifts, arithmetic swaps, and/or swaps, negation removal, constant +-1, slice bound shifts, dropped statements), each written into a
scratch copy of /repo's sources under /tmp (removed afterwards), and the function's contract is re-verified against the mutant
(deductive part only, one function, quick budgets).  With --tests the repository's test suite is run on the mutant as well.

Output: one line per mutant  <fid> <mutation> proof=<killed|survived|left-subset> tests=<pass|fail|->  and a summary.  A mutant
that survives both is either equivalent or shows a contract that is too weak - review by hand.  Developer tool: not registered in
MANIFEST.json, nothing here decides a property."""
from __future__ import annotations

import argparse
import ast
import copy
import json
import os
import shutil
import subprocess
import sys
import tempfile
import time
from concurrent.futures import ProcessPoolExecutor

HERE = os.path.dirname(os.path.abspath(__file__))
ROOT = os.path.dirname(HERE)
sys.path.insert(0, ROOT)

CMP = {ast.Lt: ast.LtE, ast.LtE: ast.Lt, ast.Gt: ast.GtE, ast.GtE: ast.Gt, ast.Eq: ast.NotEq, ast.NotEq: ast.Eq}
BIN = {ast.Add: ast.Sub, ast.Sub: ast.Add, ast.Mult: ast.Add}


def mutants_of(fn: ast.AST):
    """yield (description, mutated copy of fn)"""
    nodes = list(ast.walk(fn))
    for idx, n in enumerate(nodes):
        def redo(f, desc):
            m = copy.deepcopy(fn)
            target = list(ast.walk(m))[idx]
            if f(target) is not False:
                return desc, m
            return None
        if isinstance(n, ast.Compare) and len(n.ops) == 1 and type(n.ops[0]) in CMP:
            new = CMP[type(n.ops[0])]
            yield redo(lambda t: t.ops.__setitem__(0, new()), f"L{n.lineno}: {type(n.ops[0]).__name__}->{new.__name__}")
        if isinstance(n, ast.BinOp) and type(n.op) in BIN:
            new = BIN[type(n.op)]
            yield redo(lambda t: setattr(t, 'op', new()), f"L{n.lineno}: {type(n.op).__name__}->{new.__name__}")
        if isinstance(n, ast.BoolOp):
            new = ast.Or if isinstance(n.op, ast.And) else ast.And
            yield redo(lambda t: setattr(t, 'op', new()), f"L{n.lineno}: {type(n.op).__name__}->{new.__name__}")
        if isinstance(n, ast.UnaryOp) and isinstance(n.op, ast.Not):
            def drop_not(t):
                t.op = ast.UAdd() if False else t.op
                return None
            m = copy.deepcopy(fn)
            tgt = list(ast.walk(m))[idx]
            # replace `not x` by `x`: find the parent field holding tgt
            for p in ast.walk(m):
                for fld, val in ast.iter_fields(p):
                    if val is tgt:
                        setattr(p, fld, tgt.operand)
                    elif isinstance(val, list) and any(v is tgt for v in val):
                        val[[i for i, v in enumerate(val) if v is tgt][0]] = tgt.operand
            yield f"L{n.lineno}: not-removed", m
        if isinstance(n, ast.Constant) and isinstance(n.value, int) and not isinstance(n.value, bool) and abs(n.value) <= 3:
            for d in (1, -1):
                yield redo(lambda t, d=d: setattr(t, 'value', t.value + d), f"L{n.lineno}: const {n.value}->{n.value + d}")
        if isinstance(n, ast.Slice):
            for part in ('lower', 'upper'):
                if getattr(n, part) is not None:
                    yield redo(lambda t, part=part: setattr(t, part, ast.BinOp(left=getattr(t, part), op=ast.Add(), right=ast.Constant(value=1))),
                               f"L{n.lineno}: slice {part}+1")
        if isinstance(n, ast.If) and not n.orelse and len(n.body) == 1 and isinstance(n.body[0], (ast.Continue, ast.Return, ast.Break)):
            yield redo(lambda t: setattr(t, 'test', ast.Constant(value=False)), f"L{n.lineno}: guard-dropped")
        if isinstance(n, ast.Attribute) and n.attr in ('reference', 'query') and isinstance(n.ctx, ast.Load):
            other = 'query' if n.attr == 'reference' else 'reference'
            yield redo(lambda t: setattr(t, 'attr', other), f"L{n.lineno}: .{n.attr}->.{other}")
        # glue code: transposed arguments, a sibling attribute (referenceX <-> queryX), a dropped call statement
        if isinstance(n, ast.Call) and len(n.args) >= 2 and not any(isinstance(a, ast.Starred) for a in n.args[:2]):
            yield redo(lambda t: t.args.__setitem__(slice(0, 2), [t.args[1], t.args[0]]), f"L{n.lineno}: first two arguments swapped")
        if isinstance(n, ast.Attribute) and isinstance(n.ctx, ast.Load) and n.attr not in ('reference', 'query') and \
                (n.attr.startswith('reference') or n.attr.startswith('query')):
            other = ('query' + n.attr[len('reference'):]) if n.attr.startswith('reference') else ('reference' + n.attr[len('query'):])
            yield redo(lambda t: setattr(t, 'attr', other), f"L{n.lineno}: .{n.attr}->.{other}")
        if isinstance(n, ast.Expr) and isinstance(n.value, ast.Call):
            yield redo(lambda t: setattr(t, 'value', ast.Constant(value=None)), f"L{n.lineno}: call statement dropped")
        if isinstance(n, ast.Name) and isinstance(n.ctx, ast.Load) and n.id in ('True', 'False'):
            pass
        if isinstance(n, ast.Constant) and isinstance(n.value, bool):
            yield redo(lambda t: setattr(t, 'value', not t.value), f"L{n.lineno}: {n.value}->{not n.value}")


def write_mutant(repo, rel, fn_node, mutated, dst):
    shutil.copytree(os.path.join(repo, 'src'), os.path.join(dst, 'src'))
    shutil.copytree(os.path.join(repo, 'sv'), os.path.join(dst, 'sv'))
    p = os.path.join(dst, rel)
    lines = open(p).read().split('\n')
    first = min([fn_node.lineno] + [d.lineno for d in fn_node.decorator_list]) - 1
    indent = ' ' * fn_node.col_offset
    text = ast.unparse(ast.fix_missing_locations(mutated))
    new = [indent + l if l else l for l in text.split('\n')]
    lines[first:fn_node.end_lineno] = new
    open(p, 'w').write('\n'.join(lines))


def run_one(job):
    fid, rel, qual, desc, src_text, first, last, col, with_tests, repo = job
    d = tempfile.mkdtemp(prefix='mut_')
    try:
        shutil.copytree(os.path.join(repo, 'src'), os.path.join(d, 'src'))
        shutil.copytree(os.path.join(repo, 'sv'), os.path.join(d, 'sv'))
        p = os.path.join(d, rel)
        lines = open(p).read().split('\n')
        indent = ' ' * col
        lines[first:last] = [indent + l if l else l for l in src_text.split('\n')]
        open(p, 'w').write('\n'.join(lines))
        try:
            compile(open(p).read(), p, 'exec')
        except SyntaxError:
            return fid, desc, 'invalid', '-', 0
        t0 = time.time()
        env = dict(os.environ, COMA_REPO=d, PYVC_ONE=fid)
        r = subprocess.run([sys.executable, os.path.join(HERE, 'mutate.py'), '--verify-one', fid, '--repo', d], env=env, capture_output=True, text=True, timeout=900)
        proof = (r.stdout.strip().splitlines() or ['crash'])[-1]
        tests = '-'
        if with_tests:
            shutil.copytree(os.path.join(repo, 'tests'), os.path.join(d, 'tests'))
            for f in ('setup.py', 'pyproject.toml', 'setup.cfg', 'pytest.ini', 'conftest.py'):
                if os.path.exists(os.path.join(repo, f)):
                    shutil.copy(os.path.join(repo, f), d)
            tr = subprocess.run(['/venv/bin/python', '-m', 'pytest', '-q', '-x', '-p', 'no:cacheprovider'], cwd=d, capture_output=True, text=True, timeout=900)
            tests = 'pass' if tr.returncode == 0 else 'fail'
        return fid, desc, proof, tests, round(time.time() - t0, 1)
    except subprocess.TimeoutExpired:
        return fid, desc, 'timeout', '-', 900
    finally:
        shutil.rmtree(d, ignore_errors=True)


def verify_one(fid, repo):
    import vcheck
    r = vcheck.verify_one((fid, repo, 'quick', 0))
    if r['status'] != 'ok':
        print('left-subset' if r['status'] != 'checker-crash' else 'crash')
        return
    bad = [o for o in r['obligations'] if o['status'] != 'discharged']
    if any(res == 'unsat' for _, res in r.get('sat_checks', [])):
        print('killed:vacuous-hypotheses(checker-error in vcheck)')      # contradictory path facts: vcheck reports CHECKER-ERROR, never "held"
        return
    if not r['obligations']:
        print('left-subset')
    elif bad:
        kinds = sorted({o['status'] for o in bad})
        print('killed:' + ','.join(kinds) + ':' + bad[0]['oid'].split('::', 2)[-1][:80])
    else:
        print('survived')


def main():
    ap = argparse.ArgumentParser()
    ap.add_argument('--filter', default='')
    ap.add_argument('--tests', action='store_true')
    ap.add_argument('--out', default=None)
    ap.add_argument('--repo', default='/repo')
    ap.add_argument('--verify-one', default=None)
    ap.add_argument('--max-per-fn', type=int, default=60)
    a = ap.parse_args()
    if a.verify_one:
        verify_one(a.verify_one, a.repo)
        return
    from pyvc.extract import Repo
    from pyvc.run import load_specs
    specs = load_specs()
    repo = Repo(a.repo)
    jobs = []
    for fid, spec in specs.items():
        if fid.startswith('lemma::') or fid.startswith('@') or getattr(spec, 'trusted', False) or a.filter not in fid:
            continue
        fn, module, ci = repo.find_function(spec.file, spec.qualname)
        muts = [m for m in mutants_of(fn) if m]
        seen = set()
        first = min([fn.lineno] + [d.lineno for d in fn.decorator_list]) - 1
        for desc, m in muts[:a.max_per_fn]:
            try:
                text = ast.unparse(ast.fix_missing_locations(m))
            except Exception:
                continue
            if text in seen or text == ast.unparse(fn):
                continue
            seen.add(text)
            jobs.append((fid, spec.file, spec.qualname, desc, text, first, fn.end_lineno, fn.col_offset, a.tests, a.repo))
    print(f"{len(jobs)} mutants", flush=True)
    res = []
    with ProcessPoolExecutor(max_workers=14) as ex:
        for r in ex.map(run_one, jobs):
            res.append(r)
            print(f"{r[0].split('::')[-1]:60s} {r[1]:32s} proof={r[2]:60s} tests={r[3]} {r[4]}s", flush=True)
    killed = sum(1 for r in res if r[2].startswith('killed'))
    left = sum(1 for r in res if r[2] in ('left-subset', 'crash', 'timeout'))
    surv = [r for r in res if r[2] == 'survived']
    print(f"SUMMARY mutants={len(res)} killed_by_proof={killed} outside_subset={left} survived_proof={len(surv)} "
          f"survived_proof_and_tests={sum(1 for r in surv if r[3] == 'pass')}")
    if a.out:
        json.dump([dict(fid=r[0], mutation=r[1], proof=r[2], tests=r[3], seconds=r[4]) for r in res], open(a.out, 'w'), indent=1)


if __name__ == '__main__':
    main()
