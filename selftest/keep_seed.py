"""keep_seed.py <src seed dir> <name> <property> <caught_by text>: store a confirmed seeded change under /verif/seeded/<name>/"""
import json, os, shutil, sys
src, name, pid, caught = sys.argv[1:5]
dst = os.path.join(os.path.dirname(os.path.abspath(__file__)), '..', 'seeded', name)
os.makedirs(dst, exist_ok=True)
for f in ('patch.diff', 'demo.py'):
    shutil.copy(os.path.join(src, f), os.path.join(dst, f))
meta = json.load(open(os.path.join(src, 'meta.json')))
meta.update(property=pid, confirmed_by_me=["selftest/eval_seed.sh: demo exits 0 on the unmodified tree, the 165 tests pass with the change, demo exits non-zero with the change"],
            check_result=caught)
json.dump(meta, open(os.path.join(dst, 'meta.json'), 'w'), indent=1)
print('kept', name)
