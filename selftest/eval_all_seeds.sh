#!/bin/sh
# eval_all_seeds.sh [names...]: run the quick check of each kept seeded change's property against a scratch worktree carrying the change;
# prints one line per seed: <name> caught|MISSED <first FAILED-OBLIGATION / UNDECIDED line>.  Worktrees live under /tmp and are removed.
cd "$(dirname "$0")/.."
VROOT=$(pwd)
NAMES=${*:-$(ls seeded)}
for n in $NAMES; do
  P=$(echo $n | cut -d- -f1)
  WT=$(mktemp -d /tmp/evalwt_XXXX); rmdir $WT
  git -C /repo worktree add -q --detach $WT HEAD || exit 9
  if ! (cd $WT && git apply $VROOT/seeded/$n/patch.diff 2>/dev/null); then echo "$n PATCH-DOES-NOT-APPLY"; git -C /repo worktree remove --force $WT; continue; fi
  out=$(COMA_REPO=$WT timeout 1800 ./vcheck $P --tier quick 2>&1); rc=$?
  line=$(echo "$out" | grep -m1 "^FAILED-OBLIGATION" | cut -c1-220)
  und=$(echo "$out" | grep -m1 "^UNDECIDED" | cut -c1-160)
  if echo "$out" | grep -q "^VIOLATION"; then echo "$n caught(exit=$rc) $line"; else echo "$n MISSED(exit=$rc) $und"; fi
  git -C /repo worktree remove --force $WT
done
