#!/bin/sh
# eval_seed.sh <seed dir> <Cxx> [more Cxx...]: confirm a seeded change (tests pass, demo fails with / passes without) in a
# scratch worktree of /repo outside /repo and /verif, run the named checks against it (COMA_REPO), remove the worktree.
SEED=$1; shift
VROOT=$(cd "$(dirname "$0")/.." && pwd)
WT=$(mktemp -d /tmp/evalwt_XXXX); rmdir $WT
git -C /repo worktree add -q --detach $WT HEAD || exit 9
cd $WT
/venv/bin/python $SEED/demo.py >/dev/null 2>&1; echo "demo on original: exit $?"
git apply $SEED/patch.diff || { echo "PATCH DOES NOT APPLY"; git -C /repo worktree remove --force $WT; exit 9; }
/venv/bin/python -m pytest -q -p no:cacheprovider 2>&1 | tail -1
/venv/bin/python $SEED/demo.py >/dev/null 2>&1; echo "demo with change: exit $?"
cd $VROOT
for P in "$@"; do
  COMA_REPO=$WT timeout 1500 ./vcheck $P --tier quick 2>&1 | grep -v "^WARNING" | tail -6; echo "check $P exit=$?"
done
git -C /repo worktree remove --force $WT
