#!/bin/sh
# run every check's quick command with several seeds on the unchanged tree; any exit code other than 0 is printed
cd "$(dirname "$0")/.."
./setup.sh >/dev/null 2>&1
for seed in ${SEEDS:-1 2 3 4 5}; do
  for p in C01 C02 C03 C04 C05 C06 C07 C08 C09 C10 C11 C12 C13 C14 C15 C16 C17 C18 C19 C20; do
    out=$(VERIF_SEED=$seed ./vcheck $p --tier quick 2>&1); rc=$?
    if [ $rc -ne 0 ]; then echo "seed=$seed $p exit=$rc"; echo "$out" | grep -v KNOWN-FINDING | tail -4 | cut -c1-400; fi
  done
  echo "seed $seed done"
done
