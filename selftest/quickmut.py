"""quickmut.py <relpath> <old> <new> <spec filter>: copy /repo/src to a scratch dir, apply a textual
edit, run pyvc on it, remove the copy.  Developer helper for checking that contracts bite."""
import os, shutil, subprocess, sys, tempfile
rel, old, new, flt = sys.argv[1:5]
d = tempfile.mkdtemp(prefix='qm_')
try:
    shutil.copytree('/repo/src', d + '/src'); shutil.copytree('/repo/sv', d + '/sv')
    p = os.path.join(d, rel)
    s = open(p).read()
    assert old in s, 'pattern not found'
    open(p, 'w').write(s.replace(old, new, 1))
    env = dict(os.environ, COMA_REPO=d)
    r = subprocess.run([sys.executable, os.path.join(os.path.dirname(__file__), '..', 'pyvc', 'run.py'), flt] + sys.argv[5:], env=env, capture_output=True, text=True)
    print('\n'.join(l for l in r.stdout.splitlines() if 'sat(qf)' not in l)); print(r.stderr[-2000:])
finally:
    shutil.rmtree(d)
