#!/bin/sh
# run every thorough command once; prints the verdict line(s) of each
cd "$(dirname "$0")/.."
./setup.sh >/dev/null 2>&1
for p in ${PROPS:-C17 C19 C20 C03 C16 C13 C12 C14 C18 C05 C02 C07 C04 C01 C08 C15 C06 C11 C10 C09}; do
  start=$(date +%s)
  out=$(./vcheck $p --tier thorough 2>&1); rc=$?
  echo "$p thorough exit=$rc $(( $(date +%s) - start ))s"; echo "$out" | grep -v KNOWN-FINDING | tail -3 | cut -c1-300
done
