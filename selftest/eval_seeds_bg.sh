#!/bin/sh
# eval_seeds_bg.sh <round prefix, e.g. /tmp/seed3_> <Cxx>...: evaluate several fresh seeds one after the other (each against its own property),
# one log per seed under /tmp/eval_<basename>.log; removes the sub-agent's worktree /tmp/wt3_<Cxx> afterwards
PFX=$1; shift
D=$(cd "$(dirname "$0")" && pwd)
for P in "$@"; do
  $D/eval_seed.sh ${PFX}${P} $P > /tmp/eval_$(basename ${PFX})${P}.log 2>&1
  for W in /tmp/wt3_$P /tmp/wt4_$P; do [ -d $W ] && git -C /repo worktree remove --force $W 2>/dev/null; done
done
