"""vcheck: decide one property of mikoar/coma by contract-based deductive verification of the real code.

  ./vcheck Cxx --tier quick|thorough       exit 0 held / 1 violation (+ VIOLATION line) / 2 undecided / 3 checker error
  ./vcheck --replay <file>                 re-run a recorded counterexample on the real code
  ./vcheck --update-ledger                 (development) record the obligations that discharge on this tree

Every run re-reads /repo (or $COMA_REPO): the VC generator parses the real source files afresh, the
bounded monitors import src.* from that tree in fresh worker processes.  Nothing is cached.
"""
from __future__ import annotations

import argparse
import hashlib
import importlib
import json
import multiprocessing as mp
import os
import sys
import time
import traceback

HERE = os.path.dirname(os.path.abspath(__file__))
sys.path.insert(0, HERE)
REPO = os.environ.get('COMA_REPO', '/repo')

TRUSTED_BASE = [
    "pyvc (own VC generator: /verif/pyvc, symbolic execution of the real AST; cross-checked against CPython by bcheck oracles on every run)",
    "python ast module; CPython executes the source as read",
    "z3 5.1 (cvc5 1.0 consulted on unknown / in thorough tier)",
    "float-as-real: Python floats are modelled as mathematical reals",
    "schema of object fields (specs/schema.py): objects are well-typed records; immutable classes have no aliasing effects",
    "assumed library contracts (pyvc/builtins_.py): see assumptions",
]


def verify_one(args):
    fid, repo_root, tier = args[:3]
    attempt = args[3] if len(args) > 3 else 0
    try:
        if attempt:
            import z3
            z3.set_param('smt.random_seed', 11 * attempt)
            z3.set_param('sat.random_seed', 11 * attempt)
        from pyvc.extract import Repo
        from pyvc.verify import Engine
        from pyvc.run import load_specs
        from specs.schema import SCHEMA
        specs = load_specs()
        spec = specs[fid]
        eng = Engine(Repo(repo_root), SCHEMA, specs, timeout_ms=(20000 if tier == 'quick' else 60000) * (2 if attempt else 1),
                     both=(tier == 'thorough'))
        # per-function wall deadline (after it the remaining obligations get short budgets; see EngineBase.check)
        eng.deadline = time.time() + (240 if tier == 'quick' else 900) * (2 if attempt else 1)
        eng.had_unknown = False
        eng.no_long_retry = bool(attempt)      # the fresh-process attempt already runs with twice the budget and another seed
        if fid.startswith('lemma::'):
            from pyvc.lemma import run_lemma
            info = run_lemma(eng, spec)
        else:
            info = eng.verify_function(spec)
        obs = [dict(oid=o.oid, kind=o.kind, status=o.status, backend=o.backend, time_s=o.time_s,
                    model=o.model, smt2=o.smt2) for o in info['obligations']]
        return dict(fid=fid, status=info['status'], error=info['error'], fn_hash=info.get('fn_hash'),
                    file_hash=info.get('file_hash'), wall_s=info['wall_s'], obligations=obs,
                    sat_checks=eng.sat_checks, assumptions=sorted(eng.assumptions),
                    used_contracts=sorted(eng.used_contracts), paths=eng.stats['paths'],
                    ghost_sites=sorted(eng.ghost_sites_hit), serves=list(spec.serves), note=spec.note,
                    ghost_declared=sorted(getattr(spec, 'ghost_at', {})))
    except Exception:
        return dict(fid=fid, status='checker-crash', error=traceback.format_exc()[-3000:], obligations=[],
                    sat_checks=[], assumptions=[], used_contracts=[], paths=0, wall_s=0, fn_hash=None,
                    ghost_sites=[], ghost_declared=[], serves=[], note='')


def run_proofs(fids, tier):
    """one fresh process per function (z3 contexts are not shared between functions)"""
    if not fids:
        return []
    from concurrent.futures import ProcessPoolExecutor
    ctx = mp.get_context('spawn')
    out = []
    with ProcessPoolExecutor(max_workers=min(len(fids), 14), mp_context=ctx, max_tasks_per_child=1) as ex:
        futs = [(f, ex.submit(verify_one, (f, REPO, tier))) for f in fids]
        for f, fu in futs:
            try:
                out.append(fu.result(timeout=900 if tier == 'quick' else 3600))
            except Exception as e:
                out.append(dict(fid=f, status='checker-crash', error=f"worker failed: {type(e).__name__}: {e}", obligations=[],
                                sat_checks=[], assumptions=[], used_contracts=[], paths=0, wall_s=0, fn_hash=None,
                                ghost_sites=[], ghost_declared=[], serves=[], note=''))
    # an `unknown` (never a `refuted`) obligation gets one more chance in a fresh process with another solver seed and twice the budget:
    # verdicts must not flip to UNDECIDED just because the machine was busy
    retry = [i for i, r in enumerate(out) if r['status'] == 'ok' and any(o['status'] == 'unknown' for o in r['obligations'])
             and not any(o['status'] == 'refuted' for o in r['obligations'])]
    if retry:
        with ProcessPoolExecutor(max_workers=min(len(retry), 6), mp_context=ctx, max_tasks_per_child=1) as ex:
            futs = [(i, ex.submit(verify_one, (out[i]['fid'], REPO, tier, 1))) for i in retry]
            for i, fu in futs:
                try:
                    r2 = fu.result(timeout=1800 if tier == 'quick' else 5400)
                    if r2['status'] == 'ok' and all(o['status'] == 'discharged' for o in r2['obligations']):
                        r2['retried'] = True
                        out[i] = r2
                except Exception:
                    pass
    return out


def load_json(path, default):
    try:
        with open(path) as f:
            return json.load(f)
    except FileNotFoundError:
        return default


def write_replay(pid, key, payload):
    os.makedirs(os.path.join(HERE, 'replays'), exist_ok=True)
    h = hashlib.sha256((pid + key + json.dumps(payload, sort_keys=True, default=str)).encode()).hexdigest()[:10]
    path = os.path.join('replays', f"{pid}-{h}.json")
    with open(os.path.join(HERE, path), 'w') as f:
        json.dump(payload, f, indent=1, default=str)
    return path


def main():
    ap = argparse.ArgumentParser()
    ap.add_argument('prop', nargs='?')
    ap.add_argument('--tier', default=os.environ.get('VERIF_TIER', 'quick'), choices=['quick', 'thorough'])
    ap.add_argument('--replay')
    ap.add_argument('--update-ledger', action='store_true')
    ap.add_argument('--no-bounded', action='store_true')
    a = ap.parse_args()
    seed = int(os.environ.get('VERIF_SEED', '0'))
    import props
    if a.replay:
        sys.exit(do_replay(a.replay))
    if a.update_ledger:
        sys.exit(update_ledger(props))
    if a.prop not in props.PLANS:
        print(f"unknown property {a.prop}")
        sys.exit(3)
    sys.exit(check(props, a.prop, a.tier, seed, a.no_bounded))


def update_ledger(props):
    fids = sorted({f for p in props.PLANS.values() for f in p.fids})
    reps = run_proofs(fids, 'quick')
    ledger = {}
    bad = 0
    for r in reps:
        ok = sorted({o['oid'] for o in r['obligations'] if o['status'] == 'discharged'})
        notok = sorted({o['oid'] for o in r['obligations'] if o['status'] != 'discharged'})
        ledger[r['fid']] = dict(fn_hash=r['fn_hash'], file_hash=r.get('file_hash'), discharged=[o for o in ok if o not in notok],
                                count=len(r['obligations']))
        if r['status'] != 'ok' or notok:
            bad += 1
            print('NOT CLEAN', r['fid'], r['status'], notok[:5], (r['error'] or '')[-300:])
    with open(os.path.join(HERE, 'ledger.json'), 'w') as f:
        json.dump(ledger, f, indent=1, sort_keys=True)
    print(f"ledger: {len(ledger)} functions, {sum(len(v['discharged']) for v in ledger.values())} obligation ids, {bad} not clean")
    return 0


def do_replay(path):
    import props
    with open(os.path.join(HERE, path) if not os.path.isabs(path) else path) as f:
        rp = json.load(f)
    print(json.dumps({k: rp[k] for k in rp if k not in ('solver_output',)}, indent=1, default=str)[:3000])
    plan = props.PLANS.get(rp.get('property'))
    if rp.get('replayable') and plan is not None and plan.replay is not None:
        ok, observed = plan.replay(REPO, rp)
        print("replay on the real code:", "property holds on this input now" if ok else "STILL FAILS", observed)
        return 0 if ok else 1
    print("no concrete input recorded (no-failing-input-found): the failed obligation and the solver output are above")
    return 1


def check(props, pid, tier, seed, no_bounded=False):
    t0 = time.time()
    plan = props.PLANS[pid]
    ledger = load_json(os.path.join(HERE, 'ledger.json'), {})
    known = load_json(os.path.join(HERE, 'known_findings.json'), {'findings': [], 'fixed': []})
    kf = [k for k in known.get('findings', []) if k['property'] == pid]
    violations, undecided, crashes, known_lines = [], [], [], []

    # ---------------------------------------------------------------- deductive part
    reps = run_proofs(plan.fids, tier)
    n_ob = n_dis = 0
    solver_time = 0.0
    backends = {}
    fn_rows = []
    assumptions = set()
    samples = []
    failed_ob = []
    for r in reps:
        assumptions.update(r['assumptions'])
        assumptions.update('assumed contract of callee: ' + c for c in r['used_contracts'] if '[assumed]' in c)
        obs = r['obligations']
        dis = [o for o in obs if o['status'] == 'discharged']
        n_ob += len(obs)
        n_dis += len(dis)
        solver_time += sum(o['time_s'] for o in obs)
        for o in obs:
            backends[o['backend']] = backends.get(o['backend'], 0) + 1
            if o.get('smt2') and len(samples) < 2:
                samples.append(dict(obligation=o['oid'], smtlib2_head=o['smt2'][:1500]))
        unsat_checks = [w for w, res in r['sat_checks'] if res == 'unsat']
        fn_rows.append(dict(function=r['fid'], status=r['status'], source_hash=r['fn_hash'], paths=r['paths'],
                            obligations=len(obs), discharged=len(dis), wall_s=r['wall_s'],
                            vacuity_checks=len(r['sat_checks']), serves=r['serves'], contract=r['note']))
        if r['status'] == 'checker-crash':
            crashes.append(f"{r['fid']}: {r['error']}")
            continue
        if r['status'] in ('left-subset', 'no-returning-path', 'vacuous-precondition'):
            undecided.append(dict(fid=r['fid'], reason=r['status'], detail=r['error']))
        led = ledger.get(r['fid'])
        notdis = [o for o in obs if o['status'] != 'discharged']
        if not notdis:
            # vacuity: no failing obligation, so every hypothesis set must be satisfiable and ghost hooks must have fired
            if unsat_checks:
                crashes.append(f"{r['fid']}: vacuous hypotheses at {unsat_checks[:3]}")
            missing = [g for g in r['ghost_declared'] if g not in r['ghost_sites']]
            if missing:
                undecided.append(dict(fid=r['fid'], reason='ghost-site-vanished', detail=str(missing)))
            if len(obs) == 0 and r['status'] == 'ok':
                crashes.append(f"{r['fid']}: zero obligations generated")
            # (the whole source FILE must be unchanged: a private method inlined into this function may have changed, which legitimately changes the count)
            if led and r['status'] == 'ok' and led.get('file_hash') and led.get('file_hash') == r.get('file_hash') and led['fn_hash'] == r['fn_hash'] \
                    and len(obs) < led['count']:
                crashes.append(f"{r['fid']}: fewer obligations ({len(obs)}) than the ledger ({led['count']}) for an unchanged source file")
        for o in notdis:
            in_ledger = bool(led) and o['oid'] in led['discharged']
            failed_ob.append(dict(o, fid=r['fid'], in_ledger=in_ledger))

    # ---------------------------------------------------------------- static obligations on the AST
    static_failed = []
    if plan.static is not None:
        try:
            for item in plan.static(REPO):
                oid, ok, detail = item[:3]
                argument_only = len(item) > 3 and item[3] == 'argument'      # a premise of the deductive argument, not the property itself
                n_ob += 1
                backends['ast-static'] = backends.get('ast-static', 0) + 1
                if ok:
                    n_dis += 1
                elif argument_only:
                    undecided.append(dict(fid=oid, reason='a premise of the deductive argument no longer holds (the property itself is decided by the bounded part)',
                                          detail=str(detail)[:300]))
                else:
                    static_failed.append((oid, detail))
        except Exception:
            crashes.append("static obligations crashed: " + traceback.format_exc()[-1500:])

    # ---------------------------------------------------------------- bounded part (monitors on the real code)
    bres = None
    if plan.bounded is not None and not no_bounded:
        try:
            bres = plan.bounded(REPO, tier, seed)
        except Exception:
            crashes.append("bounded part crashed: " + traceback.format_exc()[-2500:])
    bviol = list(bres['violations']) if bres else []

    # known-finding witnesses are replayed on every run
    for k in kf:
        still = None
        if plan.replay is not None and k.get('witness') is not None:
            try:
                ok, observed = plan.replay(REPO, dict(property=pid, key=k['key'], input=k['witness']))
                still = not ok
            except Exception:
                still = None
        k['_still_fails'] = still

    def match_known(key):
        for k in kf:
            if k['key'] == key:
                return k
        return None

    reported_known = set()
    for v in bviol:
        k = match_known(v['key'])
        if k is not None:
            reported_known.add(k['key'])
            continue
        path = write_replay(pid, v['key'], dict(property=pid, key=v['key'], obligation=v.get('obligation', v['key']),
                                                replayable=True, input=v['input'], observed=v.get('observed'),
                                                required=v.get('required'), blame=v.get('blame')))
        violations.append((v['key'], path, False))
    for k in kf:
        if k['key'] in reported_known or k.get('_still_fails'):
            known_lines.append(f"KNOWN-FINDING: property={pid} {k['key']} {k['description']}")

    # failed proof obligations: violation only with a concrete failing input (above) or a refuting model of a
    # ledger obligation; otherwise undecided
    blamed = {v.get('blame') for v in bviol if not match_known(v['key'])}
    for o in failed_ob:
        k = match_known(o['oid'])
        if k is not None:
            known_lines.append(f"KNOWN-FINDING: property={pid} {o['oid']} {k['description']}")
            continue
        if o['fid'] in blamed:
            continue                       # already reported with a concrete input blamed on this function
        if any(kk.get('covers_obligation') == o['oid'] for kk in kf):
            continue
        if o['status'] == 'refuted' and o['in_ledger']:
            path = write_replay(pid, o['oid'], dict(property=pid, obligation=o['oid'], replayable=False,
                                                    verdict='solver produced a counter-model of an obligation that '
                                                            'discharges on the pinned tree; no concrete failing input '
                                                            'was found by the bounded search',
                                                    solver_output=o['model']))
            violations.append((o['oid'], path, True))
        else:
            undecided.append(dict(fid=o['fid'], reason=f"obligation {o['status']}", detail=o['oid']))

    for oid, detail in static_failed:
        if match_known(oid) is not None:
            known_lines.append(f"KNOWN-FINDING: property={pid} {oid}")
            continue
        path = write_replay(pid, oid, dict(property=pid, obligation=oid, replayable=False,
                                           verdict='static obligation on the source text of /repo fails; the offending AST nodes are listed',
                                           solver_output=str(detail)))
        violations.append((oid, path, not any(not nm for _, _, nm in violations)))

    # ---------------------------------------------------------------- evidence
    wall = round(time.time() - t0, 2)
    cov = dict(
        explanation=plan.explanation,
        functions_under_contract=fn_rows,
        obligations=n_ob, discharged=n_dis,
        backends=backends, solver_time_s=round(solver_time, 2),
        checker_cmd=f"./vcheck {pid} --tier {tier}",
        trusted_base=TRUSTED_BASE,
        proof_samples=samples,
        undecided=undecided[:20],
        known_findings=[l for l in known_lines],
    )
    if bres:
        cov.update(evaluations=int(bres['evaluations']), distinct_nontrivial=int(bres['distinct_nontrivial']),
                   rule=bres['rule'], samples=bres['samples'][:6], exhaustive=bool(bres.get('exhaustive', False)),
                   bounded_parts=bres.get('parts', []), bounds=bres.get('bounds', ''))
    else:
        cov.update(samples=samples or [dict(note='no obligations')])
    ev = dict(property_id=pid, tier=tier, seed=seed, level=plan.level, coverage=cov,
              assumptions=sorted(assumptions) + list(plan.assumptions), wall_s=wall, violations=len(violations))
    # evidence for /repo itself goes to evidence/<id>.json; runs against a scratch copy (COMA_REPO, used by the
    # self-tests with seeded changes) must not overwrite it
    evdir = os.path.join(HERE, 'evidence') if os.path.realpath(REPO) == '/repo' else os.path.join(HERE, 'evidence', '.scratch')
    os.makedirs(evdir, exist_ok=True)
    with open(os.path.join(evdir, f'{pid}.json'), 'w') as f:
        json.dump(ev, f, indent=1, default=str)

    # ---------------------------------------------------------------- verdict
    for l in dict.fromkeys(known_lines):
        print(l)
    print(f"{pid} [{tier}] functions={len(reps)} obligations={n_ob} discharged={n_dis} "
          f"bounded_evaluations={bres['evaluations'] if bres else 0} wall={wall}s")
    if crashes:
        for c in crashes:
            print("CHECKER-ERROR", c)
        if not violations:
            return 3
    if violations:
        for key, path, nomodel in violations:
            print(f"FAILED-OBLIGATION property={pid} {key}")
            print(f"VIOLATION property={pid} replay={path}" + (" no-failing-input-found" if nomodel else ""))
        return 1
    if undecided:
        for u in undecided[:10]:
            print(f"UNDECIDED property={pid} {u['fid']} {u['reason']} {u['detail'] or ''}"[:600])
        return 2
    return 0


if __name__ == '__main__':
    main()
